(* C12 - Patterns, destructuring, switch and runtime type annotations.
   Only statements here; every proof is `exact <lemma>` into Lang/*_proofs.v.
   `sat` is the table of user predicates behind `satisfying(..)` (any function from values to a
   truth value or an error); `inexact` is float/complex arithmetic (C07's subject).  Both are
   universally quantified. *)
From Coq Require Import ZArith NArith List Bool.
From NV Require Import Common.Outcome Lang.Types Lang.Types_proofs Lang.Pattern Lang.PatternSpec Lang.Store
  Lang.Pattern_proofs Lang.Pattern_proofs2 Lang.Pattern_proofs3 Lang.Store_proofs Lang.Pattern_inverts
  Lang.Pattern_ops Lang.Convert Lang.Convert_proofs Lang.Pattern_defaults.
Import ListNotations.

(* binding a value to a pattern never panics, whatever the pattern, value, mode and store:
   in particular the usize subtractions of assign_all cannot underflow (they are checked
   operations in the model, Pattern.split_splat / scan) *)
Theorem C12_assign_total : forall (sat : N -> val -> outcome bool) (inexact : iop -> num -> num -> num),
  (forall pid v, sat pid v <> Panic) ->
  forall fuel p rt v s, snd (assign sat inexact fuel p rt v s) <> Panic.
Proof. exact assign_no_panic. Qed.
Print Assumptions C12_assign_total.

(* the model's fuel is never the reason for an answer: pat_size p units suffice *)
Theorem C12_assign_top_total : forall (sat : N -> val -> outcome bool) (inexact : iop -> num -> num -> num),
  (forall pid v, sat pid v <> Panic) -> (forall pid v, sat pid v <> OutOfFuel) ->
  forall p rt v s, snd (assign_top sat inexact p rt v s) <> Panic /\
                   snd (assign_top sat inexact p rt v s) <> OutOfFuel.
Proof. exact assign_top_total. Qed.
Print Assumptions C12_assign_top_total.

(* v is type(v), v is anything: for every value *)
Theorem C12_is_type_of : forall (sat : N -> val -> outcome bool) (v : val),
  is_type sat (type_of v) v = Ok true /\ is_type sat TAny v = Ok true.
Proof. intros. split; [apply is_type_of|apply is_type_any]. Qed.
Print Assumptions C12_is_type_of.

(* `v is T` is true for exactly the values type(v) classifies as T (T one of the kinds type_of reports) *)
Theorem C12_is_type_exact : forall (sat : N -> val -> outcome bool) (t : ty) (v : val),
  kind_type t = true -> is_type sat t v = Ok (ty_eqb (type_of v) t).
Proof. exact is_type_exact. Qed.
Print Assumptions C12_is_type_exact.

(* ---- sequence patterns.  `rec` is the matcher used for the items (any function: in assign it is
   assign itself with less fuel), so these are statements about the sequence engine alone. *)

(* no splat, no default: equal lengths are needed, items then pair up in order; on a mismatch the
   result is a value error and nothing at all has been bound *)
Theorem C12_seq_equal_length : forall (rec : pat -> option ty -> val -> store -> res) ps rt rhs s,
  forallb plain ps = true ->
  assign_all rec ps rt rhs s =
    if Nat.eqb (length ps) (length rhs) then zip_assign rec ps rt rhs s else (s, Err EValue).
Proof. exact seq_plain. Qed.
Print Assumptions C12_seq_equal_length.

(* one splat absorbs the difference (possibly nothing); too few items: value error, nothing bound *)
Theorem C12_seq_one_splat : forall (rec : pat -> option ty -> val -> store -> res) front sp back rt rhs s,
  forallb plain front = true -> is_splat sp = true -> forallb plain back = true ->
  assign_all rec (front ++ sp :: back) rt rhs s =
    let nf := length front in let nb := length back in let n := length rhs in
    if (n <? nf + nb)%nat then (s, Err EValue)
    else
      andthen (zip_assign rec front rt (firstn nf rhs) s) (fun s1 =>
      andthen (assign_splat rec sp rt (skipn nf (firstn (n - nb) rhs)) s1) (fun s2 =>
      zip_assign rec back rt (skipn (n - nb) rhs) s2)).
Proof. exact seq_one_splat. Qed.
Print Assumptions C12_seq_one_splat.

(* defaults fill missing trailing items *)
Theorem C12_seq_defaults : forall (rec : pat -> option ty -> val -> store -> res) req ods rt rhs s,
  forallb plain req = true ->
  assign_all rec (req ++ map mkdef ods) rt rhs s =
    let n := length rhs in
    if (length req <=? n)%nat && (n <=? length req + length ods)%nat
    then zip_assign rec (req ++ map mkdef ods) rt (rhs ++ skipn (n - length req) (map snd ods)) s
    else (s, Err EValue).
Proof. exact seq_defaults. Qed.
Print Assumptions C12_seq_defaults.

(* literals match by == and bind nothing; `or` takes the first alternative that succeeds (the
   second is tried only when the first raised); `and` binds both against the same value *)
Theorem C12_literal_or_and : forall (sat : N -> val -> outcome bool) (inexact : iop -> num -> num -> num)
  fuel a b l rt v s,
  assign sat inexact (S fuel) (PLit l) rt v s = (s, if veq l v then Ok tt else Err EType) /\
  assign sat inexact (S fuel) (POr a b) rt v s =
    match assign sat inexact fuel a rt v s with
    | (s1, Ok _) => (s1, Ok tt)
    | (s1, Err _) => assign sat inexact fuel b rt v s1
    | (s1, e) => (s1, e)
    end /\
  assign sat inexact (S fuel) (PAnd a b) rt v s =
    andthen (assign sat inexact fuel a rt v s) (assign sat inexact fuel b rt v).
Proof. intros. split; [apply assign_lit|split; reflexivity]. Qed.
Print Assumptions C12_literal_or_and.

(* ---- a match inverts its pattern.  In a declaring context (switch, catch, parameters, for, :=;
   rt = Some t) a successful match only ADDS bindings, and under the final bindings (or any
   extension of them) the pattern read backwards denotes the matched value: PatternSpec.recon -
   a name denotes its binding, a literal anything == to it, a sequence pattern a sequence whose
   elements are denoted item by item with the splat's list spliced in, `and` both sides, `or`
   one side, a struct pattern an instance with the denoted fields, an operator pattern a value
   whose destructuring is denoted by the operands.  (Patterns without defaults: a default that
   fills a missing item is not part of the value; see C12_seq_defaults.) *)
Theorem C12_match_inverts : forall (sat : N -> val -> outcome bool) (inexact : iop -> num -> num -> num)
  fuel p t v s s',
  assign sat inexact fuel p (Some t) v s = (s', Ok tt) -> nodef p = true ->
  extends s s' /\ forall s'', extends s' s'' -> recon inexact fuel s'' p v.
Proof. exact match_inverts. Qed.
Print Assumptions C12_match_inverts.

(* ... and destructuring is the inverse of the operator: n + k (integers), k * n (integers), -x,
   a / b (every exact number), h .+ t and xs +. x (lists) *)
Theorem C12_destructure_inverts : forall (inexact : iop -> num -> num -> num),
  (forall r a res, destructure inexact BPlus (VNum (NInt r)) [None; Some (VNum (NInt a))] = Ok res ->
     exists z, res = [vint z; vint a] /\ (0 <= z)%Z /\ num_add inexact (NInt z) (NInt a) = NInt r) /\
  (forall r a res, destructure inexact BTimes (VNum (NInt r)) [Some (VNum (NInt a)); None] = Ok res ->
     exists z, res = [vint a; vint z] /\ num_mul inexact (NInt a) (NInt z) = NInt r) /\
  (forall x k res, destructure inexact BMinus (VNum x) [k] = Ok res ->
     exists y, res = [VNum y] /\ num_neg y = x) /\
  (forall x ks res, destructure inexact BDivide (VNum x) ks = Ok res ->
     exists n d, res = [vint n; vint (Zpos d)] /\ num_eq (num_div inexact (NInt n) (NInt (Zpos d))) x = true) /\
  (forall l ks res, destructure inexact BPrepend (VList l) ks = Ok res ->
     exists h t, res = [h; t] /\ prepend h t = Ok (VList l)) /\
  (forall l ks res, destructure inexact BAppend (VList l) ks = Ok res ->
     exists i x, res = [i; x] /\ append i x = Ok (VList l)).
Proof. exact destructure_inverts. Qed.
Print Assumptions C12_destructure_inverts.

(* ---- match_inverts for a sequence pattern WITH trailing defaults (declaring context; the items
   themselves default-free): the supplied items may stop anywhere inside the defaulted tail, and
   read backwards under the final bindings the pattern denotes the matched sequence EXTENDED by the
   defaults that filled the missing trailing items - a default pattern is bound to its own default
   exactly when no item was supplied for it *)
Theorem C12_seq_defaults_inverts : forall (sat : N -> val -> outcome bool) (inexact : iop -> num -> num -> num)
  f req ods dl t v s s',
  forallb plain req = true -> forallb nodef req = true -> forallb nodef (map fst ods) = true ->
  assign sat inexact (S (S f)) (PSeq (req ++ map mkdef ods) dl) (Some t) v s = (s', Ok tt) ->
  exists es, elements v = Some es /\
    (length req <= length es <= length req + length ods)%nat /\
    forall s'', extends s' s'' ->
      recon_items (recon inexact (S f) s'') (req ++ map mkdef ods)
                  (es ++ skipn (length es - length req) (map snd ods)).
Proof. exact seq_defaults_inverts. Qed.
Print Assumptions C12_seq_defaults_inverts.

(* ---- operator patterns, continued *)
(* a comparison pattern (`1 < x < 9`, `a <= b`, `0 <= _ != 5`) matches iff the arity fits, there is
   at least one slot, the value (one slot) or its elements (several slots) fill exactly the
   non-literal positions, and EVERY link of the chain accepts; what is then matched against the
   operand patterns is the operand list with the literals kept and the slots filled *)
Theorem C12_cmp_pattern_iff : forall (inexact : iop -> num -> num -> num) op chained v known ret,
  destructure inexact (BCmp op chained) v known = Ok ret <->
  (length chained + 2 = length known)%nat /\ nslots known <> 0%nat /\
  (exists rv, (if Nat.eqb (nslots known) 1 then rv = [v] else elements v = Some rv) /\
              lits_agree known ret /\ slot_values known ret = rv) /\
  links_hold (op :: chained) ret.
Proof. exact cmp_pattern_iff. Qed.
Print Assumptions C12_cmp_pattern_iff.

(* the README's `1 < x < 9`: on integers it matches exactly those strictly between *)
Theorem C12_cmp_between_int : forall (inexact : iop -> num -> num -> num) a z b,
  destructure inexact (BCmp CLt [CLt]) (vint z) [Some (vint a); None; Some (vint b)] =
  if ((a <? z) && (z <? b))%Z then Ok [vint a; vint z; vint b] else Err EValue.
Proof. exact cmp_between_int. Qed.
Print Assumptions C12_cmp_between_int.

(* `n + k` and `k * n` on EVERY exact number (integer or rational value, integer or rational literal):
   the bound part is exact, not negative for plus, and combined with the literal it is == the matched number *)
Theorem C12_plus_inverts_exact : forall (inexact : iop -> num -> num -> num) r a d,
  is_exact r = true -> is_exact a = true -> plus_inv inexact r a = Ok d ->
  is_exact d = true /\ num_ge0 d = true /\
  num_eq (num_add inexact a d) r = true /\ num_eq (num_add inexact d a) r = true.
Proof. exact plus_inverts_exact. Qed.
Print Assumptions C12_plus_inverts_exact.

Theorem C12_times_inverts_exact : forall (inexact : iop -> num -> num -> num) r a k,
  is_exact r = true -> is_exact a = true -> times_inv inexact r a = Ok k ->
  is_exact k = true /\ num_eq (num_mul inexact a k) r = true /\ num_eq (num_mul inexact k a) r = true.
Proof. exact times_inverts_exact. Qed.
Print Assumptions C12_times_inverts_exact.

(* `h .+ t` / `xs +. x` on vectors and bytes invert prepend / append; strings come apart by
   CHARACTER (the operators themselves raise on strings) *)
Theorem C12_cons_snoc_other_sequences :
  (forall l h t, uncons (VVec l) = Ok (Some (h, t)) -> prepend h t = Ok (VVec l)) /\
  (forall l i x, unsnoc (VVec l) = Ok (Some (i, x)) -> append i x = Ok (VVec l)) /\
  (forall l h t, bytes_ok l -> uncons (VBytes l) = Ok (Some (h, t)) -> prepend h t = Ok (VBytes l)) /\
  (forall l i x, bytes_ok l -> unsnoc (VBytes l) = Ok (Some (i, x)) -> append i x = Ok (VBytes l)) /\
  (forall s h t, uncons (VStr s) = Ok (Some (h, t)) -> exists c r, h = VStr [c] /\ t = VStr r /\ s = c :: r) /\
  (forall s i x, unsnoc (VStr s) = Ok (Some (i, x)) -> exists c r, i = VStr r /\ x = VStr [c] /\ s = r ++ [c]).
Proof.
  repeat split; [exact prepend_inverts_vec|exact append_inverts_vec|exact prepend_inverts_bytes|
                 exact append_inverts_bytes|exact uncons_string|exact unsnoc_string].
Qed.
Print Assumptions C12_cons_snoc_other_sequences.

(* ---- conversions: a type called with one argument (int(x), rational(x), list(x), vector(x), bytes(x),
   dict(x), stream(x), number(x), float(x), type(x), Foo(x)), for the conversions that are
   modelled (Lang/Convert.v; string parsing/formatting and float rounding are not): when it returns,
   the result is of the type that was called.  `fields` is the struct table (any). *)
Theorem C12_conversion_lands_in_type : forall (sat : N -> val -> outcome bool) (fields : N -> list (option val))
  t v r,
  convert fields t v = Some (Ok r) -> is_type sat t r = Ok true.
Proof. exact conversion_lands_in_type. Qed.
Print Assumptions C12_conversion_lands_in_type.

(* ---- switch / catch *)
Theorem C12_switch_first_match : forall (sat : N -> val -> outcome bool) (inexact : iop -> num -> num -> num)
  arms v i s,
  switch sat inexact arms v = Ok (i, s) ->
  (i < length arms)%nat /\
  assign_top sat inexact (nth i arms PWild) (Some TAny) v [] = (s, Ok tt) /\
  forall j, (j < i)%nat -> exists s' c, assign_top sat inexact (nth j arms PWild) (Some TAny) v [] = (s', Err c).
Proof. exact switch_first_match. Qed.
Print Assumptions C12_switch_first_match.

Theorem C12_switch_takes_first : forall (sat : N -> val -> outcome bool) (inexact : iop -> num -> num -> num)
  arms v j s,
  (j < length arms)%nat ->
  assign_top sat inexact (nth j arms PWild) (Some TAny) v [] = (s, Ok tt) ->
  (forall j', (j' < j)%nat -> exists s' c, assign_top sat inexact (nth j' arms PWild) (Some TAny) v [] = (s', Err c)) ->
  switch sat inexact arms v = Ok (j, s).
Proof. exact switch_takes_first. Qed.
Print Assumptions C12_switch_takes_first.

Theorem C12_switch_no_match_raises : forall (sat : N -> val -> outcome bool) (inexact : iop -> num -> num -> num)
  arms v,
  (forall p, In p arms -> exists s' c, assign_top sat inexact p (Some TAny) v [] = (s', Err c)) ->
  switch sat inexact arms v = Err EValue.
Proof. exact switch_no_match_raises. Qed.
Print Assumptions C12_switch_no_match_raises.

Theorem C12_switch_total : forall (sat : N -> val -> outcome bool) (inexact : iop -> num -> num -> num),
  (forall pid v, sat pid v <> Panic) -> (forall pid v, sat pid v <> OutOfFuel) ->
  forall arms v, switch sat inexact arms v <> Panic /\ switch sat inexact arms v <> OutOfFuel.
Proof. exact switch_total. Qed.
Print Assumptions C12_switch_total.

(* ---- annotations *)
(* every write a match performs is checked against the declared type of the variable it writes:
   whatever the outcome (a failed match keeps the writes it made), a declared type never changes
   and a value changes only to a value of that type *)
Theorem C12_write_is_checked : forall (sat : N -> val -> outcome bool) (inexact : iop -> num -> num -> num)
  fuel p rt v s x T w,
  lookup s x = Some (T, w) ->
  exists w', lookup (fst (assign sat inexact fuel p rt v s)) x = Some (T, w') /\
             (w' = w \/ is_type sat T w' = Ok true).
Proof. intros. eapply assign_Rty; eauto. Qed.
Print Assumptions C12_write_is_checked.

(* no statement changes a declared type, whether it completes or raises *)
Theorem C12_stmt_keeps_types : forall (sat : N -> val -> outcome bool) (inexact : iop -> num -> num -> num)
  (binop : N -> val -> val -> outcome val) st s x T w,
  lookup s x = Some (T, w) ->
  exists w', lookup (fst (run_stmt sat inexact binop st s)) x = Some (T, w').
Proof. intros. eapply stmt_keeps_types; eauto. Qed.
Print Assumptions C12_stmt_keeps_types.

(* assignment, destructuring, op-assignment, every-assignment, every-op-assignment, swap, indexed
   assignment: when the statement completes, every variable it writes holds a value of its
   declared type (`binop` is the operator of an op-assignment: any function) *)
Theorem C12_stmt_establishes : forall (sat : N -> val -> outcome bool) (inexact : iop -> num -> num -> num)
  (binop : N -> val -> val -> outcome val) st s s' x T w,
  run_stmt sat inexact binop st s = (s', Ok tt) -> In x (writes st) -> lookup s x = Some (T, w) ->
  exists w', lookup s' x = Some (T, w') /\ is_type sat T w' = Ok true.
Proof. intros. eapply stmt_establishes; eauto. Qed.
Print Assumptions C12_stmt_establishes.

(* the invariant over histories of any length: x keeps its declared type T throughout, and after
   each statement that writes x and returns without raising, `x is T` *)
Theorem C12_annotation_invariant : forall (sat : N -> val -> outcome bool) (inexact : iop -> num -> num -> num)
  (binop : N -> val -> val -> outcome val) sts s0 x T w0,
  lookup s0 x = Some (T, w0) ->
  Forall (fun step => match step with (st, s', o) =>
            (exists w', lookup s' x = Some (T, w')) /\
            (o = Ok tt -> In x (writes st) -> exists w', lookup s' x = Some (T, w') /\ is_type sat T w' = Ok true)
          end) (run_hist sat inexact binop sts s0).
Proof. exact annotation_invariant. Qed.
Print Assumptions C12_annotation_invariant.

Example C12_nonvacuous :
  assign_top sat_none inexact_nan (PSeq [PVar 1; PSplat (PVar 2); PVar 3] false) (Some TAny) (VList [vint 1; vint 2]) [] =
    ([(3%N, (TAny, vint 2)); (2%N, (TAny, VList [])); (1%N, (TAny, vint 1))], Ok tt) /\
  is_type sat_none TRational (VNum (NRat 1 2)) = Ok true /\
  (* x : int = 5; x += "a" raises and leaves null; x = 7 completes and re-establishes the type *)
  map (fun step => snd step) (run_hist sat_none inexact_nan (binop_std inexact_nan)
      [SDeclare (PAnn (PVar 0) (Some (VType TInt))) (vint 5); SOpAssign 0 0 (VStr [97%N]); SAssign (PVar 0) (vint 7)] []) =
    [Ok tt; Err EArg; Ok tt] /\
  switch sat_none inexact_nan [PLit (vint 1); PSeq [PVar 0; PVar 1] false; PWild] (VList [vint 3; vint 4]) =
    Ok (1%nat, [(1%N, (TAny, vint 4)); (0%N, (TAny, vint 3))]).
Proof. repeat split; vm_compute; reflexivity. Qed.

(* match_inverts is not vacuous: `[a, ...b] and c` against [1, 2, 3] *)
Example C12_nonvacuous_inverts :
  exists s', assign_top sat_none inexact_nan (PAnd (PSeq [PVar 0; PSplat (PVar 1)] true) (PVar 2)) (Some TAny)
               (VList [vint 1; vint 2; vint 3]) [] = (s', Ok tt) /\
    lookup s' 0%N = Some (TAny, vint 1) /\ lookup s' 1%N = Some (TAny, VList [vint 2; vint 3]) /\
    lookup s' 2%N = Some (TAny, VList [vint 1; vint 2; vint 3]).
Proof. eexists. vm_compute. repeat split; reflexivity. Qed.

(* the later theorems are not vacuous either *)
Example C12_nonvacuous_more :
  (* (a, (b = 7)) against [1]: b takes its default *)
  assign_top sat_none inexact_nan (PSeq ([PVar 0] ++ map mkdef [(PVar 1, vint 7)]) false) (Some TAny) (VList [vint 1]) [] =
    ([(1%N, (TAny, vint 7)); (0%N, (TAny, vint 1))], Ok tt) /\
  (* x + 1/2 against 3: x = 5/2 *)
  plus_inv inexact_nan (NInt 3) (NRat 1 2) = Ok (NRat 5 2) /\
  (* (1/2) * x against 3: x = 6 (as a rational) *)
  times_inv inexact_nan (NInt 3) (NRat 1 2) = Ok (NRat 6 1) /\
  (* 1 < x < 9 against 5 and against 9 *)
  destructure inexact_nan (BCmp CLt [CLt]) (vint 5) [Some (vint 1); None; Some (vint 9)] = Ok [vint 1; vint 5; vint 9] /\
  destructure inexact_nan (BCmp CLt [CLt]) (vint 9) [Some (vint 1); None; Some (vint 9)] = Err EValue /\
  (* int(7/2) = 3, vector([1, 2]) = V(1, 2), Bar(5) *)
  convert fields_std TInt (VNum (NRat 7 2)) = Some (Ok (vint 3)) /\
  convert fields_std TVector (VList [vint 1; vint 2]) = Some (Ok (VVec [NInt 1; NInt 2])) /\
  convert fields_std (TStruct 1) (vint 5) = Some (Ok (VInst 1 [vint 5])).
Proof. repeat split; vm_compute; reflexivity. Qed.
