(* C17 - freeze preserves meaning and binds free variables eagerly.
   Only statements here; every proof is `exact <lemma>` into Lang/Freeze*_proofs.v.
   `look` is the store lookup at freeze time (Env::try_borrow_get_var on FreezeEnv.env),
   `B` the bound set (empty when Expr::Freeze calls freeze). *)
From Coq Require Import ZArith String List Bool.
From NV Require Import Common.Outcome Lang.FreezeLang Lang.Freeze Lang.FreezeSpec Lang.Freeze_proofs
  Lang.FreezeRel Lang.FreezeDbc Lang.FreezePres_proofs Lang.FreezeRefl_proofs Lang.FreezePres_example.
Import ListNotations.
Open Scope string_scope.

(* freezing fails exactly when the expression mentions a free identifier unbound in the store,
   assigns to an identifier it has not bound, contains an import or a bare underscore *)
Theorem C17_freeze_fails_iff : forall (look : name -> option val) (B : list name) (e : expr),
  (exists c, freeze look B e = Err c) <-> Bad look B e.
Proof. exact freeze_fails_iff. Qed.
Print Assumptions C17_freeze_fails_iff.

(* ... and only ever with a name error or a syntax error; never a panic, never out of fuel *)
Theorem C17_freeze_error_class : forall (look : name -> option val) (B : list name) (e : expr),
  (exists p, freeze look B e = Ok p) \/ freeze look B e = Err EName \/ freeze look B e = Err ESyntax.
Proof. exact freeze_error_class. Qed.
Print Assumptions C17_freeze_error_class.

(* the frozen expression has no free identifier left: it is closed under its own binders (and
   declares exactly the names the original declares) *)
Theorem C17_freeze_resolves_eagerly : forall (look : name -> option val) (B : list name) (e e' : expr) (B' : list name),
  freeze look B e = Ok (e', B') -> closed B e' /\ B' = bnd B e /\ bnd B e' = B'.
Proof. exact freeze_resolves_eagerly. Qed.
Print Assumptions C17_freeze_resolves_eagerly.

(* the constant folding of a call happens exactly when the (frozen) callee is the builtin named "-"
   and there is exactly one argument, a numeric constant; every other call is left as a call *)
Theorem C17_negative_literal_fold : forall (f : expr) (args : list expr),
  (exists p a z, f = EFrozen (VPrim PSub p) /\ args = [a] /\ constant_value a = Some (VInt z) /\
                 fold_call f args = EFrozen (VInt (- z))) \/
  ((~ exists p a z, f = EFrozen (VPrim PSub p) /\ args = [a] /\ constant_value a = Some (VInt z)) /\
   fold_call f args = ECall f args).
Proof. exact fold_call_spec. Qed.
Print Assumptions C17_negative_literal_fold.

(* freeze preserves meaning, and binds eagerly.  `cur0` is the frame in which the expression was frozen
   and is evaluated, `n0` the number of frames of the store at the start (so cur0 < n0); `srel` relates
   the store `st` of the original run and the store `st'` of the frozen run (same frames and
   variables, related values, same printed output) EXCEPT at the variables named in `mutl`, whose
   cells may hold anything in `st'`: these are the outer variables reassigned between the freeze and
   the use (C17_reassignment_keeps_relation below: `x = w` with x in mutl, done on the frozen side
   only, keeps `srel`).  `agree` says that in `st` the variables freeze resolved (`rn B e`) still hold
   (values related to) what freeze copied, and the original run is under `prot0 n0 (rn B e)`: it stops
   with the signal STrap as soon as a variable named like a resolved one is about to be declared or
   assigned in a pre-existing frame - the hypothesis "r <> Sig STrap" is the property's "e's free
   variables are not reassigned between the freeze and the use".
   Fragment: `declared_before_captured mutl B e` (Lang/FreezeDbc.v) - no name that freeze resolves
   inside a lambda is declared by a scope enclosing that lambda; values frozen into the source
   contain no closures; an identifier that freeze keeps (bound by the expression) is not named in mutl.
   Conclusion: the protected run is the run of the plain evaluator (`noprot`), and the plain
   evaluator on the frozen expression, in the store with the reassigned variables, ends (same fuel)
   with a related store, the same printed output and a related result (`rres`: value / thrown value
   related by `vrel`, or both left the vocabulary).  With mutl = [] this is plain preservation; with
   mutl <> [] it says the frozen code does not depend on the current values of those variables. *)
Theorem C17_freeze_preserves : forall (n0 cur0 : nat) (look : name -> option val) (mutl : list name), cur0 < n0 ->
  forall (B : list name) (e e' : expr) (B' : list name) (st st' : state) (fuel : nat) (st1 : state) (r : res val),
    freeze look B e = Ok (e', B') ->
    declared_before_captured mutl B e ->
    srel n0 cur0 look (rn B e) mutl st st' ->
    agree n0 cur0 look (rn B e) mutl (frames st) ->
    eval (prot0 n0 (rn B e)) fuel st cur0 e = (st1, r) ->
    r <> OutOfFuel -> r <> Sig STrap ->
    eval noprot fuel st cur0 e = (st1, r) /\
    exists st1' r',
      eval noprot fuel st' cur0 e' = (st1', r') /\
      srel n0 cur0 look (rn B e) mutl st1 st1' /\
      out st1 = out st1' /\
      rres n0 cur0 look (rn B e) mutl (vrel n0 cur0 look (rn B e) mutl) (frames st1) r r'.
Proof. exact freeze_preserves_plain. Qed.
Print Assumptions C17_freeze_preserves.

(* reassigning, on the frozen side only, a variable named in mutl keeps the stores related *)
Theorem C17_reassignment_keeps_relation : forall (n0 cur0 : nat) (look : name -> option val) (resl mutl : list name)
    (st st' : state) (f : nat) (x : name) (w : val) (st'' : state),
  srel n0 cur0 look resl mutl st st' -> mem x mutl = true ->
  assign noprot st' f x w = UOk st'' -> srel n0 cur0 look resl mutl st st''.
Proof. exact srel_reassign. Qed.
Print Assumptions C17_reassignment_keeps_relation.

(* the hypotheses are met by every store whose closures are ordinary source code: a well-formed
   store is related to itself (and, taken as the freeze-time store, agrees with itself) as soon as
   the bodies of the closures it holds mention no identifier named in mutl, contain no frozen
   closure (`selfok`), and their environments are frames of the store (`valok`, `frame_ok`) *)
Theorem C17_store_related_to_itself : forall (mutl : list name) (FV : name -> option val) (n0 cur0 : nat)
    (resl : list name) (st : state),
  cur0 < n0 -> n0 <= length (frames st) -> wf_frames (frames st) ->
  Forall (frame_ok mutl (length (frames st))) (frames st) ->
  srel n0 cur0 FV resl mutl st st /\
  agree n0 cur0 (lookup (frames st) cur0) resl mutl (frames st).
Proof.
  intros. split; [apply srel_refl_ok; auto | apply agree_refl_ok; auto].
Qed.
Print Assumptions C17_store_related_to_itself.

(* for every argument tuple: related function values (a lambda and its frozen form, by the theorem
   above) applied later, in related stores, to related arguments: `post` = either the original call
   ran out of fuel / hit a protected variable, or both calls end with related stores, the same
   output and related results *)
Theorem C17_frozen_call_preserves : forall (n0 cur0 : nat) (look : name -> option val) (mutl : list name), cur0 < n0 ->
  forall (resl : list name) (fuel : nat) (st st' : state) (cur : nat) (fv fv' : val) (args args' : list val),
    srel n0 cur0 look resl mutl st st' -> agree n0 cur0 look resl mutl (frames st) ->
    vrel n0 cur0 look resl mutl (frames st) fv fv' -> vrels n0 cur0 look resl mutl (frames st) args args' ->
    post n0 cur0 look resl mutl (vrel n0 cur0 look resl mutl) st cur []
         (apply (prot0 n0 resl) fuel st fv args) (apply (prot0 n0 resl) fuel st' fv' args').
Proof. exact frozen_call_preserves. Qed.
Print Assumptions C17_frozen_call_preserves.

(* the relation has slack only in closure bodies: related data are equal *)
Theorem C17_related_data_equal : forall (n0 cur0 : nat) (look : name -> option val) (mutl resl : list name)
    (fs : list frame) (v v' : val),
  vrel n0 cur0 look resl mutl fs v v' -> simple v = true -> v = v'.
Proof. exact vrel_data_eq. Qed.
Print Assumptions C17_related_data_equal.

(* without the hypothesis the statement is false on the faithful model (DESIGN F21):
   a := 3; (\x -> (g := \-> a; a := x; g()))(8) is 8, its frozen form gives 3, in a store related to
   itself in which nothing is reassigned *)
Theorem C17_freeze_preserves_refuted :
  exists (st : state) (e e' : expr) (B' : list name),
    freeze (look_in (frames st) 0) [] e = Ok (e', B') /\
    ~ declared_before_captured [] [] e /\
    srel 1 0 (look_in (frames st) 0) (rn [] e) [] st st /\
    agree 1 0 (look_in (frames st) 0) (rn [] e) [] (frames st) /\
    eval (prot0 1 (rn [] e)) 12 st 0 e = (fst (eval (prot0 1 (rn [] e)) 12 st 0 e), Val (VInt 8)) /\
    snd (eval (prot0 1 (rn [] e)) 12 st 0 e') = Val (VInt 3).
Proof. exact freeze_preserves_refuted. Qed.
Print Assumptions C17_freeze_preserves_refuted.

(* ... and the last side condition of the fragment is needed (known finding
   freeze-binds-before-declaration): (\ -> (a := a + 1; a))() freezes, satisfies the fragment for
   mutl = [] but not for mutl = ["a"], and its frozen form gives 4 in a store with a = 3 and 11
   after `a = 10`: the frozen code reads the outer variable when it runs *)
Theorem C17_binds_eagerly_refuted : exists e' B',
  freeze (look_in (frames f21_state) 0) [] k2_prog = Ok (e', B') /\
  declared_before_captured [] [] k2_prog /\
  ~ declared_before_captured ["a"] [] k2_prog /\
  snd (eval noprot 12 f21_state 0 e') = Val (VInt 4) /\
  snd (eval noprot 12 f21_state_reassigned 0 e') = Val (VInt 11).
Proof. exact k2_late_binding. Qed.
Print Assumptions C17_binds_eagerly_refuted.

(* non-vacuity: freeze computes, resolves, folds, refuses *)
Example C17_nonvacuous :
  freeze glook [] (ELam ["x"] (bin "+" (EVar "x") (EInt 1)))
    = Ok (ELam ["x"] (EChain (EVar "x") [(EFrozen (VPrim PAdd 4), EInt 1)]), []) /\
  freeze glook [] (ELam ["x"] (bin "+" (EVar "x") (EVar "a"))) = Err EName /\
  Bad glook [] (ELam ["x"] (EAssign "len" (EVar "x"))) /\
  closed [] (ELam ["x"] (EChain (EVar "x") [(EFrozen (VPrim PAdd 4), EInt 1)])).
Proof.
  repeat split; try reflexivity.
  - apply BadLam. apply BadAssignOuter. reflexivity.
  - apply (proj1 (C17_freeze_resolves_eagerly glook [] (ELam ["x"] (bin "+" (EVar "x") (EInt 1))) _ _ eq_refl)).
Qed.

(* non-vacuity of the preservation theorem: its hypotheses hold, with mutl = ["a"], for
   (\x -> (t := x + a * 2; k := \p -> p - t; k(20) + len([1, -4])))(5), st = a store with a = 3 and
   st' = that store after `a = 10`; freeze changes the expression; the original evaluates to 11 in
   st, the frozen form to 11 in st' - where the original itself would give -3 *)
Example C17_preserves_nonvacuous :
  (declared_before_captured ["a"] [] ex_prog /\
   srel 1 0 (look_in (frames f21_state) 0) (rn [] ex_prog) ["a"] f21_state f21_state_reassigned /\
   agree 1 0 (look_in (frames f21_state) 0) (rn [] ex_prog) ["a"] (frames f21_state)) /\
  (exists e' B',
     freeze (look_in (frames f21_state) 0) [] ex_prog = Ok (e', B') /\ e' <> ex_prog /\
     snd (eval (prot0 1 (rn [] ex_prog)) 12 f21_state 0 ex_prog) = Val (VInt 11) /\
     snd (eval noprot 12 f21_state_reassigned 0 e') = Val (VInt 11) /\
     snd (eval noprot 12 f21_state_reassigned 0 ex_prog) = Val (VInt (-3))).
Proof. split; [exact ex_prog_hyps | exact ex_prog_freezes]. Qed.
