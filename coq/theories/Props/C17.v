(* C17 - freeze preserves meaning and binds free variables eagerly.
   Only statements here; every proof is `exact <lemma>` into Lang/Freeze*_proofs.v.
   `look` is the store lookup at freeze time (Env::try_borrow_get_var on FreezeEnv.env),
   `B` the bound set (empty when Expr::Freeze calls freeze). *)
From Coq Require Import ZArith String List Bool.
From NV Require Import Common.Outcome Lang.FreezeLang Lang.Freeze Lang.FreezeSpec Lang.Freeze_proofs.
Import ListNotations.
Open Scope string_scope.

(* freezing fails exactly when the expression mentions a free identifier unbound in the store,
   assigns to an identifier it has not bound, contains an import or a bare underscore *)
Theorem C17_freeze_fails_iff : forall (look : name -> option val) (B : list name) (e : expr),
  (exists c, freeze look B e = Err c) <-> Bad look B e.
Proof. exact freeze_fails_iff. Qed.
Print Assumptions C17_freeze_fails_iff.

(* ... and only ever with a name error or a syntax error; never a panic, never out of fuel *)
Theorem C17_freeze_error_class : forall (look : name -> option val) (B : list name) (e : expr),
  (exists p, freeze look B e = Ok p) \/ freeze look B e = Err EName \/ freeze look B e = Err ESyntax.
Proof. exact freeze_error_class. Qed.
Print Assumptions C17_freeze_error_class.

(* the frozen expression has no free identifier left: it is closed under its own binders (and
   declares exactly the names the original declares) *)
Theorem C17_freeze_resolves_eagerly : forall (look : name -> option val) (B : list name) (e e' : expr) (B' : list name),
  freeze look B e = Ok (e', B') -> closed B e' /\ B' = bnd B e /\ bnd B e' = B'.
Proof. exact freeze_resolves_eagerly. Qed.
Print Assumptions C17_freeze_resolves_eagerly.

(* non-vacuity: freeze computes, resolves, folds, refuses *)
Example C17_nonvacuous :
  freeze glook [] (ELam ["x"] (bin "+" (EVar "x") (EInt 1)))
    = Ok (ELam ["x"] (EChain (EVar "x") [(EFrozen (VPrim PAdd 4), EInt 1)]), []) /\
  freeze glook [] (ELam ["x"] (bin "+" (EVar "x") (EVar "a"))) = Err EName /\
  Bad glook [] (ELam ["x"] (EAssign "len" (EVar "x"))) /\
  closed [] (ELam ["x"] (EChain (EVar "x") [(EFrozen (VPrim PAdd 4), EInt 1)])).
Proof.
  repeat split; try reflexivity.
  - apply BadLam. apply BadAssignOuter. reflexivity.
  - apply (proj1 (C17_freeze_resolves_eagerly glook [] (ELam ["x"] (bin "+" (EVar "x") (EInt 1))) _ _ eq_refl)).
Qed.
