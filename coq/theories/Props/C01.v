(* C01 - value semantics.  Statements only; proofs are `exact` into Rc/*_proofs.v.
   (stage 1: the spec and its correspondence; the machine theorems are added by the later stages) *)
From Coq Require Import ZArith List Bool.
From NV Require Import Rc.ValueSem.
Import ListNotations.
Open Scope Z_scope.

(* the README's pitch, in the spec: rows built by aliasing one row stay independent *)
Theorem C01_spec_readme_matrix :
  let row := VList [VInt 0; VInt 0; VInt 0] in
  final_value [VNull; VNull; VNull]
    [Simple (SAssign 1 [] (ELit row));
     Simple (SAssign 2 [] (EList [ERead 1 []; ERead 1 []]));
     Simple (SAssign 2 [PI 1; PI 2] (ELit (VInt 3)))]
  = [VNull; row; VList [row; VList [VInt 0; VInt 0; VInt 3]]].
Proof. exact readme_matrix. Qed.
Print Assumptions C01_spec_readme_matrix.
