(* C01 - value semantics: mutation never leaks through an alias.
   Only statements here; every proof is `exact <lemma>` into Rc/Cow_proofs.v, Rc/Heap_proofs.v,
   Rc/Corollaries_proofs.v.

   MACHINE  Rc/Heap.v + Rc/Cow.v : heap of cells with explicit strong counts; clone / drop (recursive
            at 0) / make_mut / in-place write; the statement forms transcribed from eval.rs.
   SPEC     Rc/ValueSem.v        : the same statements over pure immutable trees.
   StInv st     : every strong count = number of handles to that cell from variables + cell bodies
                  (hence no dangling handle, nothing points to a freed cell)
   Sim st sg    : every variable's handle value stands for (repr) the spec's tree; repr is an
                  inductive (well-founded) relation, so the heap reachable from a variable is acyclic
   traces_agree : after every statement: same raised/not-raised flag, StInv, Sim.
   holds st y t : the machine's variable y stands for the tree t.

   FRAGMENT covered (`ffrag`, defined in Rc/For_proofs.v over `sfrag` of Rc/Cow_proofs.v; notes/C01.md spells it
   out): arbitrary nesting, arbitrary index paths, all payload kinds (list, dict with/without default, string,
   vector, bytes, struct instance); statements  x[p] = e,  every x[p] = e (p with slices),  x[p] f= e  (append ++ +
   |. -. || |..),  x[p] f= [pop|remove|consume y[q]]  (a right-hand side that mutates, also the target itself: the old value
   is read first),  (x[p][k] = d) f= e  (op-assign with a default for a missing dictionary key),  (x[p] and y[q] ..) f= e  (op-assign to an and-pattern),  [y[q] =] pop|remove|consume x[p]  (remove also by slice),  swap x[p], y[q],
   for (it <- x[p]) (simple statements)  with the cloning/draining iterator;  expressions  literal, x[p] (also
   slices), getter closure, [e..], e{k = e'}, call of a function that mutates its parameter (incl. `every`).
   Write paths of the non-`every` forms contain no slice (that is todo!() in set_index, finding F11).
   NOT covered by the theorems (`sfrag` is false for it; spec and machine define it and it is checked by the
   correspondence and by C02's Rc-graph comparison only):  every x[p] f= e  (SEveryOp, modify_every: private copy, all or
   nothing).  Builtins outside `bop` are outside the model. *)
From Coq Require Import ZArith List Bool.
From NV Require Import Rc.ValueSem Rc.Heap Rc.Cow Rc.Heap_proofs Rc.Cow_proofs Rc.For_proofs Rc.Corollaries_proofs.
Import ListNotations.

(* the abstraction is a (partial) function of the heap and the handle value *)
Theorem C01_abs_functional : forall h v t t', repr h v t -> repr h v t' -> t = t'.
Proof. exact repr_det. Qed.
Print Assumptions C01_abs_functional.

(* inv_preserved + cow_refines_value, one statement: the count invariant is kept and the machine stays
   related to the value semantics, with the same raised/not-raised outcome *)
Theorem C01_step_refines : forall s, ffrag s = true -> forall st sg st' ok,
  StInv st -> Sim st sg -> m_exec st s = (st', ok) ->
  exists sg', exec sg s = (sg', ok) /\ StInv st' /\ Sim st' sg'.
Proof. exact m_exec_ok_f. Qed.
Print Assumptions C01_step_refines.

(* every history, observed after every statement (every prefix), from n null variables *)
Theorem C01_cow_refines_value : forall n ops, forallb ffrag ops = true ->
  traces_agree (run_cow (init_state n) ops) (run_value (repeat VNull n) ops).
Proof. intros n ops H. apply run_refines_f; auto; apply init_ok. Qed.
Print Assumptions C01_cow_refines_value.

Theorem C01_inv_preserved : forall n ops, forallb ffrag ops = true ->
  StInv (final_cow (init_state n) ops) /\ Sim (final_cow (init_state n) ops) (final_value (repeat VNull n) ops).
Proof. intros n ops H. apply final_refines_f; auto; apply init_ok. Qed.
Print Assumptions C01_inv_preserved.

(* in the value semantics a statement changes only the variables it names as targets (all statement forms) *)
Theorem C01_spec_frame : forall sg s y, ~ In y (writes s) -> nth_error (fst (exec sg s)) y = nth_error sg y.
Proof. exact exec_frame. Qed.
Print Assumptions C01_spec_frame.

(* a value copied into another variable is never changed by a later mutation of the original *)
Theorem C01_alias_unaffected : forall n ops1 x y ops2 t,
  forallb ffrag (ops1 ++ Simple (SAssign y [] (ERead x [])) :: ops2) = true ->
  (forall s, In s ops2 -> ~ In y (writes s)) ->
  y < n ->
  nth_error (final_value (repeat VNull n) ops1) x = Some t ->
  holds (final_cow (init_state n) (ops1 ++ Simple (SAssign y [] (ERead x [])) :: ops2)) y t.
Proof. exact alias_unaffected. Qed.
Print Assumptions C01_alias_unaffected.

(* ... and the same for a copy made by any statement (container element, sub-path, update, call result) *)
Theorem C01_alias_unaffected_gen : forall n ops1 ops2 y t,
  forallb ffrag (ops1 ++ ops2) = true ->
  (forall s, In s ops2 -> ~ In y (writes s)) ->
  nth_error (final_value (repeat VNull n) ops1) y = Some t ->
  holds (final_cow (init_state n) (ops1 ++ ops2)) y t.
Proof. exact alias_unaffected_gen. Qed.
Print Assumptions C01_alias_unaffected_gen.

(* calling a function that mutates its parameter leaves the argument variable unchanged *)
Theorem C01_call_leaves_argument : forall n ops x y m t,
  forallb ffrag (ops ++ [Simple (SAssign y [] (ECall m (ERead x [])))]) = true ->
  x <> y ->
  nth_error (final_value (repeat VNull n) ops) x = Some t ->
  holds (final_cow (init_state n) (ops ++ [Simple (SAssign y [] (ECall m (ERead x [])))])) x t.
Proof. exact call_leaves_argument. Qed.
Print Assumptions C01_call_leaves_argument.

(* a closure shares the variable, not the value it had when the closure was made *)
Theorem C01_closure_sees_variable_not_value : forall n ops x y t,
  forallb ffrag (ops ++ [Simple (SAssign y [] (EGet x))]) = true ->
  y < n ->
  nth_error (final_value (repeat VNull n) ops) x = Some t ->
  holds (final_cow (init_state n) (ops ++ [Simple (SAssign y [] (EGet x))])) y t.
Proof. exact closure_sees_variable_not_value. Qed.
Print Assumptions C01_closure_sees_variable_not_value.

(* non-vacuity: the README's aliased matrix, then an op-assign, a pop into another variable, a functional
   update and a mutating call, run through both semantics; they agree and the history is in the fragment *)
Example C01_nonvacuous :
  let row := VList [VInt 0; VInt 0; VInt 0] in
  let ops := [Simple (SAssign 1 [] (ELit row));
              Simple (SAssign 2 [] (EList [ERead 1 []; ERead 1 []]));
              Simple (SAssign 2 [PI 1; PI 2] (ELit (VInt 3)));
              Simple (SOp 1 [] BAppend (ERead 2 [PI 0]));
              Simple (SMod (Some (3, [])) 2 (LPop []));
              Simple (SAssign 4 [] (EUpd (ERead 1 []) (PI 0) (ELit (VInt 7))));
              Simple (SAssign 4 [PI 1] (ECall (LSet [PI 0] (VInt 9)) (ERead 1 [PI 3])));
              SFor 2 [] [SOp 2 [] BAppend (ERead 0 []); SAssign 3 [PI 0] (ERead 0 [PI 2])];
              Simple (SEvery 2 [PSl (Some 1%Z) None; PI 0] (ELit (VInt 8)));
              Simple (SOpMod 3 [] BConcat true 3 (LPop []))] in
  forallb ffrag ops = true /\
  final_value (repeat VNull 5) ops =
    [VNull; VList [VInt 0; VInt 0; VInt 0; row]; VList [row; VList [VInt 8; VInt 0; VInt 0]]; VList [VInt 0; VInt 0; VInt 3; VInt 3];
     VList [VInt 7; VList [VInt 9; VInt 0; VInt 0]; VInt 0; row]] /\
  map (abs_val 6 (mheap (final_cow (init_state 5) ops))) (roots (final_cow (init_state 5) ops))
    = map Some (final_value (repeat VNull 5) ops).
Proof. repeat split; reflexivity. Qed.

(* non-vacuity of the with-default op-assign `(x[i][k] = d) f= e`: existing key (old value used), missing key (default used),
   the alias v2 keeps the old rows; the last statement raises (index 2 does not exist) and changes nothing *)
Example C01_nonvacuous_with_default :
  let d7 := VSeq KDict [(KI 2%Z, VList [VInt 7])] None in
  let ops := [Simple (SAssign 1 [] (ELit (VList [d7; VSeq KDict [] None])));
              Simple (SAssign 2 [] (ERead 1 []));
              Simple (SOpDef 1 [PI 0; PI 2] (VList []) BAppend (ELit (VInt 3)));
              Simple (SOpDef 1 [PI 1; PI 0] (VInt 100) BPlus (ELit (VInt 5)));
              Simple (SOpDef 1 [PI 2; PI 0] (VInt 100) BPlus (ELit (VInt 5)))] in
  forallb ffrag ops = true /\
  map snd (run_value (repeat VNull 3) ops) = [true; true; true; true; false] /\
  final_value (repeat VNull 3) ops =
    [VNull; VList [VSeq KDict [(KI 2%Z, VList [VInt 7; VInt 3])] None; VSeq KDict [(KI 0%Z, VInt 105)] None];
     VList [d7; VSeq KDict [] None]] /\
  map (abs_val 6 (mheap (final_cow (init_state 3) ops))) (roots (final_cow (init_state 3) ops))
    = map Some (final_value (repeat VNull 3) ops).
Proof. repeat split; reflexivity. Qed.

(* non-vacuity of the and-pattern op-assign `(x[p] and y[q] ..) f= e`: two targets; a repeated target (both assignments start
   from the value read first); three targets where the operator raises on the second: the first stays updated, the
   failing one is left null, the third is untouched; the alias v3 keeps the first value of v1 throughout *)
Example C01_nonvacuous_and_pattern :
  let ops := [Simple (SAssign 1 [] (ELit (VList [VInt 1; VInt 2])));
              Simple (SAssign 2 [] (ELit (VList [VList [VInt 4]; VInt 5])));
              Simple (SAssign 3 [] (ERead 1 []));
              Simple (SAndOp [(1, []); (2, [PI 0])] BAppend (ELit (VInt 7)));
              Simple (SAndOp [(1, []); (1, [])] BAppend (ERead 2 [PI 0]));
              Simple (SAndOp [(2, [PI 1]); (1, []); (2, [PI 0])] BPlus (ELit (VInt 1)))] in
  forallb ffrag ops = true /\
  map snd (run_value (repeat VNull 4) ops) = [true; true; true; true; true; false] /\
  final_value (repeat VNull 4) ops =
    [VNull; VNull; VList [VList [VInt 4; VInt 7]; VInt 6]; VList [VInt 1; VInt 2]] /\
  map (abs_val 6 (mheap (final_cow (init_state 4) ops))) (roots (final_cow (init_state 4) ops))
    = map Some (final_value (repeat VNull 4) ops).
Proof. repeat split; reflexivity. Qed.

