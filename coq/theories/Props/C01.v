(* C01 - value semantics: mutation never leaks through an alias.
   Only statements here; every proof is `exact <lemma>` into Rc/Cow_proofs.v / Rc/Heap_proofs.v.

   MACHINE  Rc/Heap.v + Rc/Cow.v : heap of cells with explicit strong counts; clone / drop (recursive
            at 0) / make_mut / in-place write; the statement forms transcribed from eval.rs.
   SPEC     Rc/ValueSem.v        : the same statements over pure immutable trees.
   StInv st     : every strong count = number of handles to that cell from variables + cell bodies
                  (hence no dangling handle, nothing points to a freed cell)
   Sim st sg    : every variable's handle value stands for (repr) the spec's tree; repr is an
                  inductive (well-founded) relation, so the reachable heap is acyclic
   traces_agree : after every statement: same raised/not-raised flag, StInv, Sim.

   FRAGMENT covered by the theorems below (`frag`): see notes/C01.md.  The full statement
   ("forallb frag ops" dropped) is the goal; forms outside `frag` are covered by the
   correspondence run only. *)
From Coq Require Import ZArith List Bool.
From NV Require Import Rc.ValueSem Rc.Heap Rc.Cow Rc.Heap_proofs Rc.Cow_proofs.
Import ListNotations.

(* the abstraction is a (partial) function of the heap and the handle value *)
Theorem C01_abs_functional : forall h v t t', repr h v t -> repr h v t' -> t = t'.
Proof. exact repr_det. Qed.
Print Assumptions C01_abs_functional.

(* one statement: the machine and the value semantics stay related *)
Theorem C01_step_refines : forall s, frag s = true -> forall st sg st' ok,
  StInv st -> Sim st sg -> m_exec st s = (st', ok) ->
  exists sg', exec sg s = (sg', ok) /\ StInv st' /\ Sim st' sg'.
Proof. exact m_exec_ok. Qed.
Print Assumptions C01_step_refines.

(* every history, observed after every statement, from the initial state of n null variables *)
Theorem C01_cow_refines_value : forall n ops, forallb frag ops = true ->
  traces_agree (run_cow (init_state n) ops) (run_value (repeat VNull n) ops).
Proof. intros n ops H. apply run_refines; auto; apply init_ok. Qed.
Print Assumptions C01_cow_refines_value.

(* non-vacuity: the README's aliased matrix runs through both semantics and they agree *)
Example C01_nonvacuous :
  let row := VList [VInt 0; VInt 0; VInt 0] in
  let ops := [Simple (SAssign 1 [] (ELit row));
              Simple (SAssign 2 [] (EList [ERead 1 []; ERead 1 []]));
              Simple (SAssign 2 [PI 1; PI 2] (ELit (VInt 3)))] in
  forallb frag ops = true /\
  final_value [VNull; VNull; VNull] ops = [VNull; row; VList [row; VList [VInt 0; VInt 0; VInt 3]]] /\
  map (abs_val 5 (mheap (final_cow (init_state 3) ops))) (roots (final_cow (init_state 3) ops))
    = map Some (final_value [VNull; VNull; VNull] ops).
Proof. repeat split; reflexivity. Qed.
