(* C02 - mutating an unshared collection is in place; a shared one is copied once per extra holder.
   Only statements here; proofs are `exact` into Rc/Inplace_proofs.v and Rc/Flat_proofs.v.

   The machine (Rc/Heap.v, Rc/Cow.v) counts in `copied` the elements copied by make_mut; locations are never
   reused, so "no new location" (length (cells h') = length (cells h)) means nothing was re-allocated.
     same_cost h h'   := copied h' = copied h /\ length (cells h') = length (cells h)
     upath h cur p    := every cell on the index path p below the handle value cur has strong count 1
     uniq_flat st x l := variable x is a handle to cell l, a list of scalars with strong count 1
     noncopy x s      := s is one of  x[i] = n,  x append= n,  x[i] += n,  pop x,  remove x[i]

   General depth (any nesting, any non-slice path, any payload kind): C02_inplace_when_unique, C02_make_mut_cost,
   C02_consuming_inplace_when_unique, C02_consuming_statement_inplace (pop / remove by index or key / consume through
     modify_existing_index, on a value and as a statement on a variable;
     uleaf h cur p := the path p exists below cur and every cell on it AND the cell it leads to has strong count 1;
     remove by slice is excluded - it allocates the removed slice - and so is a missing key of a dictionary with a default,
     where the inserted copy of the default is shared with the default).
   Flat fragment only (a list of scalars, paths of depth <= 1; suffix _flat): the other three.  The same statements
   for nested rows / dicts / op-assign through a path are NOT proved (the Rc-graph correspondence and the
   allocation measurement cover them); see notes/C02.md. *)
From Coq Require Import ZArith List Bool.
From NV Require Import Rc.ValueSem Rc.Heap Rc.Cow Rc.Heap_proofs Rc.Cow_proofs Rc.Inplace_proofs Rc.Flat_proofs.
Import ListNotations.

(* Rc::make_mut costs nothing at strong count 1 and exactly one payload copy otherwise *)
Theorem C02_make_mut_cost : forall h l h' l' c,
  get_cell h l = Some c -> make_mut h l = (h', l') ->
  (cnt c = 1 -> h' = h /\ l' = l) /\
  (cnt c <> 1 -> copied h' = copied h + length (citems c) /\ l' = length (cells h)).
Proof. exact make_mut_cost. Qed.
Print Assumptions C02_make_mut_cost.

(* set_index (x[p] = v, the null-store of drop_lhs, the assign-back of an op-assign) through a path whose cells all
   have strong count 1: nothing is copied, no location is created, and x still holds the same handle *)
Theorem C02_inplace_when_unique : forall every p, noslice p = true -> forall new tnew h cur t G h' cur' ok,
  Inv h ((handles cur ++ handles_opt new) ++ G) -> repr h cur t -> repr_opt h new tnew ->
  upath h cur p ->
  m_set every p new h cur = (h', cur', ok) ->
  same_cost h h' /\ (p <> [] -> same_root cur cur').
Proof. exact m_set_inplace. Qed.
Print Assumptions C02_inplace_when_unique.

(* pop x[p], remove x[p][i] (index or key), consume x[p] (modify_existing_index + try_pop / try_remove / mem::take) through a
   path whose cells, including the addressed collection itself, all have strong count 1: nothing is copied, no location is
   created, and x still holds the same handle *)
Theorem C02_consuming_inplace_when_unique : forall m, is_inplace_lop m = true -> forall h cur t G h' cur' r,
  Inv h (handles cur ++ G) -> repr h cur t -> uleaf h cur (lop_path m) ->
  m_lop m h cur = (h', cur', r) ->
  same_cost h h' /\ (lop_path m <> [] -> same_root cur cur').
Proof. exact m_lop_inplace. Qed.
Print Assumptions C02_consuming_inplace_when_unique.

(* the same at statement level: `pop x[p]`, `remove x[p][i]`, `consume x[p]` (result discarded) on a variable x whose path p is
   unshared copies nothing, creates no location, and x still holds the same handle *)
Theorem C02_consuming_statement_inplace : forall x m, is_inplace_lop m = true -> forall h rs sg cur st' ok,
  Inv h (handles_list rs) -> repr_list h rs sg -> nth_error rs x = Some cur -> uleaf h cur (lop_path m) ->
  m_exec_s (mkst h rs) (SMod None x m) = (st', ok) ->
  same_cost h (mheap st') /\ (lop_path m <> [] -> exists cur', nth_error (roots st') x = Some cur' /\ same_root cur cur').
Proof. exact exec_mod_inplace. Qed.
Print Assumptions C02_consuming_statement_inplace.

(* the O(n + k) clause: after `x = [n1, .., nm]`, k statements of the non-copying forms copy 0 elements, create no
   location, and x stays unaliased at every statement boundary *)
Theorem C02_unaliased_stays_unique_flat : forall h rs x zs st1 ok ops,
  nth_error rs x = Some HNull ->
  m_exec (mkst h rs) (Simple (SAssign x [] (ELit (VList (map VInt zs))))) = (st1, ok) ->
  Forall (noncopy x) ops ->
  let l := length (cells h) in
  uniq_flat st1 x l /\
  uniq_flat (final_cow st1 ops) x l /\ same_cost (mheap st1) (mheap (final_cow st1 ops)).
Proof.
  intros h rs x zs st1 ok ops Hx E NC l.
  destruct (decl_flat h rs x zs st1 ok Hx E) as [U _]. split; auto. apply noncopy_run; auto.
Qed.
Print Assumptions C02_unaliased_stays_unique_flat.

Theorem C02_noncopy_step_flat : forall x l st s st' ok,
  uniq_flat st x l -> noncopy x s -> m_exec st s = (st', ok) ->
  uniq_flat st' x l /\ same_cost (mheap st) (mheap st').
Proof. exact noncopy_step. Qed.
Print Assumptions C02_noncopy_step_flat.

(* a list shared with k-1 other holders: the first mutation through x copies it exactly once; x then owns a fresh
   unaliased copy (so by the theorem above every later mutation is in place), the other holders' cell keeps its
   items and has one reference less *)
Theorem C02_copy_once_per_holder_flat : forall h rs x l c z v st' ok,
  nth_error rs x = Some (HRef l None) -> get_cell h l = Some c -> 2 <= cnt c -> ckind c = KList ->
  Forall (fun kv => handles (snd kv) = []) (citems c) ->
  m_exec (mkst h rs) (Simple (SAssign x [PI z] (ELit (VInt v)))) = (st', ok) ->
  let l' := length (cells h) in
  uniq_flat st' x l' /\
  copied (mheap st') = copied h + length (citems c) /\
  length (cells (mheap st')) = S (length (cells h)) /\
  (exists c', get_cell (mheap st') l = Some c' /\ cnt c' = cnt c - 1 /\ citems c' = citems c).
Proof. exact copy_once_flat. Qed.
Print Assumptions C02_copy_once_per_holder_flat.

(* why drop_lhs exists: reading x for `x f= e` gives the list a second handle; after drop_lhs the operator's
   argument has strong count 1 and its make_mut is the identity; without drop_lhs that make_mut copies the list *)
Theorem C02_opassign_drop_restores_uniqueness_flat : forall h l c,
  get_cell h l = Some c -> cnt c = 1 ->
  let h_read := clone_val h (HRef l None) in
  let h_dropped := drop_val h_read (HRef l None) in
  cnt_of h_read l = 2 /\ cnt_of h_dropped l = 1 /\
  make_mut h_dropped l = (h_dropped, l) /\
  copied (fst (make_mut h_read l)) = copied h + length (citems c).
Proof. exact opassign_drop_restores_uniqueness_flat. Qed.
Print Assumptions C02_opassign_drop_restores_uniqueness_flat.

(* ... and in the run of `x append= n` itself the result is in place *)
Theorem C02_append_in_place_flat : forall h rs x l c v st' ok,
  nth_error rs x = Some (HRef l None) -> get_cell h l = Some c -> cnt c = 1 -> ckind c = KList ->
  Forall (fun kv => handles (snd kv) = []) (citems c) ->
  m_exec_s (mkst h rs) (SOp x [] BAppend (ELit (VInt v))) = (st', ok) ->
  uniq_flat st' x l /\ same_cost h (mheap st') /\ ok = true.
Proof. intros. eapply exec_append_flat; eauto. Qed.
Print Assumptions C02_append_in_place_flat.

(* non-vacuity: 3 elements, 4 in-place mutations cost 0; after aliasing, one copy of 4 elements, then 0 again;
   the nested README matrix costs one row *)
Example C02_nonvacuous :
  let decl := Simple (SAssign 1 [] (ELit (VList [VInt 0; VInt 0; VInt 0]))) in
  let muts := [Simple (SOp 1 [] BAppend (ELit (VInt 7))); Simple (SAssign 1 [PI 0] (ELit (VInt 5)));
               Simple (SOp 1 [PI 1] BPlus (ELit (VInt 2))); Simple (SMod None 1 (LPop []))] in
  copied (mheap (final_cow (init_state 3) (decl :: muts))) = 0 /\
  copied (mheap (final_cow (init_state 3) (decl :: muts ++ [Simple (SOp 1 [] BAppend (ELit (VInt 7)));
                                                            Simple (SAssign 2 [] (ERead 1 []))] ++ muts))) = 4 /\
  copied (mheap (final_cow (init_state 3) (decl :: muts ++ [Simple (SOp 1 [] BAppend (ELit (VInt 7)));
                                                            Simple (SAssign 2 [] (ERead 1 []))] ++ muts ++ muts))) = 4 /\
  Forall (noncopy 1) muts.
Proof. repeat split; try reflexivity. repeat constructor. Qed.

(* non-vacuity of the general-depth theorem: x = [[1, 2], {5: [3]}]; y = x[1][5].  The path x[0] is unshared: `pop x[0]`
   copies nothing, creates no cell and keeps x's handle.  x[1][5] is shared with y (uleaf fails): `pop x[1][5]` copies
   its one element into a new cell. *)
Example C02_nonvacuous_nested :
  let st := final_cow (init_state 3)
              [Simple (SAssign 1 [] (ELit (VList [VList [VInt 1; VInt 2]; VSeq KDict [(KI 5%Z, VList [VInt 3])] None])));
               Simple (SAssign 2 [] (ERead 1 [PI 1; PI 5]))] in
  exists cur, nth_error (roots st) 1 = Some cur /\
    uleaf (mheap st) cur [PI 0] /\ ~ uleaf (mheap st) cur [PI 1; PI 5] /\
    (let '(h', cur', r) := m_lop (LPop [PI 0]) (mheap st) cur in
     same_cost (mheap st) h' /\ cur' = cur /\ r = Some (HInt 2)) /\
    (let '(h', cur', r) := m_lop (LPop [PI 1; PI 5]) (mheap st) cur in
     copied h' = copied (mheap st) + 1 /\ length (cells h') = S (length (cells (mheap st)))).
Proof.
  eexists. split; [reflexivity|]. split; [vm_compute; repeat split; reflexivity|]. split.
  - intro H. vm_compute in H. destruct H as [_ [_ H]]. discriminate.
  - split; vm_compute; repeat split; reflexivity.
Qed.
