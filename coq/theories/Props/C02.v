(* C02 - unshared mutation is in place.  Statements only.
   (stage 1: the machine and its correspondence; the theorems are added by the later stages) *)
From Coq Require Import ZArith List Bool.
From NV Require Import Rc.ValueSem Rc.Heap Rc.Cow.
Import ListNotations.

(* non-vacuity of the machine: the README's aliased matrix costs exactly one row copy (3 elements)
   plus one outer copy avoided (the outer list is unique) *)
Theorem C02_machine_readme_matrix :
  let row := VList [VInt 0; VInt 0; VInt 0] in
  copied (mheap (final_cow (init_state 3)
    [Simple (SAssign 1 [] (ELit row));
     Simple (SAssign 2 [] (EList [ERead 1 []; ERead 1 []]));
     Simple (SAssign 2 [PI 1; PI 2] (ELit (VInt 3)))])) = 3.
Proof. reflexivity. Qed.
Print Assumptions C02_machine_readme_matrix.
