(* C08 - Numeric equality and ordering are exact and coherent across int / rational / float / complex;
   sequences compare lexicographically; incomparable kinds raise.
   Only statements here; every proof is `exact <lemma>` into Num/*_proofs.v.

   Model: Num/FloatBits.v (f64 = its 64-bit pattern, exact decoder), Num/Cmp.v (transcription of the
   comparison code of nint.rs / nnum.rs / core.rs / lib.rs).  Spec: Num/CmpSpec.v.
   `real_val` is the exact value in Q u {-inf,+inf} (None for NaN); right-hand sides contain no rounding.
   Every theorem quantifies over all integers, all rationals, all 64-bit patterns, all list lengths. *)
From Coq Require Import ZArith NArith QArith List Bool Sorting.Permutation Sorting.Sorted.
From NV Require Import Common.Outcome Common.MachineInt Num.FloatBits Num.Cmp Num.CmpSpec
  Num.Cmp_proofs Num.Cmp_laws_proofs Num.Cmp_seq_proofs Num.Sort_proofs Num.Cmp_total_proofs.
Import ListNotations.
Open Scope Z_scope.

(* ---- 1. exactness on reals of any two levels *)
Theorem C08_cmp_is_exact : forall a b : nreal,
  nreal_partial_cmp a b = exact_cmp (real_val a) (real_val b).
Proof. exact cmp_is_exact. Qed.
Print Assumptions C08_cmp_is_exact.

Theorem C08_cmp_none_iff_nan : forall a b : nreal,
  nreal_partial_cmp a b = None <-> real_is_nan a = true \/ real_is_nan b = true.
Proof. exact cmp_none_iff_nan. Qed.
Print Assumptions C08_cmp_none_iff_nan.

Theorem C08_eq_is_exact : forall a b : nreal, wf_real a -> wf_real b ->
  nreal_eq a b = is_Eq (exact_cmp (real_val a) (real_val b)).
Proof. exact eq_is_exact. Qed.
Print Assumptions C08_eq_is_exact.

(* ---- 2. all four levels: numbers are (re, im) pairs of exact values, compared lexicographically *)
Theorem C08_complex_as_pairs : forall a b : nnum,
  nnum_partial_cmp a b = pair_cmp (num_val a) (num_val b).
Proof. exact complex_as_pairs. Qed.
Print Assumptions C08_complex_as_pairs.

Theorem C08_num_eq_is_exact : forall a b : nnum, wf_num a -> wf_num b ->
  nnum_eq a b = is_Eq (pair_cmp (num_val a) (num_val b)).
Proof. exact num_eq_is_exact. Qed.
Print Assumptions C08_num_eq_is_exact.

(* ---- 3. the language's operators on numbers without a NaN component: each is the corresponding
        test on ONE total order (num_compare: exact values, lexicographic on (re, im)) *)
Theorem C08_ops_are_exact : forall a b : nnum, num_ok a -> num_ok b ->
  let c := num_compare a b in
  accept OpEq (ONum a) (ONum b) = Ok (is_eq c) /\
  accept OpNe (ONum a) (ONum b) = Ok (negb (is_eq c)) /\
  accept OpLt (ONum a) (ONum b) = Ok (is_lt c) /\
  accept OpGt (ONum a) (ONum b) = Ok (is_gt c) /\
  accept OpLe (ONum a) (ONum b) = Ok (negb (is_gt c)) /\
  accept OpGe (ONum a) (ONum b) = Ok (negb (is_lt c)) /\
  spaceship (ONum a) (ONum b) = Ok (int_of_cmp c) /\
  rev_spaceship (ONum a) (ONum b) = Ok (- int_of_cmp c).
Proof. exact ops_are_exact. Qed.
Print Assumptions C08_ops_are_exact.

Theorem C08_num_compare_total : total_cmp num_compare.
Proof. exact total_num_compare. Qed.
Print Assumptions C08_num_compare_total.

Theorem C08_trichotomy : forall a b : nnum, num_ok a -> num_ok b ->
  let A := ONum a in let B := ONum b in
  (accept OpLt A B = Ok true /\ accept OpEq A B = Ok false /\ accept OpGt A B = Ok false) \/
  (accept OpLt A B = Ok false /\ accept OpEq A B = Ok true /\ accept OpGt A B = Ok false) \/
  (accept OpLt A B = Ok false /\ accept OpEq A B = Ok false /\ accept OpGt A B = Ok true).
Proof. exact trichotomy. Qed.
Print Assumptions C08_trichotomy.

Theorem C08_eq_equivalence :
  (forall a, num_ok a -> accept OpEq (ONum a) (ONum a) = Ok true) /\
  (forall a b, num_ok a -> num_ok b ->
     accept OpEq (ONum a) (ONum b) = Ok true -> accept OpEq (ONum b) (ONum a) = Ok true) /\
  (forall a b c, num_ok a -> num_ok b -> num_ok c ->
     accept OpEq (ONum a) (ONum b) = Ok true -> accept OpEq (ONum b) (ONum c) = Ok true ->
     accept OpEq (ONum a) (ONum c) = Ok true).
Proof. exact eq_equivalence. Qed.
Print Assumptions C08_eq_equivalence.

Theorem C08_lt_transitive : forall a b c : nnum, num_ok a -> num_ok b -> num_ok c ->
  accept OpLt (ONum a) (ONum b) = Ok true -> accept OpLt (ONum b) (ONum c) = Ok true ->
  accept OpLt (ONum a) (ONum c) = Ok true.
Proof. exact lt_transitive. Qed.
Print Assumptions C08_lt_transitive.

Theorem C08_lt_respects_eq : forall a b c : nnum, num_ok a -> num_ok b -> num_ok c ->
  accept OpEq (ONum a) (ONum b) = Ok true ->
  accept OpLt (ONum a) (ONum c) = accept OpLt (ONum b) (ONum c) /\
  accept OpLt (ONum c) (ONum a) = accept OpLt (ONum c) (ONum b).
Proof. exact lt_respects_eq. Qed.
Print Assumptions C08_lt_respects_eq.

Theorem C08_spaceship_antisym : forall a b : nnum, num_ok a -> num_ok b ->
  exists z, spaceship (ONum a) (ONum b) = Ok z /\ spaceship (ONum b) (ONum a) = Ok (- z) /\
            rev_spaceship (ONum a) (ONum b) = Ok (- z) /\ (z = -1 \/ z = 0 \/ z = 1).
Proof. exact spaceship_antisym. Qed.
Print Assumptions C08_spaceship_antisym.

(* a NaN where the comparison looks: every ordering operator raises (== is false by C08_num_eq_is_exact) *)
Theorem C08_nan_raises : forall a b : nnum, nnum_partial_cmp a b = None ->
  ncmp (ONum a) (ONum b) = Err EType /\
  (forall op, op <> OpEq -> op <> OpNe -> accept op (ONum a) (ONum b) = Err EType) /\
  spaceship (ONum a) (ONum b) = Err EType.
Proof. exact nan_raises. Qed.
Print Assumptions C08_nan_raises.

(* ---- 4. incomparable kinds raise; == / != never raise *)
Theorem C08_incomparable_raises : forall a b : obj,
  ordered_pair a b = false ->
  ncmp a b = Err EType /\
  accept OpLt a b = Err EType /\ accept OpGt a b = Err EType /\
  accept OpLe a b = Err EType /\ accept OpGe a b = Err EType /\
  spaceship a b = Err EType /\ rev_spaceship a b = Err EType /\
  builtin_min [a; b] = Err EType /\ builtin_max [a; b] = Err EType /\
  (exists e, accept OpEq a b = Ok e /\ accept OpNe a b = Ok (negb e)).
Proof. exact incomparable_raises. Qed.
Print Assumptions C08_incomparable_raises.

Theorem C08_ncmp_ok_only_ordered : forall (a b : obj) (o : comparison),
  ncmp a b = Ok o -> ordered_pair a b = true.
Proof. exact ncmp_ok_only_ordered. Qed.
Print Assumptions C08_ncmp_ok_only_ordered.

(* ---- 5. sequences: the lexicographic extension of the element comparison *)
Theorem C08_lex_order :
  (forall l r, obj_partial_cmp (OList l) (OList r) = lex_spec obj_partial_cmp l r) /\
  (forall l r, obj_partial_cmp (OVector l) (OVector r) = lex_spec nnum_partial_cmp l r) /\
  (forall l r, obj_partial_cmp (OString l) (OString r) = lex_spec n_partial_cmp l r) /\
  (forall l r, obj_partial_cmp (OBytes l) (OBytes r) = lex_spec n_partial_cmp l r).
Proof. exact lex_order. Qed.
Print Assumptions C08_lex_order.

Theorem C08_ncmp_seq : forall a b : obj, is_seq a = true -> is_seq b = true ->
  ncmp a b = match obj_partial_cmp a b with Some o => Ok o | None => Err EType end.
Proof. exact ncmp_seq. Qed.
Print Assumptions C08_ncmp_seq.

(* == is true exactly when <=> answers 0, for nested values built from non-NaN numbers *)
Theorem C08_eq_coherent_with_cmp : forall a : obj, clean a -> forall b : obj, clean b ->
  obj_eq a b = is_Eq (obj_partial_cmp a b).
Proof. exact eq_coherent_with_cmp. Qed.
Print Assumptions C08_eq_coherent_with_cmp.

(* ---- 6. the order laws for ALL values: the language's partial order is the restriction of one
        total comparison, so wherever the comparisons are defined they are coherent *)
Theorem C08_total_extension :
  total_cmp obj_total /\
  (forall a b o, obj_partial_cmp a b = Some o -> obj_total a b = o) /\
  (forall a b o, ncmp a b = Ok o -> obj_partial_cmp a b = Some o).
Proof. exact (conj total_obj_total (conj partial_cmp_is_total ncmp_is_partial_cmp)). Qed.
Print Assumptions C08_total_extension.

Theorem C08_lt_transitive_all_values : forall a b c : obj,
  accept OpLt a b = Ok true -> accept OpLt b c = Ok true ->
  forall o, ncmp a c = Ok o -> o = Lt.
Proof. exact lt_transitive_obj. Qed.
Print Assumptions C08_lt_transitive_all_values.

Theorem C08_spaceship_antisym_all_values : forall (a b : obj) (x y : Z),
  spaceship a b = Ok x -> spaceship b a = Ok y -> y = - x.
Proof. exact spaceship_antisym_obj. Qed.
Print Assumptions C08_spaceship_antisym_all_values.

Theorem C08_chain_is_conjunction : forall (x : obj) (links : list (cmpop * obj)),
  chain_run x links = Ok true <->
  Forall (fun t => accept (fst (fst t)) (snd (fst t)) (snd t) = Ok true) (link_list x links).
Proof. exact chain_is_conjunction. Qed.
Print Assumptions C08_chain_is_conjunction.

(* ---- 7. sort *)
(* on a pairwise comparable list: an ascending, stable rearrangement (language's own comparison only) *)
Theorem C08_sort_sorted_stable_perm : forall l : list obj, pairwise_comparable l ->
  exists s, sorted_objs l = Ok s /\ Permutation l s /\ StronglySorted le_obj s /\
            forall k, In k l -> filter (eqv_obj k) s = filter (eqv_obj k) l.
Proof. exact sort_sorted_stable_perm. Qed.
Print Assumptions C08_sort_sorted_stable_perm.

(* any two stable sorts by a total comparison agree (any element type, any key function) ... *)
Theorem C08_stable_sort_unique : forall (A K : Type) (key : A -> K) (c : K -> K -> comparison),
  total_cmp c -> forall l s1 s2 : list A,
  stable_sort_of c key l s1 -> stable_sort_of c key l s2 -> s1 = s2.
Proof. intros A K key c T. exact (stable_sort_unique key c T). Qed.
Print Assumptions C08_stable_sort_unique.

(* ... so whatever stable algorithm Vec::sort_by is, its result is the model's insertion sort *)
Theorem C08_any_stable_sort_is_model : forall l s : list obj, pairwise_comparable l ->
  stable_sort_of obj_total (fun x => x) l s -> sorted_objs l = Ok s.
Proof. exact stable_sort_unique_obj. Qed.
Print Assumptions C08_any_stable_sort_is_model.

Theorem C08_sort_on_stable : forall (A : Type) (key : A -> obj) (l : list A),
  pairwise_ncmp (map key l) ->
  exists s, sorted_on key l = Ok s /\ stable_sort_of obj_total key l s.
Proof. exact @sort_on_stable. Qed.
Print Assumptions C08_sort_on_stable.

Theorem C08_sort_nums_stable : forall l : list nnum, Forall (fun n => nnum_is_nan n = false) l ->
  exists s, sorted_nums l = Ok s /\ stable_sort_of num_compare (fun x => x) l s.
Proof. exact sort_nums_stable. Qed.
Print Assumptions C08_sort_nums_stable.

Theorem C08_sort_incomparable_raises : forall x y : obj,
  obj_partial_cmp x y = None -> sorted_objs [x; y] = Err EValue.
Proof. exact sort_none_if_all_incomparable. Qed.
Print Assumptions C08_sort_incomparable_raises.

Theorem C08_sort_isolated_raises : forall (pre : list obj) (x : obj) (post : list obj),
  pre ++ post <> [] ->
  (forall y, In y (pre ++ post) -> obj_partial_cmp x y = None /\ obj_partial_cmp y x = None) ->
  sorted_objs (pre ++ x :: post) = Err EValue.
Proof. exact sort_isolated_raises. Qed.
Print Assumptions C08_sort_isolated_raises.

(* ---- 8. min / max *)
Theorem C08_min_max_agree_with_order : forall l : list obj, l <> [] -> pairwise_ncmp l ->
  (exists pre m post, l = pre ++ m :: post /\ builtin_min l = Ok m /\
     (forall y, In y pre -> ncmp m y = Ok Lt) /\ (forall y, In y post -> ncmp y m <> Ok Lt)) /\
  (exists pre m post, l = pre ++ m :: post /\ builtin_max l = Ok m /\
     (forall y, In y pre -> ncmp m y = Ok Gt) /\ (forall y, In y post -> ncmp y m <> Ok Gt)).
Proof. exact min_max_agree_with_order. Qed.
Print Assumptions C08_min_max_agree_with_order.

Theorem C08_min_max_vs_sort : forall (l s : list obj) (m M : obj), pairwise_ncmp l ->
  sorted_objs l = Ok s -> builtin_min l = Ok m -> builtin_max l = Ok M ->
  hd_error s = Some m /\ forall d, ncmp (last s d) M = Ok Eq.
Proof. exact min_max_vs_sort. Qed.
Print Assumptions C08_min_max_vs_sort.

(* ---- 9. the total orders of nnum.rs (total_cmp_small_nan / total_cmp_big_nan) and NNum::min / max *)
Theorem C08_total_cmps_exact : forall a b : nnum,
  nnum_total_cmp_small_nan a b = lexc small_nan_cmp small_nan_cmp (num_val a) (num_val b) /\
  nnum_total_cmp_big_nan a b = lexc big_nan_cmp big_nan_cmp (num_val a) (num_val b).
Proof. exact nnum_total_cmp_exact. Qed.
Print Assumptions C08_total_cmps_exact.

Theorem C08_total_cmps_total_and_extend :
  total_cmp nnum_total_cmp_small_nan /\ total_cmp nnum_total_cmp_big_nan /\
  forall a b o, nnum_partial_cmp a b = Some o ->
    nnum_total_cmp_small_nan a b = o /\ nnum_total_cmp_big_nan a b = o.
Proof. exact (conj (proj1 nnum_total_cmps_total) (conj (proj2 nnum_total_cmps_total) total_cmps_extend_partial)). Qed.
Print Assumptions C08_total_cmps_total_and_extend.

Theorem C08_nnum_min_max_rules : forall a b : nnum,
  (forall o, nnum_partial_cmp a b = Some o ->
     nnum_min a b = (match o with Gt => b | _ => a end) /\ nnum_max a b = (match o with Gt => a | _ => b end)) /\
  (forall f, a = NFloat f -> f_is_nan f = true -> nnum_is_nan b = false ->
     match b with NComplex _ _ => True | _ =>
       nnum_min a b = b /\ nnum_max a b = b /\ nnum_min b a = b /\ nnum_max b a = b end).
Proof. exact nnum_min_max_rules. Qed.
Print Assumptions C08_nnum_min_max_rules.

(* ---- non-vacuity: the hypotheses are met by ordinary data and the functions compute.
   2^53+1 against the double 2^53; 0.1 against 1/10; 1/2 against +inf; a NaN; kinds; a sort with a tie
   between 1.0 and 1 (stability visible); min/max of [1.0; 0; 1]. *)
Example C08_nonvacuous :
  nreal_partial_cmp (RInt (Small (2 ^ 53 + 1))) (RFloat 0x4340000000000000%N) = Some Gt /\
  nreal_eq (RInt (Small (2 ^ 53))) (RFloat 0x4340000000000000%N) = true /\
  nreal_partial_cmp (RFloat 0x3fb999999999999a%N) (RRat (1 # 10)) = Some Gt /\
  nreal_partial_cmp (RRat (1 # 2)) (RFloat 0x7ff0000000000000%N) = Some Lt /\
  nreal_partial_cmp (RInt (Big 0)) (RFloat 0x7ff8000000000000%N) = None /\
  num_ok (NInt (Small 5)) /\ num_ok (NFloat 0x3fb999999999999a%N) /\ num_ok (NComplex 0x3ff0000000000000%N 0%N) /\
  accept OpLt (ONum (NInt (Small 1))) (OString [97%N]) = Err EType /\
  accept OpLt (OList [ONum (NInt (Small 1)); OString [97%N]]) (OList [ONum (NFloat 0x3ff0000000000000%N); OString [98%N]]) = Ok true /\
  pairwise_comparable [ONum (NFloat 0x3ff0000000000000%N); ONum (NInt (Small 0)); ONum (NInt (Small 1))] /\
  sorted_objs [ONum (NFloat 0x3ff0000000000000%N); ONum (NInt (Small 0)); ONum (NInt (Small 1))]
    = Ok [ONum (NInt (Small 0)); ONum (NFloat 0x3ff0000000000000%N); ONum (NInt (Small 1))] /\
  builtin_max [ONum (NFloat 0x3ff0000000000000%N); ONum (NInt (Small 0)); ONum (NInt (Small 1))] = Ok (ONum (NFloat 0x3ff0000000000000%N)) /\
  clean (OList [ONum (NInt (Small 1)); OVector [NRational (1 # 2)]]).
Proof.
  repeat match goal with |- _ /\ _ => split end;
    try (match goal with |- @eq _ _ _ => vm_compute; reflexivity end).
  - split; [split; discriminate|reflexivity].
  - split; [exact I|vm_compute; reflexivity].
  - split; [exact I|vm_compute; reflexivity].
  - intros x y [<-|[<-|[<-|[]]]] [<-|[<-|[<-|[]]]]; vm_compute; discriminate.
  - constructor. constructor; [constructor; split; [split; discriminate|reflexivity]|].
    constructor; [|constructor]. constructor. constructor; [|constructor]. split; [exact I|reflexivity].
Qed.
