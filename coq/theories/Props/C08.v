(* C08 - Numeric equality and ordering are exact and coherent across int / rational / float / complex.
   Only statements here; every proof is `exact <lemma>` into Num/*_proofs.v.
   f64 is its 64-bit pattern; `real_val` is the exact value in Q u {-inf,+inf} (None for NaN) obtained
   by the Gallina decoder `decode`; the right-hand sides contain no rounding. *)
From Coq Require Import ZArith NArith QArith List Bool.
From NV Require Import Common.Outcome Common.MachineInt Num.FloatBits Num.Cmp Num.CmpSpec Num.Cmp_proofs.
Import ListNotations.
Open Scope Z_scope.

(* partial_cmp on reals of any two levels = comparison of the exact values *)
Theorem C08_cmp_is_exact : forall a b : nreal,
  nreal_partial_cmp a b = exact_cmp (real_val a) (real_val b).
Proof. exact cmp_is_exact. Qed.
Print Assumptions C08_cmp_is_exact.

(* ... and it is None exactly when a NaN is involved *)
Theorem C08_cmp_none_iff_nan : forall a b : nreal,
  nreal_partial_cmp a b = None <-> real_is_nan a = true \/ real_is_nan b = true.
Proof. exact cmp_none_iff_nan. Qed.
Print Assumptions C08_cmp_none_iff_nan.

(* == on reals of any two levels = equality of the exact values (false if a NaN is involved) *)
Theorem C08_eq_is_exact : forall a b : nreal, wf_real a -> wf_real b ->
  nreal_eq a b = is_Eq (exact_cmp (real_val a) (real_val b)).
Proof. exact eq_is_exact. Qed.
Print Assumptions C08_eq_is_exact.

(* non-vacuity: 2^53+1 against the double 2^53, 0.1 against 1/10, 1/2 against +inf *)
Example C08_nonvacuous :
  nreal_partial_cmp (RInt (Small (2 ^ 53 + 1))) (RFloat 0x4340000000000000%N) = Some Gt /\
  nreal_eq (RInt (Small (2 ^ 53))) (RFloat 0x4340000000000000%N) = true /\
  nreal_partial_cmp (RFloat 0x3fb999999999999a%N) (RRat (1 # 10)) = Some Gt /\
  nreal_partial_cmp (RRat (1 # 2)) (RFloat 0x7ff0000000000000%N) = Some Lt /\
  nreal_partial_cmp (RInt (Big 0)) (RFloat 0x7ff8000000000000%N) = None.
Proof. repeat split; vm_compute; reflexivity. Qed.
