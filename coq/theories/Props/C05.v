(* C05 - control flow, scoping and closures follow the documented semantics.
   Only statements here; every proof is `exact <lemma>` into Lang/Eval_proofs.v.
   `eval fuel st cur e` is the reference interpreter (Lang/Eval.v): st = all frames + printed
   output, cur = the current frame; results are (state, Val v | Sig s | OutOfFuel). *)
From Coq Require Import ZArith String List Bool.
From NV Require Import Lang.Syntax Lang.Eval Lang.Eval_proofs Lang.Eval_rules Lang.Eval_rules2 Lang.Eval_params Lang.Eval_wf.
Import ListNotations.
Open Scope string_scope.
Open Scope list_scope.

(* more fuel never changes a finished result: the interpreter defines a partial function *)
Theorem C05_fuel_monotone : forall n m st cur e,
  n <= m -> snd (eval n st cur e) <> OutOfFuel -> eval m st cur e = eval n st cur e.
Proof. exact fuel_monotone. Qed.
Print Assumptions C05_fuel_monotone.

(* evaluating ANY expression, with any fuel, whatever the outcome: every frame that existed
   keeps its parent, every frame other than the current one keeps its domain, and the current
   frame's domain only grows *)
Theorem C05_scope_discipline : forall n st cur e st' r,
  eval n st cur e = (st', r) ->
  forall f fr, nth_error (frames st) f = Some fr ->
    exists fr', nth_error (frames st') f = Some fr' /\ parent fr' = parent fr /\
      (if Nat.eqb f cur then exists news, names fr' = news ++ names fr else names fr' = names fr).
Proof. exact scope_discipline. Qed.
Print Assumptions C05_scope_discipline.

(* a call, a whole while loop, every pass of a for clause, a catch clause: all existing frames
   keep their domain (so names declared inside are unbound afterwards) ... *)
Theorem C05_scopes_are_dropped : forall n,
  (forall st fv args st' r, apply_val (eval n) st fv args = (st', r) -> preserves_all st st') /\
  (forall st cur c b st' r, eval n st cur (EWhile c b) = (st', r) -> preserves_all st st') /\
  (forall rest body bss cur st acc st' acc' r,
     for_each (eval_for (eval n) rest (for_body (eval n) body)) cur bss st acc = (st', acc', r) ->
     preserves_all st st') /\
  (forall st cur b x h st1 v st' r,
     eval n st cur b = (st1, Sig (SThrow v)) -> eval (S n) st cur (ETry b x h) = (st', r) ->
     preserves_all st1 st').
Proof.
  intros n. repeat split.
  - exact (call_scope n).
  - exact (while_scope n).
  - exact (for_pass_scope n).
  - exact (catch_scope n).
Qed.
Print Assumptions C05_scopes_are_dropped.

(* the arms of a switch likewise: each is tried, and the chosen body runs, in a scope of its own *)
Theorem C05_switch_arm_scope : forall n arms st cur v st' r,
  switch_arms (eval n) st cur v arms = (st', r) -> preserves_all st st'.
Proof. exact switch_scope. Qed.
Print Assumptions C05_switch_arm_scope.

(* ... and then every name resolves, from every existing frame, exactly as before *)
Theorem C05_resolution_unchanged : forall st st' f x,
  preserves_all st st' -> f < List.length (frames st) ->
  resolve (frames st') f x = resolve (frames st) f x.
Proof. exact resolve_preserved. Qed.
Print Assumptions C05_resolution_unchanged.

(* `=` resolves to the NEAREST enclosing frame that declares the name *)
Theorem C05_resolve_nearest : forall fs f x g, resolve fs f x = Some g <-> nearest fs x f g.
Proof. exact resolve_nearest. Qed.
Print Assumptions C05_resolve_nearest.

(* x := e: fails iff x is already declared in the CURRENT frame; otherwise only the current
   frame changes, by gaining x = v *)
Theorem C05_declare_rule : forall n st cur x e st1 v fr,
  eval n st cur e = (st1, Val v) ->
  nth_error (frames st1) cur = Some fr ->
  (In x (names fr) -> eval (S n) st cur (EDecl x e) = (st1, Sig (SThrow VErr))) /\
  (~ In x (names fr) ->
     exists st2, eval (S n) st cur (EDecl x e) = (st2, Val VNull) /\
       out st2 = out st1 /\
       nth_error (frames st2) cur = Some (mkFrame (parent fr) ((x, v) :: vars fr)) /\
       (forall f, f <> cur -> nth_error (frames st2) f = nth_error (frames st1) f) /\
       lookup (frames st2) cur x = Some v).
Proof. exact declare_rule. Qed.
Print Assumptions C05_declare_rule.

(* x = e: fails iff no enclosing frame declares x; otherwise rewrites x in the nearest one and
   changes no other frame, no other variable *)
Theorem C05_assign_rule : forall n st cur x e st1 v,
  eval n st cur e = (st1, Val v) ->
  (resolve (frames st1) cur x = None -> eval (S n) st cur (EAssign x e) = (st1, Sig (SThrow VErr))) /\
  (forall g, resolve (frames st1) cur x = Some g ->
     exists fr st2, nth_error (frames st1) g = Some fr /\ nearest (frames st1) x cur g /\
       eval (S n) st cur (EAssign x e) = (st2, Val VNull) /\ out st2 = out st1 /\
       nth_error (frames st2) g = Some (mkFrame (parent fr) (assoc_set x v (vars fr))) /\
       (forall f, f <> g -> nth_error (frames st2) f = nth_error (frames st1) f) /\
       lookup (frames st2) cur x = Some v /\
       (forall f y, y <> x -> lookup (frames st2) f y = lookup (frames st1) f y)).
Proof. exact assign_rule. Qed.
Print Assumptions C05_assign_rule.

(* the outcome of a call depends on store, callee and arguments, not on the calling frame *)
Theorem C05_lexical_scoping : forall n st cur1 cur2 fe args st1 fv st2 vs,
  eval n st cur1 fe = (st1, Val fv) -> eval n st cur2 fe = (st1, Val fv) ->
  eval_items (eval n) st1 cur1 args = (st2, Val vs) -> eval_items (eval n) st1 cur2 args = (st2, Val vs) ->
  eval (S n) st cur1 (ECall fe args) = apply_val (eval n) st2 fv vs /\
  eval (S n) st cur2 (ECall fe args) = apply_val (eval n) st2 fv vs.
Proof. exact lexical_scoping. Qed.
Print Assumptions C05_lexical_scoping.

(* a free variable of a closure is read in the scope the closure was DEFINED in *)
Theorem C05_closure_reads_defining_scope : forall n st env y v,
  env < List.length (frames st) -> lookup (frames st) env y = Some v ->
  apply_val (eval (S n)) st (VClos [] (EVar y) env) [] = (fst (push_frame st env), Val v).
Proof. exact closure_reads_defining_scope. Qed.
Print Assumptions C05_closure_reads_defining_scope.

(* closures capture variables, not values: a later write is what the next call reads *)
Theorem C05_capture_by_variable : forall n st cur x v st' env,
  assign st cur x v = Some st' ->
  resolve (frames st) env x = resolve (frames st) cur x ->
  apply_val (eval (S n)) st' (VClos [] (EVar x) env) [] = (fst (push_frame st' env), Val v).
Proof. exact capture_by_variable. Qed.
Print Assumptions C05_capture_by_variable.

(* a fresh variable per iteration: `for (x <- le) yield \ -> x` builds one closure per element,
   each over its own frame; calling the i-th gives the i-th element *)
Theorem C05_per_iteration_closures : forall n st cur x le xs,
  eval (S n) st cur le = (st, Val (VList xs)) ->
  let st' := mkState (frames st ++ iter_frames cur x xs) (out st) in
  let base := List.length (frames st) in
  eval (S (S n)) st cur (EFor [CIter x le] (FYield (ELam [] (EVar x)))) = (st', Val (VList (clos_from x base xs))) /\
  (forall i el, nth_error xs i = Some el ->
     nth_error (clos_from x base xs) i = Some (VClos [] (EVar x) (base + i)) /\
     forall m, apply_val (eval (S m)) st' (VClos [] (EVar x) (base + i)) [] = (fst (push_frame st' (base + i)), Val el)).
Proof. exact per_iteration_closures. Qed.
Print Assumptions C05_per_iteration_closures.

(* loops absorb exactly one level of break / continue; return and throw pass *)
Theorem C05_while_absorbs_one_level : forall n st cur c b st2 vc st3 r,
  eval n (fst (push_frame st cur)) (List.length (frames st)) c = (st2, Val vc) -> truthy vc = true ->
  eval n st2 (List.length (frames st)) b = (st3, r) ->
  eval (S n) st cur (EWhile c b) =
    match r with
    | Val _ => eval n st3 cur (EWhile c b)
    | Sig (SContinue O) => eval n st3 cur (EWhile c b)
    | Sig (SBreak O v) => (st3, Val (match v with Some w => w | None => VNull end))
    | Sig (SBreak (S k) v) => (st3, Sig (SBreak k v))
    | Sig (SContinue (S k)) => (st3, Sig (SContinue k))
    | _ => (st3, r)
    end.
Proof. exact while_absorbs_one_level. Qed.
Print Assumptions C05_while_absorbs_one_level.

Theorem C05_while_condition : forall n st cur c b st2 rc,
  eval n (fst (push_frame st cur)) (List.length (frames st)) c = (st2, rc) ->
  (forall vc, rc = Val vc -> truthy vc = false -> eval (S n) st cur (EWhile c b) = (st2, Val VNull)) /\
  (forall s, rc = Sig s -> eval (S n) st cur (EWhile c b) = (st2, Sig s)).
Proof. exact while_condition. Qed.
Print Assumptions C05_while_condition.

Theorem C05_for_absorbs_one_level : forall n st cur cls body,
  match body with
  | FYieldInto _ (RFun _) | FYieldInto _ RLen => True     (* these post-process the outcome *)
  | _ => eval (S n) st cur (EFor cls body) = for_result body (eval_for (eval n) cls (for_body (eval n) body) st cur [])
  end /\
  (forall st' acc k v, for_result body (st', acc, Sig (SBreak (S k) v)) = (st', Sig (SBreak k v))) /\
  (forall st' acc k, for_result body (st', acc, Sig (SContinue (S k))) = (st', Sig (SContinue k))) /\
  (forall st' acc v, for_result body (st', acc, Sig (SBreak O (Some v))) = (st', Val v)) /\
  (forall st' acc, for_result body (st', acc, Sig (SBreak O None)) = finish_res st' body acc) /\
  (forall st' acc v, for_result body (st', acc, Sig (SReturn v)) = (st', Sig (SReturn v))) /\
  (forall st' acc v, for_result body (st', acc, Sig (SThrow v)) = (st', Sig (SThrow v))) /\
  (forall cb st' fr acc st'' acc',
     cb st' fr acc = (st'', acc', Sig (SContinue O)) ->
     eval_for (eval n) [] cb st' fr acc = (st'', acc', Val tt)).
Proof. exact for_absorbs_one_level. Qed.
Print Assumptions C05_for_absorbs_one_level.

(* a call absorbs only Return: break / continue / throw raised in the body leave the call *)
Theorem C05_call_absorbs_only_return : forall n st ps body env args st2 st3 r,
  bind_params (eval n) (fst (push_frame st env)) (List.length (frames st)) ps args = (st2, Val tt) ->
  eval n st2 (List.length (frames st)) body = (st3, r) ->
  apply_val (eval n) st (VClos ps body env) args =
    (st3, match r with Sig (SReturn v) => Val v | _ => r end).
Proof. exact call_absorbs_only_return. Qed.
Print Assumptions C05_call_absorbs_only_return.

(* try intercepts only Throw; the handler runs in a fresh frame holding the thrown value *)
Theorem C05_try_catches_only_throw : forall n st cur b x h st1 r,
  eval n st cur b = (st1, r) ->
  ((forall v, r <> Sig (SThrow v)) -> eval (S n) st cur (ETry b x h) = (st1, r)) /\
  (forall v, r = Sig (SThrow v) ->
     eval (S n) st cur (ETry b x h) =
     eval n (mkState (frames st1 ++ [mkFrame (Some cur) [(x, v)]]) (out st1)) (List.length (frames st1)) h).
Proof. exact try_catches_only_throw. Qed.
Print Assumptions C05_try_catches_only_throw.

(* try with a selective catch pattern (literal, `_: type`, `a, b`): non-throws pass untouched *)
Theorem C05_tryp_catches_only_throw : forall n st cur b p h st1 r,
  eval n st cur b = (st1, r) -> (forall v, r <> Sig (SThrow v)) ->
  eval (S n) st cur (ETryP b p h) = (st1, r).
Proof. exact tryp_catches_only_throw. Qed.
Print Assumptions C05_tryp_catches_only_throw.

(* if the pattern refuses the thrown value, the result is the throw of the SAME value, with the
   store and the output exactly as the body left them: the handler did nothing, and an outer
   catch receives the original value *)
Theorem C05_catch_mismatch_rethrows_original : forall n st cur b p h st1 v,
  eval n st cur b = (st1, Sig (SThrow v)) -> match_cpat p v = TThrow ->
  eval (S n) st cur (ETryP b p h) = (st1, Sig (SThrow v)).
Proof. exact catch_mismatch_rethrows_original. Qed.
Print Assumptions C05_catch_mismatch_rethrows_original.

Theorem C05_catch_match_runs_handler : forall n st cur b p h st1 v bs,
  eval n st cur b = (st1, Sig (SThrow v)) -> match_cpat p v = TOk bs ->
  eval (S n) st cur (ETryP b p h) =
  bindR (declare_all (fst (push_frame st1 cur)) (List.length (frames st1)) bs)
        (fun st3 _ => eval n st3 (List.length (frames st1)) h).
Proof. exact catch_match_runs_handler. Qed.
Print Assumptions C05_catch_match_runs_handler.

(* which values each kind of pattern refuses / accepts *)
Theorem C05_cpat_refusal : forall v,
  (forall x, match_cpat (CName x) v = TOk [(x, v)]) /\
  (forall z, v <> VInt z -> match_cpat (CInt z) v = TThrow) /\
  (forall z, match_cpat (CInt z) (VInt z) = TOk []) /\
  (forall s, v <> VStr s -> v <> VErr -> match_cpat (CStr s) v = TThrow) /\
  ((forall z, v <> VInt z) -> match_cpat (CWild (Some TInt)) v = TThrow) /\
  ((forall l, v <> VList l) -> match_cpat (CWild (Some TList)) v = TThrow) /\
  ((forall s, v <> VStr s) -> v <> VErr -> match_cpat (CWild (Some TStr)) v = TThrow) /\
  (forall xs l, v = VList l -> List.length l <> List.length xs -> match_cpat (CList xs) v = TThrow) /\
  (forall xs l, v = VList l -> List.length l = List.length xs -> nodupb xs = true ->
     match_cpat (CList xs) v = TOk (combine xs l)).
Proof. exact cpat_refusal. Qed.
Print Assumptions C05_cpat_refusal.

(* names bound by the pattern and by the handler are dropped afterwards *)
Theorem C05_catch_pattern_scope : forall n st cur b p h st1 v st' r,
  eval n st cur b = (st1, Sig (SThrow v)) ->
  eval (S n) st cur (ETryP b p h) = (st', r) ->
  preserves_all st1 st'.
Proof. exact catchp_scope. Qed.
Print Assumptions C05_catch_pattern_scope.

(* and / or / coalesce: when the left operand decides, store and output are those after the
   left operand: the right operand is not evaluated; otherwise the result is the right operand's *)
Theorem C05_short_circuit : forall n st cur a b st1 v,
  eval n st cur a = (st1, Val v) ->
  (truthy v = false -> eval (S n) st cur (EAnd a b) = (st1, Val v)) /\
  (truthy v = true -> eval (S n) st cur (EOr a b) = (st1, Val v)) /\
  (v <> VNull -> eval (S n) st cur (ECoalesce a b) = (st1, Val v)) /\
  (truthy v = true -> eval (S n) st cur (EAnd a b) = eval n st1 cur b) /\
  (truthy v = false -> eval (S n) st cur (EOr a b) = eval n st1 cur b) /\
  (v = VNull -> eval (S n) st cur (ECoalesce a b) = eval n st1 cur b).
Proof. exact short_circuit. Qed.
Print Assumptions C05_short_circuit.

(* `for (x <- le; if g) yield e` with effect-free g, e is map/filter *)
Theorem C05_yield_is_map_filter : forall n st cur x le g e xs (gf : val -> bool) (ef : val -> val),
  eval n st cur le = (st, Val (VList xs)) ->
  (forall st' fr el, In el xs -> nth_error (frames st') fr = Some (mkFrame (Some cur) [(x, el)]) ->
     exists gv, eval n st' fr g = (st', Val gv) /\ truthy gv = gf el) ->
  (forall st' fr el, In el xs -> nth_error (frames st') fr = Some (mkFrame (Some cur) [(x, el)]) ->
     eval n st' fr e = (st', Val (ef el))) ->
  eval (S n) st cur (EFor [CIter x le; CGuard g] (FYield e)) =
    (mkState (frames st ++ iter_frames cur x xs) (out st), Val (VList (map ef (filter gf xs)))).
Proof. exact yield_is_map_filter. Qed.
Print Assumptions C05_yield_is_map_filter.

(* one-statement blocks: (e) is e, (e;) runs e and yields null; signals pass *)
Theorem C05_single_block_rule : forall n st cur e st1 r,
  eval n st cur e = (st1, r) ->
  eval (S n) st cur (ESeq [e] false) = (st1, r) /\
  eval (S n) st cur (ESeq [e] true) = (st1, match r with Val _ => Val VNull | _ => r end).
Proof. exact single_block_rule. Qed.
Print Assumptions C05_single_block_rule.

Theorem C05_trailing_semicolon_rule : forall n st cur es st1 v,
  eval_seq (eval n) st cur es = (st1, Val v) ->
  eval (S n) st cur (ESeq es true) = (st1, Val VNull) /\
  eval (S n) st cur (ESeq es false) = (st1, Val v).
Proof. exact trailing_semicolon_rule. Qed.
Print Assumptions C05_trailing_semicolon_rule.

(* a yielding loop ended by a plain break returns the prefix collected so far, by `break v`
   returns v; elements after the breaking one are not visited *)
Theorem C05_yield_break_rule : forall n st cur x le b pre el post (ef : val -> val) bv,
  eval n st cur le = (st, Val (VList (pre ++ el :: post))) ->
  pure_body n cur x b pre ef ->
  (forall st' fr, nth_error (frames st') fr = Some (mkFrame (Some cur) [(x, el)]) ->
     eval n st' fr b = (st', Sig (SBreak 0 bv))) ->
  eval (S n) st cur (EFor [CIter x le] (FYield b)) =
    (mkState (frames st ++ iter_frames cur x (pre ++ [el])) (out st),
     Val (match bv with Some v => v | None => VList (map ef pre) end)).
Proof. exact yield_break_rule. Qed.
Print Assumptions C05_yield_break_rule.

(* `continue` in a yielding loop skips exactly that element *)
Theorem C05_yield_continue_rule : forall n st cur x le b xs (sel : val -> option val),
  eval n st cur le = (st, Val (VList xs)) ->
  (forall st' fr e, In e xs -> nth_error (frames st') fr = Some (mkFrame (Some cur) [(x, e)]) ->
     eval n st' fr b = (st', match sel e with Some v => Val v | None => Sig (SContinue 0) end)) ->
  eval (S n) st cur (EFor [CIter x le] (FYield b)) =
    (mkState (frames st ++ iter_frames cur x xs) (out st),
     Val (VList (flat_map (fun e => match sel e with Some v => [v] | None => [] end) xs))).
Proof. exact yield_continue_rule. Qed.
Print Assumptions C05_yield_continue_rule.

(* the into reducers, for an effect-free body whose value is ef of the element *)
Theorem C05_into_sum : forall n st cur x le b zs (ef : val -> val) xs,
  eval n st cur le = (st, Val (VList xs)) -> pure_body n cur x b xs ef ->
  map ef xs = map VInt zs ->
  eval (S n) st cur (EFor [CIter x le] (FYieldInto b RSum)) =
    (mkState (frames st ++ iter_frames cur x xs) (out st), Val (VInt (fold_right Z.add 0%Z zs))).
Proof. exact into_sum. Qed.
Print Assumptions C05_into_sum.

Theorem C05_into_count_last_len : forall n st cur x le b (ef : val -> val) xs,
  eval n st cur le = (st, Val (VList xs)) -> pure_body n cur x b xs ef ->
  let st' := mkState (frames st ++ iter_frames cur x xs) (out st) in
  eval (S n) st cur (EFor [CIter x le] (FYieldInto b RCount)) =
    (st', Val (VInt (Z.of_nat (List.length (filter truthy (map ef xs)))))) /\
  eval (S n) st cur (EFor [CIter x le] (FYieldInto b RLen)) = (st', Val (VInt (Z.of_nat (List.length xs)))) /\
  eval (S n) st cur (EFor [CIter x le] (FYieldInto b RLast)) =
    (st', match xs with [] => Sig (SThrow VErr) | _ => Val (last (map ef xs) VNull) end).
Proof. exact into_count_last_len. Qed.
Print Assumptions C05_into_count_last_len.

Theorem C05_into_function : forall n st cur x le b fe fv (ef : val -> val) xs,
  eval n st cur fe = (st, Val fv) ->
  eval n st cur le = (st, Val (VList xs)) -> pure_body n cur x b xs ef ->
  eval (S n) st cur (EFor [CIter x le] (FYieldInto b (RFun fe))) =
    apply_val (eval n) (mkState (frames st ++ iter_frames cur x xs) (out st)) fv [VList (map ef xs)].
Proof. exact into_function. Qed.
Print Assumptions C05_into_function.

(* into first stops at the first element: the others are not visited *)
Theorem C05_into_first : forall n st cur x le b (ef : val -> val) xs,
  eval n st cur le = (st, Val (VList xs)) ->
  (forall el post, xs = el :: post -> pure_body n cur x b [el] ef) ->
  eval (S n) st cur (EFor [CIter x le] (FYieldInto b RFirst)) =
    match xs with
    | [] => (st, Sig (SThrow VErr))
    | el :: _ => (mkState (frames st ++ iter_frames cur x [el]) (out st), Val (ef el))
    end.
Proof. exact into_first. Qed.
Print Assumptions C05_into_first.

(* parameter binding of a closure call (`rec` is the interpreter used for default expressions;
   fr is the call's fresh frame). Plain parameters: exactly as many arguments, left to right *)
Theorem C05_bind_plain : forall rec st fr xs args,
  bind_params rec st fr (plain xs) args =
  if Nat.eqb (List.length xs) (List.length args) then declare_all st fr (combine xs args) else throw_err st.
Proof. exact bind_plain. Qed.
Print Assumptions C05_bind_plain.

(* a trailing default: evaluated in the fresh frame before any parameter is declared, only when
   its argument is missing; any other argument count is an error *)
Theorem C05_bind_default : forall rec st fr xs y d args,
  (List.length args = List.length xs ->
     bind_params rec st fr (plain xs ++ [(KPlain, y, Some d)]) args =
     bindR (rec st fr d) (fun st1 dv => declare_all st1 fr (combine (xs ++ [y]) (args ++ [dv])))) /\
  (List.length args = S (List.length xs) ->
     bind_params rec st fr (plain xs ++ [(KPlain, y, Some d)]) args =
     declare_all st fr (combine (xs ++ [y]) args)) /\
  (List.length args < List.length xs \/ S (List.length xs) < List.length args ->
     bind_params rec st fr (plain xs ++ [(KPlain, y, Some d)]) args = throw_err st).
Proof. exact bind_default. Qed.
Print Assumptions C05_bind_default.

(* one splat: first arguments to the parameters before it, last ones to those after it, the
   (possibly empty) rest as a list to the splat; too few arguments is an error *)
Theorem C05_bind_splat : forall rec st fr xs s ys a1 mid a2,
  List.length a1 = List.length xs -> List.length a2 = List.length ys ->
  bind_params rec st fr (plain xs ++ [(KSplat, s, None)] ++ plain ys) (a1 ++ mid ++ a2) =
  declare_all st fr (combine xs a1 ++ [(s, VList mid)] ++ combine ys a2).
Proof. exact bind_splat. Qed.
Print Assumptions C05_bind_splat.

Theorem C05_bind_splat_too_few : forall rec st fr xs s ys args,
  List.length args < List.length xs + List.length ys ->
  bind_params rec st fr (plain xs ++ [(KSplat, s, None)] ++ plain ys) args = throw_err st.
Proof. exact bind_splat_too_few. Qed.
Print Assumptions C05_bind_splat_too_few.

(* the store invariant. wf_state st: every frame's parent has a smaller id, and every closure
   stored in a variable or in the printed output points to an existing frame (vok). From such a
   state and an existing current frame, EVERY evaluation - any program, any fuel, any outcome -
   ends in such a state, never loses a frame, and every closure in the value or signal it
   produces points to an existing frame. (So `resolve`'s walk never meets a dangling or
   non-decreasing parent link, and a closure can always be called.) *)
Theorem C05_wf_preserved : forall n st cur e st' r,
  wf_state st -> cur < len st -> eval n st cur e = (st', r) ->
  wf_state st' /\ len st <= len st' /\
  match r with
  | Val v => vok (len st') v = true
  | Sig s => sig_ok (len st') s = true
  | OutOfFuel => True
  end.
Proof. exact wf_preserved. Qed.
Print Assumptions C05_wf_preserved.

(* in particular for whole programs, which start from the initial store *)
Theorem C05_run_wf : forall n e st' r, run n e = (st', r) ->
  wf_state st' /\
  match r with
  | Val v => vok (len st') v = true
  | Sig s => sig_ok (len st') s = true
  | OutOfFuel => True
  end.
Proof. exact run_wf. Qed.
Print Assumptions C05_run_wf.

(* switch: refusing arms are skipped, the FIRST accepting arm runs, in a fresh frame holding its
   binding; no accepting arm is an error *)
Theorem C05_switch_first_match : forall rec skipped p body rest st cur v,
  forallb (fun arm => negb (pat_accepts (fst arm) v)) skipped = true ->
  pat_accepts p v = true ->
  let st1 := mkState (frames st ++ map (fun _ => mkFrame (Some cur) []) skipped) (out st) in
  switch_arms rec st cur v (skipped ++ (p, body) :: rest) =
  match p with
  | PBind x => rec (mkState (frames st1 ++ [mkFrame (Some cur) [(x, v)]]) (out st)) (List.length (frames st1)) body
  | _ => rec (fst (push_frame st1 cur)) (List.length (frames st1)) body
  end.
Proof. exact switch_first_match. Qed.
Print Assumptions C05_switch_first_match.

Theorem C05_switch_no_match : forall rec arms st cur v,
  forallb (fun arm => negb (pat_accepts (fst arm) v)) arms = true ->
  switch_arms rec st cur v arms =
  (mkState (frames st ++ map (fun _ => mkFrame (Some cur) []) arms) (out st), Sig (SThrow VErr)).
Proof. exact switch_no_match. Qed.
Print Assumptions C05_switch_no_match.

(* eval: the sub-program runs in place (same frame, signals included); a value thrown through
   the builtin comes out as an opaque error string *)
Theorem C05_eval_builtin_rule : forall n st cur e st1 r,
  eval n st cur e = (st1, r) ->
  eval (S n) st cur (EEval e) = (st1, match r with Sig (SThrow _) => Sig (SThrow VErr) | _ => r end).
Proof. exact eval_builtin_rule. Qed.
Print Assumptions C05_eval_builtin_rule.

(* a, b := e and a, b = e *)
Theorem C05_unpack_rule : forall n st cur xs e st1 l (decl : bool),
  eval n st cur e = (st1, Val (VList l)) ->
  eval (S n) st cur (if decl then EDeclL xs e else EAssignL xs e) =
  if Nat.eqb (List.length l) (List.length xs)
  then bindR ((if decl then declare_all else assign_all) st1 cur (combine xs l)) (fun st2 _ => (st2, Val VNull))
  else (st1, Sig (SThrow VErr)).
Proof. exact unpack_rule. Qed.
Print Assumptions C05_unpack_rule.

(* non-vacuity: a loop variable and a variable declared in the body are gone after the loop,
   the outer x is still 1 *)
Example C05_example_scopes :
  snd (run 20 (ESeq [EDecl "x" (EInt 1);
                     EFor [CIter "x" (EList [(false, EInt 5)])] (FDo (EDecl "y" (EVar "x")));
                     EList [(false, EVar "x"); (false, ETry (EVar "y") "e" (EInt 0))]] false))
  = Val (VList [VInt 1; VInt 0]).
Proof. reflexivity. Qed.

(* redeclaration in the same frame fails, shadowing in an inner frame does not, `=` reaches out *)
Example C05_example_decl_assign :
  snd (run 20 (ESeq [EDecl "x" (EInt 1);
                     ECall (ELam [] (ESeq [EDecl "x" (EInt 2); EAssign "x" (EInt 3)] false)) [];
                     ECall (ELam [] (EAssign "x" (EInt 4))) [];
                     EList [(false, EVar "x"); (false, ETry (EDecl "x" (EInt 9)) "e" (EInt 0));
                            (false, ETry (EAssign "u" (EInt 9)) "e" (EInt 0))]] false))
  = Val (VList [VInt 4; VInt 0; VInt 0]).
Proof. reflexivity. Qed.

(* capture by variable + per-iteration variables + break through a call + short circuit *)
Example C05_example_closures :
  (let r := run 30 (ESeq [EDecl "c" (EInt 0);
                          EDecl "f" (ELam [] (EVar "c"));
                          EAssign "c" (EInt 5);
                          EDecl "fs" (EFor [CIter "x" (EList [(false, EInt 1); (false, EInt 2)])] (FYield (ELam [] (EVar "x"))));
                          EDecl "g" (ELam [] (EBreak 0 (Some (EInt 7))));
                          EList [(false, ECall (EVar "f") []);
                                 (false, EFor [CIter "h" (EVar "fs")] (FYield (ECall (EVar "h") [])));
                                 (false, EWhile (EInt 1) (ECall (EVar "g") []));
                                 (false, EAnd (EInt 0) (EPrim PPrint [EInt 1]))]] false) in
   (snd r, out (fst r)))
  = (Val (VList [VInt 5; VList [VInt 1; VInt 2]; VInt 7; VInt 0]), []).
Proof. reflexivity. Qed.

(* the hypotheses of yield_is_map_filter are satisfiable: x < 3 and x + 10 over [1, 5, 2] *)
Example C05_example_map_filter :
  snd (run 20 (EFor [CIter "x" (EList [(false, EInt 1); (false, EInt 5); (false, EInt 2)]);
                     CGuard (EPrim PLt [EVar "x"; EInt 3])]
                    (FYield (EPrim PAdd [EVar "x"; EInt 10]))))
  = Val (VList (map (fun v => match v with VInt z => VInt (z + 10) | _ => v end)
                    (filter (fun v => match v with VInt z => Z.ltb z 3 | _ => false end) [VInt 1; VInt 5; VInt 2]))).
Proof. reflexivity. Qed.

(* return stops at the call, throw passes the call and stops at try, break break leaves two
   loops, a switch arm binds its own variable; the run finishes, so fuel_monotone applies to it *)
Definition C05_example_program : expr :=
  let l xs := EList (map (fun z => (false, EInt z)) xs) in
  ESeq [EDecl "f" (ELam [(KPlain, "p", None)]
                     (ESeq [EIf (EPrim PEq [EVar "p"; EInt 2]) (EReturn (Some (EInt 20))) None;
                            EIf (EPrim PEq [EVar "p"; EInt 3]) (EThrow (EInt 30)) None;
                            EVar "p"] false));
        EList [(false, EFor [CIter "x" (l [1; 2; 3; 4]%Z)]
                            (FYield (ETry (ECall (EVar "f") [(false, EVar "x")]) "e" (EPrim PAdd [EVar "e"; EInt 1]))));
               (false, EFor [CIter "x" (l [1; 2]%Z)] (FYield (EWhile (EInt 1) (EBreak 1 (Some (EVar "x"))))));
               (false, ESwitch (EInt 7) [(PLit 1, EInt 0); (PBind "k", EVar "k")])]] false.

Example C05_example_signals :
  snd (run 30 C05_example_program)
  = Val (VList [VList [VInt 1; VInt 20; VInt 31; VInt 4]; VInt 1; VInt 7])
  /\ eval 1000 init_state 0 C05_example_program = eval 30 init_state 0 C05_example_program.
Proof.
  split; [reflexivity|].
  apply C05_fuel_monotone; [repeat constructor|]. 
  assert (H : snd (run 30 C05_example_program) = Val (VList [VList [VInt 1; VInt 20; VInt 31; VInt 4]; VInt 1; VInt 7])) by reflexivity.
  unfold run in H. rewrite H. discriminate.
Qed.

(* a refusing pattern: the outer catch sees the original 5, not an error about the pattern;
   output printed by the body stays, the inner handler prints nothing *)
Example C05_example_selective_catch :
  (let r := run 20 (ETry (ETryP (ESeq [EPrim PPrint [EInt 1]; EThrow (EInt 5)] false) (CInt 0) (EPrim PPrint [EInt 2]))
                         "e" (EList [(false, EVar "e")])) in (snd r, out (fst r)))
  = (Val (VList [VInt 5]), [[VInt 1]]).
Proof. reflexivity. Qed.

(* blocks, break values of yield loops, continue, and the reducers on concrete programs *)
Example C05_example_rules :
  (let l := EList [(false, EInt 1); (false, EInt 2); (false, EInt 3)] in
   let brk v := ESeq [EIf (EPrim PEq [EVar "x"; EInt 2]) v None; EPrim PMul [EVar "x"; EInt 10]] false in
   snd (run 20 (EList [(false, ESeq [EInt 7] true); (false, ESeq [EInt 7] false);
                       (false, EFor [CIter "x" l] (FYield (brk (EBreak 0 None))));
                       (false, EFor [CIter "x" l] (FYield (brk (EBreak 0 (Some (EStr "s"))))));
                       (false, EFor [CIter "x" l] (FYield (brk (EContinue 0))));
                       (false, EFor [CIter "x" l] (FYieldInto (EVar "x") RSum));
                       (false, EFor [CIter "x" l] (FYieldInto (EPrim PSub [EVar "x"; EInt 1]) RCount));
                       (false, EFor [CIter "x" l] (FYieldInto (EVar "x") RLast));
                       (false, EFor [CIter "x" l] (FYieldInto (ESeq [EPrim PPrint [EVar "x"]; EVar "x"] false) RFirst))])))
  = Val (VList [VNull; VInt 7; VList [VInt 10]; VStr "s"; VList [VInt 10; VInt 30]; VInt 6; VInt 2; VInt 3; VInt 1]).
Proof. reflexivity. Qed.

(* defaults see the closure's scope, not earlier parameters; splats take the middle *)
Example C05_example_params :
  snd (run 20 (ESeq [EDecl "p" (EInt 100);
                     EDecl "f" (ELam [(KPlain, "p", None); (KPlain, "q", Some (EPrim PAdd [EVar "p"; EInt 1]))] (EList [(false, EVar "p"); (false, EVar "q")]));
                     EDecl "g" (ELam [(KPlain, "a", None); (KSplat, "m", None); (KPlain, "z", None)] (EList [(false, EVar "a"); (false, EVar "m"); (false, EVar "z")]));
                     EList [(false, ECall (EVar "f") [(false, EInt 1)]);
                            (false, ECall (EVar "f") [(false, EInt 1); (false, EInt 2)]);
                            (false, ECall (EVar "g") [(false, EInt 1); (false, EInt 2)]);
                            (false, ECall (EVar "g") [(false, EInt 1); (false, EInt 2); (false, EInt 3); (false, EInt 4)]);
                            (false, ETry (ECall (EVar "g") [(false, EInt 1)]) "e" (EInt 0))]] false))
  = Val (VList [VList [VInt 1; VInt 101]; VList [VInt 1; VInt 2]; VList [VInt 1; VList []; VInt 2];
                VList [VInt 1; VList [VInt 2; VInt 3]; VInt 4]; VInt 0]).
Proof. reflexivity. Qed.

(* a closure that escapes its defining call still points to an existing frame *)
Example C05_example_wf :
  exists st' ps b env,
    run 20 (ECall (ELam [] (ESeq [EDecl "c" (EInt 0); ELam [] (EVar "c")] false)) []) = (st', Val (VClos ps b env)) /\
    env < len st' /\ vok (len st') (VClos ps b env) = true.
Proof. do 4 eexists. split; [reflexivity|]. split; [cbn; repeat constructor|reflexivity]. Qed.

(* switch picks the first accepting arm; eval declares into the caller's frame; unpacking *)
Example C05_example_switch_eval_unpack :
  snd (run 20 (ESeq [EDeclL ["a"; "b"] (EList [(false, EInt 1); (false, EInt 2)]);
                     EEval (EDecl "c" (EInt 3));
                     EList [(false, ESwitch (EVar "b") [(PLit 1, EStr "one"); (PLit 2, EStr "two"); (PWild, EStr "other")]);
                            (false, ETry (ESwitch (EVar "c") [(PLit 1, EInt 0)]) "e" (EStr "none"));
                            (false, EVar "c");
                            (false, ETry (EDeclL ["x"; "y"] (EList [(false, EInt 1)])) "e" (EStr "short"))]] false))
  = Val (VList [VStr "two"; VStr "none"; VInt 3; VStr "short"]).
Proof. reflexivity. Qed.
