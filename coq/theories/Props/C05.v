(* C05 - control flow, scoping and closures follow the documented semantics.
   Only statements here; every proof is `exact <lemma>` into Lang/Eval_proofs.v.
   `eval fuel st cur e` is the reference interpreter (Lang/Eval.v): st = all frames + printed
   output, cur = the current frame; results are (state, Val v | Sig s | OutOfFuel). *)
From Coq Require Import ZArith String List Bool.
From NV Require Import Lang.Syntax Lang.Eval Lang.Eval_proofs.
Import ListNotations.
Open Scope string_scope.
Open Scope list_scope.

(* more fuel never changes a finished result: the interpreter defines a partial function *)
Theorem C05_fuel_monotone : forall n m st cur e,
  n <= m -> snd (eval n st cur e) <> OutOfFuel -> eval m st cur e = eval n st cur e.
Proof. exact fuel_monotone. Qed.
Print Assumptions C05_fuel_monotone.

(* evaluating ANY expression, with any fuel, whatever the outcome: every frame that existed
   keeps its parent, every frame other than the current one keeps its domain, and the current
   frame's domain only grows *)
Theorem C05_scope_discipline : forall n st cur e st' r,
  eval n st cur e = (st', r) ->
  forall f fr, nth_error (frames st) f = Some fr ->
    exists fr', nth_error (frames st') f = Some fr' /\ parent fr' = parent fr /\
      (if Nat.eqb f cur then exists news, names fr' = news ++ names fr else names fr' = names fr).
Proof. exact scope_discipline. Qed.
Print Assumptions C05_scope_discipline.

(* a call, a whole while loop, every pass of a for clause, a catch clause: all existing frames
   keep their domain (so names declared inside are unbound afterwards) ... *)
Theorem C05_scopes_are_dropped : forall n,
  (forall st fv args st' r, apply_val (eval n) st fv args = (st', r) -> preserves_all st st') /\
  (forall st cur c b st' r, eval n st cur (EWhile c b) = (st', r) -> preserves_all st st') /\
  (forall rest body bss cur st acc st' acc' r,
     for_each (eval_for (eval n) rest (for_body (eval n) body)) cur bss st acc = (st', acc', r) ->
     preserves_all st st') /\
  (forall st cur b x h st1 v st' r,
     eval n st cur b = (st1, Sig (SThrow v)) -> eval (S n) st cur (ETry b x h) = (st', r) ->
     preserves_all st1 st').
Proof.
  intros n. repeat split.
  - exact (call_scope n).
  - exact (while_scope n).
  - exact (for_pass_scope n).
  - exact (catch_scope n).
Qed.
Print Assumptions C05_scopes_are_dropped.

(* ... and then every name resolves, from every existing frame, exactly as before *)
Theorem C05_resolution_unchanged : forall st st' f x,
  preserves_all st st' -> f < List.length (frames st) ->
  resolve (frames st') f x = resolve (frames st) f x.
Proof. exact resolve_preserved. Qed.
Print Assumptions C05_resolution_unchanged.

(* non-vacuity: a loop variable and a variable declared in the body are gone after the loop,
   the outer x is still 1 *)
Example C05_example_scopes :
  snd (run 20 (ESeq [EDecl "x" (EInt 1);
                     EFor [CIter "x" (EList [(false, EInt 5)])] (FDo (EDecl "y" (EVar "x")));
                     EList [(false, EVar "x"); (false, ETry (EVar "y") "e" (EInt 0))]] false))
  = Val (VList [VInt 1; VInt 0]).
Proof. reflexivity. Qed.
