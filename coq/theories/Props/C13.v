(* C13 - the sequence library matches its executable specification.
   Only statements here; every proof is `exact <lemma>` into Seq/SeqLib_proofs.v (and
   Seq/SeqEnum_proofs.v). The theorems are about the specification Seq/SeqLib.v: they say that
   the one-liners the builtins are compared with (correspondence run) are the intended ones. *)
From Coq Require Import List Bool Arith NArith ZArith Permutation Sorted.
From NV Require Import Seq.SeqLib Seq.SeqVal Seq.SeqVal_proofs Seq.SeqLib_proofs Seq.SeqSlices_proofs Seq.SeqZip_proofs Seq.SeqStr_proofs Seq.SeqEnum_proofs Seq.SeqMore_proofs Seq.SeqEnumOrder_proofs.
Import ListNotations.

(* sort (any total preorder): sorted, a permutation of the input, and stable: the elements of
   every ==-class appear in their input order *)
Theorem C13_sort_sorted_stable_perm : forall (A : Type) (leb : A -> A -> bool),
  (forall a b, leb a b = true \/ leb b a = true) ->
  (forall a b c, leb a b = true -> leb b c = true -> leb a c = true) ->
  forall xs,
    StronglySorted (fun a b => leb a b = true) (sl_sort leb xs) /\ Permutation xs (sl_sort leb xs) /\
    forall a, filter (fun x => leb a x && leb x a) (sl_sort leb xs) = filter (fun x => leb a x && leb x a) xs.
Proof. exact sort_sorted_stable_perm. Qed.
Print Assumptions C13_sort_sorted_stable_perm.

(* unique (any equivalence ==): a subsequence of the input, no two kept elements are ==, every
   input element is == to a kept one, and each kept element is the first of its class *)
Theorem C13_unique_first_occurrences : forall (A : Type) (eqb : A -> A -> bool),
  (forall a, eqb a a = true) -> (forall a b, eqb a b = eqb b a) ->
  (forall a b c, eqb a b = true -> eqb b c = true -> eqb a c = true) ->
  forall xs,
    subseq (sl_unique eqb xs) xs /\ pairwise_distinct eqb (sl_unique eqb xs) /\
    (forall x, In x xs -> exists u, In u (sl_unique eqb xs) /\ eqb u x = true) /\
    (forall u, In u (sl_unique eqb xs) -> find (eqb u) xs = Some u).
Proof. exact unique_first_occurrences. Qed.
Print Assumptions C13_unique_first_occurrences.

Theorem C13_frequencies_counts : forall (A : Type) (eqb : A -> A -> bool),
  (forall a, eqb a a = true) ->
  (forall a b c, eqb a b = true -> eqb b c = true -> eqb a c = true) ->
  forall xs,
    map fst (sl_frequencies eqb xs) = sl_unique eqb xs /\
    (forall k c, In (k, c) (sl_frequencies eqb xs) -> c = length (filter (eqb k) xs) /\ c > 0) /\
    (forall x, In x xs -> exists k c, In (k, c) (sl_frequencies eqb xs) /\ eqb k x = true).
Proof. exact frequencies_counts. Qed.
Print Assumptions C13_frequencies_counts.

(* partition = (filter, reject); the two parts split the input, keeping its order *)
Theorem C13_filter_reject_partition : forall (A : Type) (p : A -> bool) xs,
  sl_partition p xs = (sl_filter p xs, sl_reject p xs) /\
  length (sl_filter p xs) + length (sl_reject p xs) = length xs /\
  interleave (sl_filter p xs) (sl_reject p xs) xs /\
  Forall (fun x => p x = true) (sl_filter p xs) /\ Forall (fun x => p x = false) (sl_reject p xs).
Proof. exact filter_reject_partition. Qed.
Print Assumptions C13_filter_reject_partition.

Theorem C13_reverse_involutive : forall (A : Type) (xs : list A), sl_reverse (sl_reverse xs) = xs.
Proof. exact reverse_involutive. Qed.
Print Assumptions C13_reverse_involutive.

Theorem C13_flatten_flat_map : forall (A B : Type) (f : B -> list A) xs, sl_flatten (map f xs) = sl_flat_map f xs.
Proof. exact flatten_flat_map. Qed.
Print Assumptions C13_flatten_flat_map.

(* the last element of scan is fold (with and without a start value) *)
Theorem C13_scan_last_is_fold : forall (A : Type) (f : A -> A -> A) xs a d,
  last (sl_scan_from f xs a) d = sl_fold_from f xs a /\
  length (sl_scan_from f xs a) = S (length xs) /\
  (forall x t, xs = x :: t -> sl_fold f xs = Some (last (sl_scan f xs) d)).
Proof. exact scan_last_is_fold. Qed.
Print Assumptions C13_scan_last_is_fold.

(* window(xs, n), n > 0: len-n+1 windows, window i is the slice xs[i : i+n]; n = 0 raises *)
Theorem C13_window_spec : forall (A : Type) n (xs : list A),
  (n = 0 -> sl_window n xs = None) /\
  (0 < n -> exists ws, sl_window n xs = Some ws /\ length ws = length xs + 1 - n /\
     forall i, i < length ws -> nth i ws [] = firstn n (skipn i xs) /\ length (nth i ws []) = n).
Proof. exact window_spec. Qed.
Print Assumptions C13_window_spec.

(* prefixes / suffixes by increasing length *)
Theorem C13_prefixes_suffixes_spec : forall (A : Type) (xs : list A),
  length (sl_prefixes xs) = S (length xs) /\
  (forall i, i <= length xs -> nth i (sl_prefixes xs) [] = firstn i xs) /\
  length (sl_suffixes xs) = S (length xs) /\
  (forall i, i <= length xs -> nth i (sl_suffixes xs) [] = skipn (length xs - i) xs).
Proof. exact prefixes_suffixes_spec. Qed.
Print Assumptions C13_prefixes_suffixes_spec.

(* group(xs, n), n > 0: the groups concatenate to the input, none is empty or longer than n,
   every group but the last has exactly n elements; group' raises unless n divides the length,
   and then every group has n elements; n = 0 raises *)
Theorem C13_group_concat : forall (A : Type) n (xs : list A),
  (n = 0 -> sl_group n xs = None /\ sl_group_strict n xs = None) /\
  (0 < n -> exists gs, sl_group n xs = Some gs /\ concat gs = xs /\
     (forall g, In g gs -> 0 < length g <= n) /\
     (forall i, S i < length gs -> length (nth i gs []) = n) /\
     sl_group_strict n xs = (if length xs mod n =? 0 then Some gs else None) /\
     (length xs mod n = 0 -> forall g, In g gs -> length g = n)).
Proof. exact group_concat. Qed.
Print Assumptions C13_group_concat.

(* group(xs, r): the groups concatenate to the input, are non-empty, every adjacent pair inside
   a group satisfies r, and r fails between the last element of a group and the first of the next *)
Theorem C13_group_by_adjacent : forall (A : Type) (r : A -> A -> bool) (xs : list A),
  concat (sl_group_by r xs) = xs /\
  Forall (fun g => g <> []) (sl_group_by r xs) /\
  Forall (chain r) (sl_group_by r xs) /\
  breaks r (sl_group_by r xs).
Proof. exact group_by_adjacent. Qed.
Print Assumptions C13_group_by_adjacent.

Theorem C13_zip_length_min : forall (A : Type) (xss : list (list A)), length (sl_zip xss) = minlen xss.
Proof. exact zip_length_min. Qed.
Print Assumptions C13_zip_length_min.

Theorem C13_ziplongest_length_max : forall (A : Type) (xss : list (list A)), length (sl_ziplongest xss) = maxlen xss.
Proof. exact ziplongest_length_max. Qed.
Print Assumptions C13_ziplongest_length_max.

Theorem C13_zip_binary_combine : forall (A : Type) (xs ys : list A),
  sl_zip [xs; ys] = map (fun ab => [fst ab; snd ab]) (combine xs ys) /\
  length (sl_zip [xs; ys]) = Nat.min (length xs) (length ys).
Proof. exact zip_binary_combine. Qed.
Print Assumptions C13_zip_binary_combine.

Theorem C13_transpose_involutive_on_rectangular : forall (A : Type) m (xss : list (list A)),
  0 < m -> xss <> [] -> Forall (fun row => length row = m) xss ->
  sl_transpose (sl_transpose xss) = xss /\
  length (sl_transpose xss) = m /\ Forall (fun col => length col = length xss) (sl_transpose xss).
Proof. exact transpose_involutive_on_rectangular. Qed.
Print Assumptions C13_transpose_involutive_on_rectangular.

(* transpose of ANY (ragged) list of rows: column j consists of the j-th elements of the rows that
   have one, in row order; as many columns as the longest row is long; no column is empty *)
Theorem C13_transpose_ragged : forall (A : Type) (xss : list (list A)),
  length (sl_transpose xss) = maxlen xss /\
  (forall j, nth j (sl_transpose xss) [] = flat_map (pick j) xss) /\
  Forall (fun col => col <> []) (sl_transpose xss).
Proof. exact transpose_ragged. Qed.
Print Assumptions C13_transpose_ragged.

(* ziplongest with a function: every batch of ziplongest reduced from the left by the function *)
Theorem C13_ziplongest_with_folds : forall (A : Type) (f : A -> A -> A) (xss : list (list A)) d,
  sl_ziplongest_with f xss =
    map (fun b => match sl_fold f b with Some r => r | None => d end) (sl_ziplongest xss) /\
  length (sl_ziplongest_with f xss) = maxlen xss.
Proof. exact ziplongest_with_folds. Qed.
Print Assumptions C13_ziplongest_with_folds.

(* zip with a function: zip, then the function on every pair *)
Theorem C13_zip_with_is_zip_then_apply : forall (A : Type) (f : A -> A -> A) (xs ys : list A) d,
  sl_zip_with f xs ys = map (fun row => f (nth 0 row d) (nth 1 row d)) (sl_zip [xs; ys]) /\
  length (sl_zip_with f xs ys) = Nat.min (length xs) (length ys).
Proof. exact zip_with_is_zip_then_apply. Qed.
Print Assumptions C13_zip_with_is_zip_then_apply.

(* split then join restores the string (any non-empty separator); join then split restores the
   pieces when the one-character separator occurs in none of them; an empty separator raises *)
Theorem C13_join_split_inverse : forall (Ch : Type) (ceqb : Ch -> Ch -> bool),
  (forall a b, ceqb a b = true <-> a = b) ->
  (forall sep s, sep <> [] -> exists ps, sl_split ceqb sep s = Some ps /\ ps <> [] /\ sl_join sep ps = s) /\
  (forall c ps, ps <> [] -> (forall p, In p ps -> ~ In c p) -> sl_split ceqb [c] (sl_join [c] ps) = Some ps) /\
  (forall s, sl_split ceqb [] s = None).
Proof. exact join_split_inverse. Qed.
Print Assumptions C13_join_split_inverse.

(* split ... by n: no piece for n = 0; otherwise at most n pieces that still join to the string, the
   first n-1 of them are the first n-1 pieces of the plain split, and when the plain split has at
   most n pieces it is the plain split *)
Theorem C13_splitn_spec : forall (Ch : Type) (ceqb : Ch -> Ch -> bool),
  (forall a b, ceqb a b = true <-> a = b) ->
  forall sep n s, sep <> [] ->
    match n with
    | 0 => sl_splitn ceqb sep 0 s = Some []
    | S k => exists ps, sl_splitn ceqb sep n s = Some ps /\ ps <> [] /\ length ps <= n /\ sl_join sep ps = s /\
             (forall qs, sl_split ceqb sep s = Some qs -> length qs <= n -> ps = qs) /\
             firstn k ps = firstn k (split_go ceqb sep 0 [] s)
    end.
Proof. exact splitn_spec. Qed.
Print Assumptions C13_splitn_spec.

(* lines(s): no line contains the newline character; joining the lines with newlines reproduces s,
   up to the single trailing newline that is ignored. The statement is for an arbitrary character
   type and newline character: every other character ("\r" included) is ordinary *)
Theorem C13_lines_spec : forall (Ch : Type) (ceqb : Ch -> Ch -> bool),
  (forall a b, ceqb a b = true <-> a = b) ->
  forall (nl : Ch) (s : list Ch),
    Forall (fun l => ~ In nl l) (sl_lines ceqb nl s) /\
    (forall t, s = t ++ [nl] -> sl_join [nl] (sl_lines ceqb nl s) ++ [nl] = s) /\
    ((forall t, s <> t ++ [nl]) -> sl_join [nl] (sl_lines ceqb nl s) = s).
Proof. exact lines_spec. Qed.
Print Assumptions C13_lines_spec.

(* words: no word is empty or contains whitespace; the words concatenate, in order, to the string
   with its whitespace removed (that runs are not cut in two is compared by correspondence only) *)
Theorem C13_words_spec : forall (Ch : Type) (is_space : Ch -> bool) (s : list Ch),
  Forall (wordy is_space) (sl_words is_space s) /\
  concat (sl_words is_space s) = filter (fun c => negb (is_space c)) s.
Proof. exact words_spec. Qed.
Print Assumptions C13_words_spec.

(* words(s) are exactly the maximal runs of non-whitespace: s reads gap word gap word ... gap, gaps
   are whitespace only, words are non-empty and whitespace-free, each word is followed by whitespace
   or the end (no run is cut in two); and this decomposition determines the list of words *)
Theorem C13_words_maximal_runs : forall (Ch : Type) (is_space : Ch -> bool) (s : list Ch),
  words_of is_space s (sl_words is_space s) /\
  forall ws, words_of is_space s ws -> ws = sl_words is_space s.
Proof.
  intros Ch is_space s. split; [apply words_maximal_runs|].
  intros ws H. exact (words_of_functional Ch is_space s ws H _ (words_maximal_runs Ch is_space s)).
Qed.
Print Assumptions C13_words_maximal_runs.

(* xs ** ys in row-major order: element i*len(ys)+j is [xs[i], ys[j]] *)
Theorem C13_cartesian_product_order : forall (A : Type) (xs ys : list A) d,
  length (sl_cartesian [xs; ys]) = length xs * length ys /\
  forall i j, i < length xs -> j < length ys ->
    nth (i * length ys + j) (sl_cartesian [xs; ys]) [] = [nth i xs d; nth j ys d].
Proof. exact cartesian_product_order. Qed.
Print Assumptions C13_cartesian_product_order.

Theorem C13_cartesian_tuples : forall (A : Type) (xss : list (list A)),
  length (sl_cartesian xss) = fold_right (fun xs m => length xs * m) 1 xss /\
  forall t, In t (sl_cartesian xss) <-> Forall2 (fun x xs => In x xs) t xss.
Proof. exact cartesian_tuples. Qed.
Print Assumptions C13_cartesian_tuples.

(* subsequences(xs): 2^len of them, and the k-th one consists of the elements whose bit is set in
   the len-bit big-endian representation of k (first element = most significant bit): every
   selection of positions exactly once, in binary counting order. Unbounded. *)
Theorem C13_subsequences_order : forall (A : Type) (xs : list A),
  length (sl_subsequences xs) = 2 ^ length xs /\
  forall k, k < 2 ^ length xs -> nth k (sl_subsequences xs) [] = mask_select (bits (length xs) k) xs.
Proof. exact subsequences_order. Qed.
Print Assumptions C13_subsequences_order.

(* permutations(xs), len <= 6: the index tuples without a repeated index, in the lexicographic
   order of the cartesian power (C13_cartesian_product_order), each exactly once *)
Theorem C13_permutations_enumerate : forall (A : Type) (xs : list A) d, length xs <= 6 ->
  sl_permutations xs =
  map (map (fun i => nth i xs d)) (filter nodupb (sl_cartesian_power (seq 0 (length xs)) (length xs))).
Proof. exact permutations_enumerate. Qed.
Print Assumptions C13_permutations_enumerate.

(* combinations(xs, k), len <= 6: the strictly increasing index tuples, lexicographic order *)
Theorem C13_combinations_enumerate : forall (A : Type) (xs : list A) d k, length xs <= 6 -> k <= length xs + 1 ->
  sl_combinations xs k =
  map (map (fun i => nth i xs d)) (filter increasingb (sl_cartesian_power (seq 0 (length xs)) k)).
Proof. exact combinations_enumerate. Qed.
Print Assumptions C13_combinations_enumerate.

(* the enumerators act on positions: renaming the elements renames the results (unbounded) *)
Theorem C13_enumerators_natural : forall (A B : Type) (f : A -> B) (l : list A),
  sl_permutations (map f l) = map (map f) (sl_permutations l) /\
  (forall k, sl_combinations (map f l) k = map (map f) (sl_combinations l k)) /\
  sl_subsequences (map f l) = map (map f) (sl_subsequences l).
Proof. intros A B f l. exact (conj (permutations_map A B f l) (conj (fun k => combinations_map A B f k l) (subsequences_map A B f l))). Qed.
Print Assumptions C13_enumerators_natural.

(* take / drop with a predicate split the input at the first element failing it *)
Theorem C13_take_drop_while : forall (A : Type) (p : A -> bool) xs,
  sl_take_while p xs ++ sl_drop_while p xs = xs /\
  Forall (fun x => p x = true) (sl_take_while p xs) /\
  match sl_drop_while p xs with [] => True | y :: _ => p y = false end.
Proof. exact take_drop_while. Qed.
Print Assumptions C13_take_drop_while.

(* locate is the index of the element find returns, the first one satisfying the predicate *)
Theorem C13_locate_find : forall (A : Type) (p : A -> bool) xs,
  match sl_locate p xs with
  | Some i => (exists x, nth_error xs i = Some x /\ p x = true /\ sl_find p xs = Some x) /\
              (forall j y, j < i -> nth_error xs j = Some y -> p y = false)
  | None => sl_find p xs = None /\ Forall (fun x => p x = false) xs
  end.
Proof. exact locate_find. Qed.
Print Assumptions C13_locate_find.

Theorem C13_count_any_all : forall (A : Type) (p : A -> bool) xs,
  sl_count p xs + sl_count (fun x => negb (p x)) xs = length xs /\
  (sl_any p xs = true <-> 0 < sl_count p xs) /\
  (sl_all p xs = true <-> sl_count p xs = length xs) /\
  sl_any p xs = negb (sl_all (fun x => negb (p x)) xs).
Proof. exact count_any_all. Qed.
Print Assumptions C13_count_any_all.

Theorem C13_enumerate_spec : forall (A : Type) (xs : list A),
  length (sl_enumerate xs) = length xs /\
  forall i x, nth_error xs i = Some x -> nth_error (sl_enumerate xs) i = Some (i, x).
Proof. exact enumerate_spec. Qed.
Print Assumptions C13_enumerate_spec.

Theorem C13_pairwise_spec : forall (A B : Type) (f : A -> A -> B) (xs : list A) d e,
  length (sl_pairwise f xs) = length xs - 1 /\
  forall i, S i < length xs -> nth i (sl_pairwise f xs) e = f (nth i xs d) (nth (S i) xs d).
Proof. exact pairwise_spec. Qed.
Print Assumptions C13_pairwise_spec.

(* min (and max, with the reversed order) over a total preorder: an element of the input that is
   <= every element, and the first such: every earlier element is strictly worse; empty raises *)
Theorem C13_extremum_first_best : forall (A : Type) (leb : A -> A -> bool),
  (forall a b, leb a b = true \/ leb b a = true) ->
  (forall a b c, leb a b = true -> leb b c = true -> leb a c = true) ->
  forall xs,
    match sl_extremum (fun b r => negb (leb r b)) xs with
    | None => xs = []
    | Some m => In m xs /\ (forall x, In x xs -> leb m x = true) /\ find (fun x => leb x m) xs = Some m
    end.
Proof. exact extremum_first_best. Qed.
Print Assumptions C13_extremum_first_best.

(* unbounded facts about the enumerators *)
Theorem C13_permutations_sound : forall (A : Type) (xs : list A),
  length (sl_permutations xs) = fact (length xs) /\
  forall p, In p (sl_permutations xs) -> Permutation p xs.
Proof. exact permutations_sound. Qed.
Print Assumptions C13_permutations_sound.

Theorem C13_combinations_subseq : forall (A : Type) (xs : list A) k c,
  In c (sl_combinations xs k) <-> subseq c xs /\ length c = k.
Proof. exact combinations_subseq. Qed.
Print Assumptions C13_combinations_subseq.

(* UNBOUNDED exactness of permutations and combinations, for every length: the results are the
   images of index lists over the positions 0..len-1; those index lists are strictly increasing
   in lexicographic order (so each occurs once), and they are exactly the rearrangements of the
   positions / exactly the k-element subsequences of the positions *)
Theorem C13_enumerators_exact_unbounded : forall (A : Type) (xs : list A) d,
  let pos := seq 0 (length xs) in
  let at_ := map (fun i => nth i xs d) in
  (sl_permutations xs = map at_ (sl_permutations pos) /\
   StronglySorted lex_lt (sl_permutations pos) /\ NoDup (sl_permutations pos) /\
   forall p, In p (sl_permutations pos) <-> Permutation p pos) /\
  (forall k, sl_combinations xs k = map at_ (sl_combinations pos k) /\
   StronglySorted lex_lt (sl_combinations pos k) /\ NoDup (sl_combinations pos k) /\
   forall c, In c (sl_combinations pos k) <-> subseq c pos /\ length c = k).
Proof. exact enumerators_exact_unbounded. Qed.
Print Assumptions C13_enumerators_exact_unbounded.

Theorem C13_permutations_exact : forall (T : Type) (xs p : list T), In p (sl_permutations xs) <-> Permutation p xs.
Proof. exact permutations_exact. Qed.
Print Assumptions C13_permutations_exact.

(* "filter-like functions return the same sequence kind they were given": for the interpreter
   [run] the implementation is compared with, filter / reject / take (predicate) / sort (comparator)
   / reverse / unique on a string, vector, bytes or list give the same kind back (dictionaries and
   streams give lists) and the elements are the one-liner applied to the argument's elements *)
Theorem C13_filter_like_same_kind : forall c g x r, filter_like c = Some g -> run c [x] = Some r ->
  same_kind x r /\ exists l, elems x = Some l /\ elems r = Some (g l).
Proof. exact filter_like_same_kind. Qed.
Print Assumptions C13_filter_like_same_kind.

(* non-vacuity: the hypotheses are met by ordinary data and the functions compute *)
Example C13_nonvacuous :
  sl_sort Nat.leb [3; 1; 2; 1] = [1; 1; 2; 3] /\
  sl_sort (fun a b => Nat.leb (fst a) (fst b)) [(2, 0); (1, 1); (2, 2); (1, 3)] = [(1, 1); (1, 3); (2, 0); (2, 2)] /\
  sl_unique Nat.eqb [3; 1; 3; 2; 1] = [3; 1; 2] /\
  sl_partition Nat.even [1; 2; 3; 4] = ([2; 4], [1; 3]) /\
  sl_scan Nat.add [1; 2; 3] = [1; 3; 6] /\ sl_fold Nat.add [1; 2; 3] = Some 6 /\
  sl_window 2 [1; 2; 3] = Some [[1; 2]; [2; 3]] /\ sl_group 2 [1; 2; 3] = Some [[1; 2]; [3]] /\
  sl_group_strict 2 [1; 2; 3] = None /\ sl_group_by Nat.leb [1; 2; 1; 3] = [[1; 2]; [1; 3]] /\
  sl_transpose (sl_transpose [[1; 2; 3]; [4; 5; 6]]) = [[1; 2; 3]; [4; 5; 6]] /\
  sl_split Nat.eqb [0] (sl_join [0] [[1]; []; [2; 3]]) = Some [[1]; []; [2; 3]] /\
  sl_permutations [7; 8; 9] = map (map (fun i => nth i [7; 8; 9] 0)) (filter nodupb (sl_cartesian_power (seq 0 3) 3)) /\
  sl_combinations [7; 8; 9] 2 = [[7; 8]; [7; 9]; [8; 9]] /\
  nth 5 (sl_subsequences [7; 8; 9]) [] = [7; 9] /\ mask_select (bits 3 5) [7; 8; 9] = [7; 9] /\
  sl_transpose [[1; 2; 3]; [4]; []; [5; 6]] = [[1; 4; 5]; [2; 6]; [3]] /\
  sl_ziplongest_with Nat.add [[1; 2; 3]; [10]] = [11; 2; 3] /\ sl_zip_with Nat.add [1; 2; 3] [10; 20] = [11; 22] /\
  sl_words (Nat.eqb 0) [0; 1; 2; 0; 0; 3; 0] = [[1; 2]; [3]] /\
  sl_splitn Nat.eqb [0] 2 [1; 0; 2; 0; 3] = Some [[1]; [2; 0; 3]] /\
  sl_lines Nat.eqb 0 [1; 13; 0; 2; 13; 0] = [[1; 13]; [2; 13]] /\ sl_lines Nat.eqb 0 [1; 0; 0] = [[1]; []] /\
  sl_extremum (fun b r => negb (Nat.leb r b)) [3; 1; 2; 1] = Some 1 /\
  sl_locate Nat.even [1; 3; 4; 6] = Some 2 /\ sl_take_while Nat.odd [1; 3; 4; 5] = [1; 3] /\
  filter_like (CFilter FEqA) = Some (sl_filter (pred FEqA)) /\
  run (CFilter FEqA) [VStr [97; 98; 97]%N] = Some (VStr [97; 97]%N) /\
  run CUnique [VSeq SVec [VInt 1%Z; VFlt 1%Z; VInt 2%Z]] = Some (VSeq SVec [VInt 1%Z; VInt 2%Z]).
Proof. repeat split. Qed.
