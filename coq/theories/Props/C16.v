(* C16 - text and byte codecs round-trip, conversions are exact, the rendering of an integer does
   not depend on its representation.  Only statements here; every proof is `exact <lemma>` into
   Text/*_proofs.v.  Models: Text/{CodecChars,IntText,Radix,Decimal,Hex,Utf8,IntFmt}.v
   (transcriptions of src/decimal.rs, src/lib.rs str_radix/int_radix/hex_*/utf8_*/chr/ord,
   src/nint.rs Display/Binary/Octal/LowerHex/UpperHex, num-bigint's FromStr); vocabulary of the
   statements: Text/CodecSpec.v (positional value with explicit powers, digit alphabet table,
   decimal texts as records with the rational they spell).  Strings are lists of code points,
   byte strings lists of N, BigInt is Z, Ratio<BigInt> is Q in lowest terms. *)
From Coq Require Import ZArith NArith QArith List Bool Lia.
From NV Require Import Common.Outcome Text.CodecChars Text.IntText Text.Radix Text.Decimal Text.Hex Text.Utf8
  Text.IntFmt Text.CodecSpec Text.IntText_proofs Text.Radix_proofs Text.Decimal_proofs Text.Hex_proofs
  Text.Utf8_proofs Text.IntFmt_proofs Text.CodecDefects.
Import ListNotations.
Open Scope Z_scope.

(* int(str(n)) == n for every integer: num-bigint's FromStr inverts Display *)
Theorem C16_int_str_roundtrip : forall n : Z, int_of_str (show_int n) = Ok n.
Proof. exact int_str_roundtrip. Qed.
Print Assumptions C16_int_str_roundtrip.

(* number(str(n)) == n: the integer reading wins whatever the float parser would say *)
Theorem C16_number_str_roundtrip : forall (F : Type) (parse_f64 : str -> option F) (n : Z),
  number_of_str F parse_f64 (show_int n) = Ok (inl n).
Proof. exact number_str_roundtrip. Qed.
Print Assumptions C16_number_str_roundtrip.

(* str(n) is an optional minus sign and the canonical decimal digits of |n| *)
Theorem C16_show_int_positional : forall n : Z,
  exists ds, canonical_digits 10 ds /\ pos_value 10 ds = Z.abs n /\
             show_int n = signed_text n (map digit_symbol ds).
Proof. exact show_int_positional. Qed.
Print Assumptions C16_show_int_positional.

(* int(s) reads every optional-sign digit text (leading zeros allowed) as its value *)
Theorem C16_int_of_str_exact : forall (s : sign) (ds : list Z), ds <> [] -> digits_ok 10 ds ->
  int_of_str (sign_text s ++ map digit_symbol ds) = Ok (sign_z s (pos_value 10 ds)).
Proof. exact int_of_str_exact. Qed.
Print Assumptions C16_int_of_str_exact.

(* '_' separators after any digit are ignored (num-bigint): int("1_000") = 1000 *)
Theorem C16_int_of_str_underscores : forall (s : sign) (ds : list Z) (us : list nat), ds <> [] -> digits_ok 10 ds ->
  int_of_str (sign_text s ++ underscored ds us) = Ok (sign_z s (pos_value 10 ds)).
Proof. exact int_of_str_underscores. Qed.
Print Assumptions C16_int_of_str_underscores.

(* int_radix(str_radix(n, b), b) == n for n >= 0 and every base 2..36 *)
Theorem C16_radix_roundtrip : forall n b : Z, 0 <= n -> 2 <= b <= 36 ->
  exists s, str_radix n b = Ok s /\ int_radix s b = Ok n.
Proof. exact radix_roundtrip. Qed.
Print Assumptions C16_radix_roundtrip.

(* str_radix is positional notation: '-' for negatives, canonical base-b digits of |n|, "0" for zero *)
Theorem C16_str_radix_positional : forall n b : Z, 2 <= b <= 36 ->
  exists ds, canonical_digits b ds /\ pos_value b ds = Z.abs n /\
             str_radix n b = Ok (signed_text n (map digit_symbol ds)).
Proof. exact str_radix_positional. Qed.
Print Assumptions C16_str_radix_positional.

(* int_radix evaluates any digit text of the base, lower or upper case, leading zeros allowed *)
Theorem C16_int_radix_positional : forall (b : Z) (ds : list Z), 2 <= b <= 36 -> digits_ok b ds ->
  int_radix (map digit_symbol ds) b = Ok (pos_value b ds) /\
  int_radix (map digit_symbol_upper ds) b = Ok (pos_value b ds).
Proof. exact int_radix_positional. Qed.
Print Assumptions C16_int_radix_positional.

(* a character that is not a digit of the base is a value error *)
Theorem C16_int_radix_rejects : forall (s : str) (b : Z), 2 <= b <= 36 ->
  Exists (fun c => to_digit c b = None) s -> int_radix s b = Err EValue.
Proof. exact int_radix_rejects. Qed.
Print Assumptions C16_int_radix_rejects.

(* neither function panics or loops, for any integer, text and base; bases outside 2..36 are value errors *)
Theorem C16_radix_total : forall (n : Z) (s : str) (b : Z),
  (str_radix n b <> Panic /\ str_radix n b <> OutOfFuel) /\
  (int_radix s b <> Panic /\ int_radix s b <> OutOfFuel) /\
  (~ 2 <= b <= 36 -> str_radix n b = Err EValue /\ int_radix s b = Err EValue).
Proof. exact radix_total. Qed.
Print Assumptions C16_radix_total.

(* a rendered (sign, integer digits, fraction digits, exponent) reads as exactly the rational it spells,
   sign included, in lowest terms; if the 32-bit exponent arithmetic cannot hold it, a value error *)
Theorem C16_decimal_exact : forall d : dec, wf_dec d ->
  (exp_fits d -> exists q, parse_decimal_exactly (render_dec d) = Ok q /\ (q == dec_value d)%Q /\ Qred q = q) /\
  (~ exp_fits d -> parse_decimal_exactly (render_dec d) = Err EValue).
Proof. exact decimal_exact. Qed.
Print Assumptions C16_decimal_exact.

(* the value spelled is mantissa * 10^scale with the standard rational power *)
Theorem C16_dec_value_scientific : forall d : dec,
  (dec_value d == inject_Z (dec_mantissa d) * Qpower (10 # 1) (dec_scale d))%Q.
Proof. exact dec_value_scientific. Qed.
Print Assumptions C16_dec_value_scientific.

(* rational(s) for one decimal with white space around it *)
Theorem C16_rational_exact_decimal : forall (d : dec) (ws1 ws2 : str), wf_dec d ->
  all_ws is_whitespace ws1 -> all_ws is_whitespace ws2 ->
  (exp_fits d -> exists q, parse_rational_exactly (ws1 ++ render_dec d ++ ws2) = Ok q /\
                           (q == dec_value d)%Q /\ Qred q = q) /\
  (~ exp_fits d -> parse_rational_exactly (ws1 ++ render_dec d ++ ws2) = Err EValue).
Proof. exact rational_exact_decimal. Qed.
Print Assumptions C16_rational_exact_decimal.

(* rational(s) for p / q, both sides any decimal, white space anywhere around them *)
Theorem C16_rational_exact_fraction : forall (p q : dec) (ws1 ws2 ws3 ws4 : str), wf_dec p -> wf_dec q ->
  exp_fits p -> exp_fits q ->
  all_ws is_whitespace ws1 -> all_ws is_whitespace ws2 -> all_ws is_whitespace ws3 -> all_ws is_whitespace ws4 ->
  let s := ws1 ++ render_dec p ++ ws2 ++ [47%N] ++ ws3 ++ render_dec q ++ ws4 in
  ((dec_value q == 0)%Q -> parse_rational_exactly s = Err EValue) /\
  (~ (dec_value q == 0)%Q ->
   exists r, parse_rational_exactly s = Ok r /\ (r == dec_value p / dec_value q)%Q /\ Qred r = r).
Proof. exact rational_exact_fraction. Qed.
Print Assumptions C16_rational_exact_fraction.

(* no text whatsoever makes the parser panic (exponents at the ends of the i32 range included) *)
Theorem C16_decimal_parse_no_panic : forall s : str,
  parse_rational_exactly s <> Panic /\ parse_rational_exactly s <> OutOfFuel /\
  parse_decimal_exactly s <> Panic /\ parse_decimal_exactly s <> OutOfFuel.
Proof. exact decimal_parse_no_panic. Qed.
Print Assumptions C16_decimal_parse_no_panic.

(* hex_decode(hex_encode(b)) == b for every byte string *)
Theorem C16_hex_roundtrip : forall bs : list N, Forall (fun b => (b < 256)%N) bs -> hex_decode (hex_encode bs) = Ok bs.
Proof. exact hex_roundtrip. Qed.
Print Assumptions C16_hex_roundtrip.

(* hex_decode accepts exactly the even-length texts of hex digits; anything else is a value error, not a panic *)
Theorem C16_hex_decode_rejects : forall bs : list N,
  (Nat.even (length bs) = true /\ Forall is_hexdigit bs ->
     exists out, hex_decode bs = Ok out /\ Forall (fun b => (b < 256)%N) out /\ length bs = (2 * length out)%nat) /\
  (~ (Nat.even (length bs) = true /\ Forall is_hexdigit bs) -> hex_decode bs = Err EValue).
Proof. exact hex_decode_rejects. Qed.
Print Assumptions C16_hex_decode_rejects.

Theorem C16_hex_decode_case_insensitive : forall bs : list N, hex_decode (map hex_lower bs) = hex_decode bs.
Proof. exact hex_decode_case_insensitive. Qed.
Print Assumptions C16_hex_decode_case_insensitive.

(* utf8_decode(utf8_encode(s)) == s for every string (list of Unicode scalar values) *)
Theorem C16_utf8_roundtrip : forall s : str, Forall scalar s -> utf8_decode (utf8_encode s) = Ok s.
Proof. exact utf8_roundtrip. Qed.
Print Assumptions C16_utf8_roundtrip.

(* utf8_decode succeeds only on well-formed UTF-8: what it returns is a string of scalar values whose encoding
   is the input - overlong forms, surrogates, values above U+10FFFF, stray/missing continuation bytes are rejected *)
Theorem C16_utf8_decode_sound : forall (bs : list N) (s : str), utf8_decode bs = Ok s ->
  Forall scalar s /\ utf8_encode s = bs.
Proof. exact utf8_decode_sound. Qed.
Print Assumptions C16_utf8_decode_sound.

(* and it is total: a string or a value error, never a panic *)
Theorem C16_utf8_decode_total : forall bs : list N,
  (exists s, utf8_decode bs = Ok s) \/ utf8_decode bs = Err EValue.
Proof. exact utf8_decode_total. Qed.
Print Assumptions C16_utf8_decode_total.

Theorem C16_utf8_encode_bytes : forall s : str, Forall scalar s -> Forall (fun b => (b < 256)%N) (utf8_encode s).
Proof. exact utf8_encode_bytes. Qed.
Print Assumptions C16_utf8_encode_bytes.

(* hex_encode writes two lower-case hex digits per byte *)
Theorem C16_hex_encode_digits : forall bs : list N, Forall (fun b => (b < 256)%N) bs ->
  length (hex_encode bs) = (2 * length bs)%nat /\ Forall is_hexdigit (hex_encode bs).
Proof. exact hex_encode_digits. Qed.
Print Assumptions C16_hex_encode_digits.

(* chr and ord are inverse on scalar values; chr of anything else is a value error *)
Theorem C16_chr_ord_inverse : forall c : N, scalar c ->
  chr (Z.of_N c) = Ok [c] /\ ord [c] = Ok (Z.of_N c).
Proof. exact chr_ord_inverse. Qed.
Print Assumptions C16_chr_ord_inverse.

Theorem C16_ord_chr_inverse : forall (s : str) (n : Z), ord s = Ok n -> Forall scalar s -> chr n = Ok s.
Proof. exact ord_chr_inverse. Qed.
Print Assumptions C16_ord_chr_inverse.

Theorem C16_chr_total : forall n : Z,
  (exists c, scalar c /\ n = Z.of_N c /\ chr n = Ok [c]) \/
  (chr n = Err EValue /\ forall c, scalar c -> n <> Z.of_N c).
Proof. exact chr_total. Qed.
Print Assumptions C16_chr_total.

(* printing in base 2/8/10/16 depends only on the value, never on Small/Big *)
Theorem C16_render_repr_indep : forall (f : fmt_base) (x y : nint),
  nint_ok x -> nint_ok y -> nint_val x = nint_val y -> fmt_nint f x = fmt_nint f y.
Proof. exact render_repr_indep. Qed.
Print Assumptions C16_render_repr_indep.

(* and what is printed is a minus sign for negatives followed by the canonical digits of |n| *)
Theorem C16_fmt_nint_positional : forall (f : fmt_base) (x : nint), nint_ok x ->
  exists ds, canonical_digits (base_of f) ds /\ pos_value (base_of f) ds = Z.abs (nint_val x) /\
    fmt_nint f x = signed_text (nint_val x)
                     (map (match f with UpperHex => digit_symbol_upper | _ => digit_symbol end) ds).
Proof. exact fmt_nint_positional. Qed.
Print Assumptions C16_fmt_nint_positional.

(* non-vacuity: the hypotheses are met by ordinary data and the functions compute
   (-12.75e1 = -255/2; " 3 / -0.4 " = -15/2; str_radix(-255,16) = "-ff"; "€" = E2 82 AC) *)
Example C16_nonvacuous :
  let d := {| d_sign := SMinus; d_int := [1; 2]; d_frac := Some [7; 5]; d_exp := Some (false, SNone, [1]) |} in
  let q := {| d_sign := SMinus; d_int := [0]; d_frac := Some [4]; d_exp := None |} in
  let p := {| d_sign := SNone; d_int := [3]; d_frac := None; d_exp := None |} in
  wf_dec d /\ exp_fits d /\ render_dec d = [45; 49; 50; 46; 55; 53; 101; 49]%N /\
  parse_rational_exactly (render_dec d) = Ok (-255 # 2)%Q /\ (dec_value d == -255 # 2)%Q /\
  wf_dec p /\ wf_dec q /\ exp_fits p /\ exp_fits q /\ ~ (dec_value q == 0)%Q /\
  parse_rational_exactly ([32] ++ render_dec p ++ [32] ++ [47] ++ [32] ++ render_dec q ++ [32])%N = Ok (-15 # 2)%Q /\
  parse_rational_exactly [48; 46; 53; 101; 45; 50; 49; 52; 55; 52; 56; 51; 54; 52; 56]%N = Err EValue /\
  str_radix (-255) 16 = Ok [45; 102; 102]%N /\ str_radix 0 2 = Ok [48]%N /\ int_radix [102; 70]%N 16 = Ok 255 /\
  int_of_str (show_int (- 2 ^ 70)) = Ok (- 2 ^ 70) /\
  hex_decode (hex_encode [0; 255; 16]%N) = Ok [0; 255; 16]%N /\ hex_decode [48; 103]%N = Err EValue /\
  scalar 8364 /\ utf8_encode [8364]%N = [226; 130; 172]%N /\ utf8_decode [226; 130; 172]%N = Ok [8364]%N /\
  utf8_decode [237; 160; 128]%N = Err EValue /\
  nint_ok (Small (-3)) /\ nint_ok (Big (-3)) /\ fmt_nint LowerHex (Small (-3)) = [45; 51]%N /\
  fmt_nint LowerHex (Big (-3)) = [45; 51]%N.
Proof.
  cbv zeta. unfold wf_dec, exp_fits, i32_ok, digits_ok, scalar, nint_ok, MachineInt.in_i64.
  repeat match goal with |- _ /\ _ => split end; try (vm_compute; reflexivity); try (vm_compute; discriminate);
    try (repeat constructor; vm_compute; congruence); try (cbn; intuition (try discriminate; try lia)).
Qed.
