(* C01: statements under a frame G (handles held by an enclosing for-loop: the iterated payload, the
   saved outer `it`, the elements not yet bound), and the for-loop itself. *)
From Coq Require Import ZArith List Bool Arith Lia.
From NV Require Import Rc.ValueSem Rc.Heap Rc.Cow Rc.Heap_proofs Rc.Cow_proofs.
Import ListNotations.
Local Open Scope nat_scope.

Lemma incl_app_mid {A} (a b g : list A) : incl (a ++ g) (a ++ b ++ g).
Proof. intros x Hx. apply in_app_or in Hx. apply in_or_app. destruct Hx; [left; auto | right; apply in_or_app; right; auto]. Qed.

Definition stmt_post (G : list loc) (h : heap) (sg' : state) (st' : mstate) : Prop :=
  Inv (mheap st') (handles_list (roots st') ++ G) /\ Sim st' sg' /\
  (forall u t, incl (handles u) G -> repr h u t -> repr (mheap st') u t).

Lemma roots_keep G h rs sg hh :
  repr_list h rs sg ->
  Step h (handles_list rs) G hh (handles_list rs) ->
  (forall w t, incl (handles w) (handles_list rs ++ G) -> repr h w t -> repr hh w t) ->
  stmt_post G h sg (mkst hh rs).
Proof.
  intros Hrs S K. split; [apply S|]. split.
  - unfold Sim. simpl. apply repr_list_as_inst. apply K.
    rewrite handles_inst. apply incl_appl, incl_refl. apply repr_list_as_inst; auto.
  - intros u t Iu Hu. apply K; auto. apply incl_appr. auto.
Qed.

Lemma repr_list_keep h hh rs sg G :
  (forall w t, incl (handles w) (handles_list rs ++ G) -> repr h w t -> repr hh w t) ->
  repr_list h rs sg -> repr_list hh rs sg.
Proof.
  intros K Hrs. apply repr_list_as_inst. apply K. rewrite handles_inst. apply incl_appl, incl_refl.
  apply repr_list_as_inst; auto.
Qed.

(* x[p] = e   and   every x[p] = e *)
Lemma exec_assign_g every x p e : efrag e = true -> (every = false -> noslice p = true) ->
  forall h rs sg st' ok G,
  Inv h (handles_list rs ++ G) -> repr_list h rs sg ->
  (match m_eval rs h e with
   | (h1, Some w) => m_assign_to (mkst h1 rs) every x p w
   | (h1, None) => (mkst h1 rs, false)
   end) = (st', ok) ->
  exists sg', (match eval sg e with Some w => assign_to sg every x p w | None => (sg, false) end) = (sg', ok) /\
              stmt_post G h sg' st'.
Proof.
  intros FE _ h rs sg st' ok G I Hs E.
  destruct (m_eval rs h e) as [h1 [w|]] eqn:EE.
  - destruct (m_eval_ok e FE rs h G sg h1 (Some w) I Hs EE) as [[tw [Ev [Hw S]]] K].
    rewrite Ev.
    pose proof (repr_list_keep _ _ _ _ _ K Hs) as Hrs1.
    assert (I1 : Inv h1 ((handles w ++ handles_list rs) ++ G)) by apply S.
    destruct (m_assign_to_all_g h1 rs sg every x p w tw st' ok G I1 Hrs1 Hw E) as [sg' [Ev2 [I2 [Hs2 K2]]]].
    exists sg'. split; [exact Ev2|]. split; [exact I2|]. split; [exact Hs2|].
    intros u t Iu Hu. apply K2; auto. apply K; auto. apply incl_appr. auto.
  - destruct (m_eval_ok e FE rs h G sg h1 None I Hs EE) as [[Ev S] K].
    rewrite Ev. inversion E; subst; clear E. eexists; split; [reflexivity|]. apply roots_keep; auto.
Qed.

(* [y[q] =] pop | remove | consume x[..] *)
Lemma exec_mod_g dst x m : is_modlop m = true ->
  forall h rs sg st' ok G,
  Inv h (handles_list rs ++ G) -> repr_list h rs sg ->
  m_exec_s (mkst h rs) (SMod dst x m) = (st', ok) ->
  exists sg', exec_s sg (SMod dst x m) = (sg', ok) /\ stmt_post G h sg' st'.
Proof.
  intros HM h rs sg st' ok G I Hrs E. simpl in E. simpl.
  destruct (nth_error rs x) as [cur|] eqn:Ex.
  2: { inversion E; subst. rewrite (repr_list_nth_none _ _ _ _ Hrs Ex). eexists; split; [reflexivity|].
       split; [auto|]. split; [auto|]. auto. }
  destruct (repr_list_nth _ _ _ _ _ Hrs Ex) as [tcur [Htc Hcur]]. rewrite Htc.
  destruct (m_lop m h cur) as [[h1 cur'] r] eqn:EL.
  assert (I0 : Inv h (handles cur ++ handles_list (set_root rs x HNull) ++ G)).
  { eapply Inv_equiv; [|exact I]. intro l. pose proof (roots_split x rs cur Ex l). revert H. occ_tac. }
  pose proof (m_lop_mod_ok m HM h cur tcur _ h1 cur' r I0 Hcur EL) as [Hr' Hres].
  destruct (lop_apply m tcur) as [t' tr] eqn:EV. simpl in Hr', Hres.
  destruct r as [res|]; destruct tr as [tres|]; try contradiction.
  - destruct Hres as [Hrres S].
    destruct (root_update_g h rs sg x cur h1 cur' t' _ (handles res) G Ex Hrs S Hr') as [I1 [Hrs1 K1]].
    destruct dst as [[y q]|].
    + destruct (m_assign_to_all_g h1 (set_root rs x cur') (set_var sg x t') false y q res tres st' ok G I1 Hrs1 Hrres E)
        as [sg' [Ev2 [I2 [Hs2 K2]]]].
      exists sg'. split; [exact Ev2|]. split; [exact I2|]. split; [exact Hs2|].
      intros u t Iu Hu. apply K2; auto.
    + inversion E; subst; clear E.
      destruct (drop_val_keep h1 res (handles_list (set_root rs x cur')) G I1) as [S2 K2].
      eexists; split; [reflexivity|]. split; [apply S2|]. split.
      * unfold Sim. simpl. eapply repr_list_keep; eauto.
      * intros u t Iu Hu. apply K2. apply incl_appr; auto. apply K1; auto.
  - inversion E; subst; clear E.
    assert (S' : Step h (handles cur) (handles_list (set_root rs x HNull) ++ G) h1 ([] ++ handles cur')) by exact Hres.
    destruct (root_update_g h rs sg x cur h1 cur' t' _ [] G Ex Hrs S' Hr') as [I1 [Hrs1 K1]].
    eexists; split; [reflexivity|]. split; [exact I1|]. split; [exact Hrs1|]. exact K1.
Qed.

(* x[p] f= e *)
Lemma exec_op_g x p f e : noslice p = true -> bfrag f = true -> efrag e = true ->
  forall h rs sg st' ok G,
  Inv h (handles_list rs ++ G) -> repr_list h rs sg ->
  m_exec_s (mkst h rs) (SOp x p f e) = (st', ok) ->
  exists sg', exec_s sg (SOp x p f e) = (sg', ok) /\ stmt_post G h sg' st'.
Proof.
  intros NS BF FE h rs sg st' ok G I Hrs E. simpl in E. simpl.
  destruct (nth_error rs x) as [cur|] eqn:Ex.
  2: { inversion E; subst. rewrite (repr_list_nth_none _ _ _ _ Hrs Ex). eexists; split; [reflexivity|].
       split; [exact I|]. split; [exact Hrs|]. auto. }
  destruct (repr_list_nth _ _ _ _ _ Hrs Ex) as [tcur [Htc Hcur]]. rewrite Htc.
  assert (Icur : incl (handles cur) (handles_list rs ++ handles_heap h)) by (apply incl_appl; eapply handles_list_nth; eauto).
  destruct (m_read h cur p) as [h1 [old|]] eqn:ER.
  2: { destruct (m_read_ok h cur tcur p (handles_list rs) G h1 None I Icur Hcur ER) as [[Hg S1] K1].
       inversion E; subst. rewrite Hg. eexists; split; [reflexivity|]. apply roots_keep; auto. }
  destruct (m_read_ok h cur tcur p (handles_list rs) G h1 (Some old) I Icur Hcur ER) as [[told [Hg [Hold S1]]] K1].
  rewrite Hg.
  pose proof (repr_list_keep _ _ _ _ _ K1 Hrs) as Hrs1.
  assert (I1 : Inv h1 (handles_list rs ++ handles old ++ G)).
  { eapply Inv_equiv; [|apply S1]. occ_tac. }
  assert (K1G : forall u t, incl (handles u) G -> repr h u t -> repr h1 u t).
  { intros u t Iu Hu. apply K1; auto. apply incl_appr; auto. }
  destruct (m_eval rs h1 e) as [h2 [w|]] eqn:EE.
  2: { destruct (m_eval_ok e FE rs h1 (handles old ++ G) sg h2 None I1 Hrs1 EE) as [[Ev S2] K2].
       rewrite Ev. inversion E; subst; clear E.
       assert (I2 : Inv h2 ((handles old ++ handles_list rs) ++ G)).
       { eapply Inv_equiv; [|apply S2]. occ_tac. }
       destruct (drop_val_keep h2 old (handles_list rs) G I2) as [S3 K3].
       eexists; split; [reflexivity|]. split; [apply S3|]. split.
       - unfold Sim. simpl. eapply repr_list_keep; [exact K3|].
         eapply repr_list_keep; [|exact Hrs1]. intros u t Iu Hu. apply K2; auto.
         eapply incl_tran; [exact Iu | apply incl_app_mid].
       - intros u t Iu Hu. apply K3. apply incl_appr; auto. apply K2. apply incl_appr, incl_appr; auto. apply K1G; auto. }
  destruct (m_eval_ok e FE rs h1 (handles old ++ G) sg h2 (Some w) I1 Hrs1 EE) as [[tw [Ev [Hw S2]]] K2].
  rewrite Ev.
  assert (Hrs2 : repr_list h2 rs sg).
  { eapply repr_list_keep; [|exact Hrs1]. intros u t Iu Hu. apply K2; auto. eapply incl_tran; [exact Iu | apply incl_app_mid]. }
  assert (Hold2 : repr h2 old told) by (apply K2; auto; apply incl_appr, incl_appl, incl_refl).
  assert (K2G : forall u t, incl (handles u) G -> repr h1 u t -> repr h2 u t).
  { intros u t Iu Hu. apply K2; auto. apply incl_appr, incl_appr; auto. }
  destruct (m_opassign p f h2 cur old w) as [[h3 cur'] ok1] eqn:EO. inversion E; subst; clear E.
  set (others := handles_list (set_root rs x HNull)).
  assert (I2 : Inv h2 ((handles cur ++ handles old ++ handles w) ++ others ++ G)).
  { eapply Inv_equiv; [|apply S2]. intro l. pose proof (roots_split x rs cur Ex l). fold others in H. revert H. occ_tac. }
  assert (Hcur2 : repr h2 cur tcur).
  { destruct (repr_list_nth _ _ _ _ _ Hrs2 Ex) as [tc2 [Htc2 Hc2]]. rewrite Htc in Htc2. inversion Htc2; subst. auto. }
  destruct (m_opassign_ok p f NS BF h2 cur tcur old told w tw _ h3 cur' ok I2 Hcur2 Hold2 Hw Hg EO)
    as [t' [Ev2 [Hr' S3]]].
  rewrite Ev2. eexists; split; [reflexivity|].
  assert (S3' : Step h2 (handles cur ++ handles old ++ handles w) (handles_list (set_root rs x HNull) ++ G) h3 ([] ++ handles cur')) by exact S3.
  destruct (root_update_g h2 rs sg x cur h3 cur' t' _ [] G Ex Hrs2 S3' Hr') as [I3 [Hrs3 K3]].
  split; [exact I3|]. split; [exact Hrs3|]. intros u t Iu Hu. apply K3; auto.
Qed.

(* swap x[p], y[q] *)
Lemma exec_swap_g x p y q : noslice p = true -> noslice q = true ->
  forall h rs sg st' ok G,
  Inv h (handles_list rs ++ G) -> repr_list h rs sg ->
  m_exec_s (mkst h rs) (SSwap x p y q) = (st', ok) ->
  exists sg', exec_s sg (SSwap x p y q) = (sg', ok) /\ stmt_post G h sg' st'.
Proof.
  intros NP NQ h rs sg st' ok G I Hrs E. simpl in E.
  assert (SPEC : exec_s sg (SSwap x p y q) =
                 match (match nth_error sg x with Some v => v_get v p | None => None end),
                       (match nth_error sg y with Some v => v_get v q | None => None end) with
                 | Some a, Some b => let (st1, ok1) := assign_to sg false x p b in
                                     if ok1 then assign_to st1 false y q a else (st1, false)
                 | _, _ => (sg, false)
                 end) by reflexivity.
  rewrite SPEC. clear SPEC.
  destruct (nth_error rs x) as [vx|] eqn:Ex.
  2: { inversion E; subst. rewrite (repr_list_nth_none _ _ _ _ Hrs Ex). eexists; split; [reflexivity|].
       split; [exact I|]. split; [exact Hrs|]. auto. }
  destruct (repr_list_nth _ _ _ _ _ Hrs Ex) as [tx [Htx Hvx]]. rewrite Htx.
  assert (Ivx : incl (handles vx) (handles_list rs ++ handles_heap h)) by (apply incl_appl; eapply handles_list_nth; eauto).
  assert (DROPA : forall hh a, Inv hh ((handles a ++ handles_list rs) ++ G) -> repr_list hh rs sg ->
                  (forall u t, incl (handles u) G -> repr h u t -> repr hh u t) ->
                  stmt_post G h sg (mkst (drop_val hh a) rs)).
  { intros hh a Ia Hh Kh. destruct (drop_val_keep hh a (handles_list rs) G Ia) as [S K].
    split; [apply S|]. split.
    - unfold Sim. simpl. eapply repr_list_keep; eauto.
    - intros u t Iu Hu. apply K. apply incl_appr; auto. apply Kh; auto. }
  destruct (nth_error rs y) as [vy|] eqn:Ey.
  2: { rewrite (repr_list_nth_none _ _ _ _ Hrs Ey).
       destruct (m_read h vx p) as [h1 [a|]] eqn:ER.
       - destruct (m_read_ok h vx tx p (handles_list rs) G h1 (Some a) I Ivx Hvx ER) as [[ta [Hg [Ha S1]]] K1].
         rewrite Hg. inversion E; subst; clear E. eexists; split; [reflexivity|].
         apply DROPA. apply S1. eapply repr_list_keep; eauto.
         intros u t Iu Hu. apply K1; auto. apply incl_appr; auto.
       - destruct (m_read_ok h vx tx p (handles_list rs) G h1 None I Ivx Hvx ER) as [[Hg S1] K1].
         rewrite Hg. inversion E; subst; clear E. eexists; split; [reflexivity|]. apply roots_keep; auto. }
  destruct (repr_list_nth _ _ _ _ _ Hrs Ey) as [ty [Hty Hvy]]. rewrite Hty.
  destruct (m_read h vx p) as [h1 [a|]] eqn:ER.
  2: { destruct (m_read_ok h vx tx p (handles_list rs) G h1 None I Ivx Hvx ER) as [[Hg S1] K1].
       rewrite Hg. inversion E; subst; clear E. eexists; split; [reflexivity|]. apply roots_keep; auto. }
  destruct (m_read_ok h vx tx p (handles_list rs) G h1 (Some a) I Ivx Hvx ER) as [[ta [Hg [Ha S1]]] K1].
  rewrite Hg.
  pose proof (repr_list_keep _ _ _ _ _ K1 Hrs) as Hrs1.
  assert (K1G : forall u t, incl (handles u) G -> repr h u t -> repr h1 u t).
  { intros u t Iu Hu. apply K1; auto. apply incl_appr; auto. }
  assert (I1 : Inv h1 (handles_list rs ++ handles a ++ G)).
  { eapply Inv_equiv; [|apply S1]. occ_tac. }
  assert (Hvy1 : repr h1 vy ty).
  { destruct (repr_list_nth _ _ _ _ _ Hrs1 Ey) as [t2 [Ht2 Hv2]]. rewrite Hty in Ht2. inversion Ht2; subst. auto. }
  assert (Ivy : incl (handles vy) (handles_list rs ++ handles_heap h1)) by (apply incl_appl; eapply handles_list_nth; eauto).
  destruct (m_read h1 vy q) as [h2 [b|]] eqn:ER2.
  2: { destruct (m_read_ok h1 vy ty q (handles_list rs) (handles a ++ G) h2 None I1 Ivy Hvy1 ER2) as [[Hg2 S2] K2].
       rewrite Hg2. inversion E; subst; clear E. eexists; split; [reflexivity|].
       apply DROPA.
       - eapply Inv_equiv; [|apply S2]. occ_tac.
       - eapply repr_list_keep; [|exact Hrs1]. intros u t Iu Hu. apply K2; auto. eapply incl_tran; [exact Iu | apply incl_app_mid].
       - intros u t Iu Hu. apply K2. apply incl_appr, incl_appr; auto. apply K1G; auto. }
  destruct (m_read_ok h1 vy ty q (handles_list rs) (handles a ++ G) h2 (Some b) I1 Ivy Hvy1 ER2) as [[tb [Hg2 [Hb S2]]] K2].
  rewrite Hg2.
  assert (Hrs2 : repr_list h2 rs sg).
  { eapply repr_list_keep; [|exact Hrs1]. intros u t Iu Hu. apply K2; auto. eapply incl_tran; [exact Iu | apply incl_app_mid]. }
  assert (Ha2 : repr h2 a ta) by (apply K2; auto; apply incl_appr, incl_appl, incl_refl).
  assert (K2G : forall u t, incl (handles u) G -> repr h u t -> repr h2 u t).
  { intros u t Iu Hu. apply K2. apply incl_appr, incl_appr; auto. apply K1G; auto. }
  assert (I2 : Inv h2 ((handles b ++ handles_list rs) ++ handles a ++ G)) by apply S2.
  destruct (m_assign_to (mkst h2 rs) false x p b) as [st1 ok1] eqn:EA1.
  destruct (m_assign_to_all_g h2 rs sg false x p b tb st1 ok1 (handles a ++ G) I2 Hrs2 Hb EA1) as [sg1 [Ev1 [I3 [Hs1 K3]]]].
  rewrite Ev1.
  assert (Ha3 : repr (mheap st1) a ta) by (apply K3; auto; apply incl_appl, incl_refl).
  assert (K3G : forall u t, incl (handles u) G -> repr h u t -> repr (mheap st1) u t).
  { intros u t Iu Hu. apply K3. apply incl_appr; auto. apply K2G; auto. }
  destruct st1 as [h3 rs3]. simpl in *.
  destruct ok1.
  - assert (I3' : Inv h3 ((handles a ++ handles_list rs3) ++ G)).
    { eapply Inv_equiv; [|exact I3]. occ_tac. }
    destruct (m_assign_to_all_g h3 rs3 sg1 false y q a ta st' ok G I3' Hs1 Ha3 E) as [sg2 [Ev2 [I4 [Hs2 K4]]]].
    exists sg2. split; [exact Ev2|]. split; [exact I4|]. split; [exact Hs2|].
    intros u t Iu Hu. apply K4; auto.
  - inversion E; subst; clear E.
    assert (I3' : Inv h3 ((handles a ++ handles_list rs3) ++ G)).
    { eapply Inv_equiv; [|exact I3]. occ_tac. }
    destruct (drop_val_keep h3 a (handles_list rs3) G I3') as [S4 K4].
    eexists; split; [reflexivity|]. split; [apply S4|]. split.
    + unfold Sim in *. simpl in *. eapply repr_list_keep; eauto.
    + intros u t Iu Hu. apply K4. apply incl_appr; auto. apply K3G; auto.
Qed.

(* every simple statement of the fragment, under a frame *)
Lemma m_exec_s_g s : sfrag s = true -> forall h rs sg st' ok G,
  Inv h (handles_list rs ++ G) -> repr_list h rs sg ->
  m_exec_s (mkst h rs) s = (st', ok) ->
  exists sg', exec_s sg s = (sg', ok) /\ stmt_post G h sg' st'.
Proof.
  intros FR h rs sg st' ok G I Hs E.
  destruct s; simpl in FR.
  - apply andb_prop in FR. destruct FR as [NS FE]. simpl in E. simpl.
    eapply (exec_assign_g false); eauto.
  - simpl in E. simpl. eapply (exec_assign_g true); eauto. discriminate.
  - apply andb_prop in FR. destruct FR as [FR FE]. apply andb_prop in FR. destruct FR as [NS BF].
    eapply exec_op_g; eauto.
  - apply andb_prop in FR. destruct FR as [HM HD]. eapply exec_mod_g; eauto.
  - apply andb_prop in FR. destruct FR as [NP NQ]. eapply exec_swap_g; eauto.
  - apply andb_prop in FR. destruct FR as [FR HM]. apply andb_prop in FR. destruct FR as [NS BF].
    eapply exec_opmod_g; eauto.
  - apply andb_prop in FR. destruct FR as [FR FE]. apply andb_prop in FR. destruct FR as [NS BF].
    eapply exec_opdef_g; eauto.
  - discriminate.
  - apply andb_prop in FR. destruct FR as [FR FE]. apply andb_prop in FR. destruct FR as [NS BF].
    eapply exec_andop_g; eauto.
Qed.

(* ------------------------------------------------------------------ a loop body *)
Lemma m_exec_list_g body : forallb sfrag body = true -> forall h rs sg st' ok G,
  Inv h (handles_list rs ++ G) -> repr_list h rs sg ->
  m_exec_list (mkst h rs) body = (st', ok) ->
  exists sg', exec_list sg body = (sg', ok) /\ stmt_post G h sg' st'.
Proof.
  induction body as [|s tl IH]; intros FR h rs sg st' ok G I Hs E.
  - simpl in E. inversion E; subst. exists sg. split; auto. split; [exact I|]. split; [exact Hs|]. auto.
  - simpl in FR. apply andb_prop in FR. destruct FR as [F1 F2].
    simpl in E. simpl.
    destruct (m_exec_s (mkst h rs) s) as [st1 ok1] eqn:E1.
    destruct (m_exec_s_g s F1 h rs sg st1 ok1 G I Hs E1) as [sg1 [Ev1 [I1 [Hs1 K1]]]].
    rewrite Ev1. destruct ok1.
    + destruct st1 as [h1 rs1]. simpl in *.
      destruct (IH F2 h1 rs1 sg1 st' ok G I1 Hs1 E) as [sg2 [Ev2 [I2 [Hs2 K2]]]].
      exists sg2. split; auto. split; [exact I2|]. split; [exact Hs2|].
      intros u t Iu Hu. apply K2; auto.
    + inversion E; subst. exists sg1. split; auto. split; [exact I1|]. split; [exact Hs1|]. exact K1.
Qed.

(* ------------------------------------------------------------------ the elements an iterator yields *)
Lemma repr_items_vals h es ts : repr_items h es ts -> repr_list h (map snd es) (map snd ts).
Proof. induction 1; simpl; constructor; auto. Qed.

Lemma handles_list_map_snd es : handles_list (map snd es) = handles_items es.
Proof. unfold handles_list, handles_items. induction es as [|[k e] es IH]; simpl; auto. rewrite IH. reflexivity. Qed.

Definition iter_post (h : heap) (src : hval) (R F : list loc) (tsrc : val) (h2 : heap) (r : option (list hval)) : Prop :=
  match r, iter_vals tsrc with
  | Some es, Some ts => repr_list h2 es ts /\ Step h (handles src ++ R) F h2 (handles_list es ++ handles src ++ R)
  | None, None => Step h (handles src ++ R) F h2 R
  | _, _ => False
  end /\ (forall w t, incl (handles w) (R ++ F) -> repr h w t -> repr h2 w t).

Opaque alloc.
Lemma iter_str_ok : forall items ts h acc R F,
  Inv h ((handles_list acc ++ R) ++ F) -> repr_items h items ts ->
  incl (handles_items items) (R ++ handles_heap h) ->
  forall h2 es,
  fold_left (fun a kv => let '(hh, es) := a in
                         let '(hh1, l') := alloc (clone_val hh (snd kv)) KStr [(nokey, snd kv)] in (hh1, es ++ [HRef l' None]))
            items (h, acc) = (h2, es) ->
  exists new, es = acc ++ new /\
    repr_list h2 new (map (fun kv => VSeq KStr [(nokey, snd kv)] None) ts) /\
    Step h (handles_list acc ++ R) F h2 (handles_list es ++ R) /\
    (forall m, same_body h h2 m).
Proof.
  induction items as [|[k e] items IH]; intros ts h acc R F I Hits Iits h2 es E.
  - inversion Hits; subst. simpl in E. inversion E; subst. exists []. rewrite app_nil_r. split; auto. split; [constructor|].
    split; [apply Step_refl; auto | intro; apply same_body_refl].
  - inversion Hits; subst. simpl in E.
    destruct (alloc (clone_val h e) KStr [(nokey, e)]) as [h1 l'] eqn:EA.
    assert (Ie : incl (handles e) ((handles_list acc ++ R) ++ handles_heap h)).
    { intros x Hx. assert (In x (R ++ handles_heap h)). { apply Iits. unfold handles_items. simpl. apply in_or_app. left; auto. }
      revert H. in_tac. }
    destruct (clone_val_step h (handles_list acc ++ R) F e I Ie) as [S1 [B1 L1]].
    set (hc := clone_val h e) in *.
    assert (I1 : Inv hc ((handles_items [(nokey, e)] ++ handles_list acc ++ R) ++ F)).
    { rewrite handles_items_single. apply S1. }
    destruct (alloc_step' hc (handles_list acc ++ R) F KStr [(nokey, e)] h1 l' EA I1) as [S2 B2].
    assert (I2 : Inv h1 ((handles_list (acc ++ [HRef l' None]) ++ R) ++ F)).
    { eapply Inv_equiv; [|apply S2]. intro x. unfold handles_list. rewrite flat_map_app. simpl. rewrite handles_ref. simpl. occ_tac. }
    assert (B12 : forall m, same_body h h1 m) by (intro m; eapply same_body_trans; [apply B1 | apply B2]).
    assert (Hits1 : repr_items h1 items ts0) by (eapply repr_items_ext; eauto).
    assert (Iits1 : incl (handles_items items) (R ++ handles_heap h1)).
    { intros x Hx. assert (In x (R ++ handles_heap h)). { apply Iits. unfold handles_items. simpl. apply in_or_app. right; auto. }
      apply in_app_or in H. apply in_or_app. destruct H; auto. right.
      apply in_flat_map in H. destruct H as [c [Hc Hx']]. apply In_nth_error in Hc. destruct Hc as [n Hn].
      destruct (B12 n c Hn) as [c' [Hc' [_ Hi]]]. eapply In_handles_heap; eauto. rewrite Hi. auto. }
    destruct (IH ts0 h1 (acc ++ [HRef l' None]) R F I2 Hits1 Iits1 h2 es E) as [new [Enew [Hnew [S3 B3]]]].
    exists (HRef l' None :: new). split; [rewrite Enew, <- app_assoc; reflexivity|]. split; [|split].
    + simpl. constructor; auto. eapply repr_ext; [exact B3|]. eapply alloc_repr; eauto.
      constructor; [|constructor]. eapply repr_ext; eauto.
    + eapply Step_trans; [exact S1|]. rewrite handles_items_single in S2.
      eapply Step_trans; [exact S2|].
      eapply Step_equiv; [| |exact S3]. 
      * apply in_occ_equiv. intro x. unfold handles_list. rewrite flat_map_app. simpl. rewrite handles_ref. simpl. occ_tac.
      * intro; reflexivity.
    + intro m. eapply same_body_trans; [apply B12 | apply B3].
Qed.

Lemma iter_elems_ok h src tsrc R F h2 r :
  Inv h ((handles src ++ R) ++ F) -> repr h src tsrc -> m_iter_elems h src = (h2, r) ->
  iter_post h src R F tsrc h2 r.
Proof.
  intros I Hr E. unfold iter_post.
  assert (FAIL : (h2, r) = (drop_val h src, None) -> iter_vals tsrc = None -> iter_post h src R F tsrc h2 r).
  { intros E1 E2. inversion E1; subst. unfold iter_post. rewrite E2.
    destruct (drop_val_keep h src R F I) as [S K]. split; auto. }
  fold (iter_post h src R F tsrc h2 r).
  destruct src as [| z | l d | sid fs]; simpl in E;
    try (inversion Hr; subst; apply FAIL; [symmetry; exact E | reflexivity]; fail).
  destruct (repr_ref_inv_gen _ _ _ _ Hr) as [c [its [dv [Ht [Hc [Hits Hd]]]]]]. subst tsrc.
    rewrite Hc in E.
    assert (Iits : incl (handles_items (citems c)) ((handles (HRef l d) ++ R) ++ handles_heap h)).
    { apply incl_appr. intros x Hx. eapply In_handles_heap; eauto. }
    destruct (ckind c) eqn:K.
    + (* list: drain a uniquely owned payload, clone out of a shared one *)
      destruct (cnt c =? 1) eqn:C1.
      * apply Nat.eqb_eq in C1. inversion E; subst; clear E.
        rewrite handles_ref in *.
        assert (I' : Inv h ((l :: handles_opt d ++ R) ++ F)) by (eapply Inv_equiv; [|exact I]; occ_tac).
        destruct (inplace_update h l c (handles_opt d ++ R) (handles_items (citems c) ++ handles_opt d ++ R) [] F I' Hc C1)
          as [S2 [Hc2 [T1 [T2 [T3 [N1 [U1 U2]]]]]]].
        { intro x. unfold handles_items at 3. simpl. occ_tac. }
        unfold iter_post. simpl. rewrite ?handles_ref. split.
        -- split.
           ++ apply repr_items_vals. apply T2; auto.
           ++ rewrite handles_list_map_snd. eapply Step_equiv; [| |exact S2]. apply in_occ_equiv; occ_tac. occ_tac.
        -- intros w t Iw Hw. apply T1; auto. intro Hin. apply Iw in Hin. apply in_app_or in Hin.
           apply occ_zero_app in U1. destruct U1 as [_ U1]. destruct Hin as [Hin|Hin]; apply occ_In in Hin; lia.
      * inversion E; subst; clear E.
        destruct (clone_locs_step (handles_items (citems c)) h (handles (HRef l d) ++ R) F I) as [S1 [B1 L1]].
        { intros x Hx. apply Iits. auto. }
        unfold iter_post. simpl. split.
        -- split.
           ++ apply repr_items_vals. eapply repr_items_ext; eauto.
           ++ rewrite handles_list_map_snd. exact S1.
        -- intros w t Iw Hw. eapply repr_ext; eauto.
    + (* dict *) apply FAIL; [symmetry; exact E | reflexivity].
    + (* string: fresh one-character strings *)
      destruct (fold_left (fun acc kv => let '(hh, es) := acc in
                                         let '(hh1, l') := alloc (clone_val hh (snd kv)) KStr [(nokey, snd kv)] in (hh1, es ++ [HRef l' None]))
                          (citems c) (h, [])) as [h1 es] eqn:EF.
      inversion E; subst; clear E.
      assert (I0 : Inv h ((handles_list [] ++ handles (HRef l d) ++ R) ++ F)) by (simpl; auto).
      destruct (iter_str_ok (citems c) its h [] (handles (HRef l d) ++ R) F I0 Hits) with (h2 := h2) (es := es)
        as [new [Enew [Hnew [S1 B1]]]]; auto.
      simpl in Enew. subst new. unfold iter_post. simpl. split.
      * split; auto.
      * intros w t Iw Hw. eapply repr_ext; eauto.
    + (* vector *)
      destruct (cnt c =? 1) eqn:C1.
      * apply Nat.eqb_eq in C1. inversion E; subst; clear E.
        rewrite handles_ref in *.
        assert (I' : Inv h ((l :: handles_opt d ++ R) ++ F)) by (eapply Inv_equiv; [|exact I]; occ_tac).
        destruct (inplace_update h l c (handles_opt d ++ R) (handles_items (citems c) ++ handles_opt d ++ R) [] F I' Hc C1)
          as [S2 [Hc2 [T1 [T2 [T3 [N1 [U1 U2]]]]]]].
        { intro x. unfold handles_items at 3. simpl. occ_tac. }
        unfold iter_post. simpl. rewrite ?handles_ref. split.
        -- split.
           ++ apply repr_items_vals. apply T2; auto.
           ++ rewrite handles_list_map_snd. eapply Step_equiv; [| |exact S2]. apply in_occ_equiv; occ_tac. occ_tac.
        -- intros w t Iw Hw. apply T1; auto. intro Hin. apply Iw in Hin. apply in_app_or in Hin.
           apply occ_zero_app in U1. destruct U1 as [_ U1]. destruct Hin as [Hin|Hin]; apply occ_In in Hin; lia.
      * inversion E; subst; clear E.
        destruct (clone_locs_step (handles_items (citems c)) h (handles (HRef l d) ++ R) F I) as [S1 [B1 L1]].
        { intros x Hx. apply Iits. auto. }
        unfold iter_post. simpl. split.
        -- split.
           ++ apply repr_items_vals. eapply repr_items_ext; eauto.
           ++ rewrite handles_list_map_snd. exact S1.
        -- intros w t Iw Hw. eapply repr_ext; eauto.
    + (* bytes *)
      destruct (cnt c =? 1) eqn:C1.
      * apply Nat.eqb_eq in C1. inversion E; subst; clear E.
        rewrite handles_ref in *.
        assert (I' : Inv h ((l :: handles_opt d ++ R) ++ F)) by (eapply Inv_equiv; [|exact I]; occ_tac).
        destruct (inplace_update h l c (handles_opt d ++ R) (handles_items (citems c) ++ handles_opt d ++ R) [] F I' Hc C1)
          as [S2 [Hc2 [T1 [T2 [T3 [N1 [U1 U2]]]]]]].
        { intro x. unfold handles_items at 3. simpl. occ_tac. }
        unfold iter_post. simpl. rewrite ?handles_ref. split.
        -- split.
           ++ apply repr_items_vals. apply T2; auto.
           ++ rewrite handles_list_map_snd. eapply Step_equiv; [| |exact S2]. apply in_occ_equiv; occ_tac. occ_tac.
        -- intros w t Iw Hw. apply T1; auto. intro Hin. apply Iw in Hin. apply in_app_or in Hin.
           apply occ_zero_app in U1. destruct U1 as [_ U1]. destruct Hin as [Hin|Hin]; apply occ_In in Hin; lia.
      * inversion E; subst; clear E.
        destruct (clone_locs_step (handles_items (citems c)) h (handles (HRef l d) ++ R) F I) as [S1 [B1 L1]].
        { intros x Hx. apply Iits. auto. }
        unfold iter_post. simpl. split.
        -- split.
           ++ apply repr_items_vals. eapply repr_items_ext; eauto.
           ++ rewrite handles_list_map_snd. exact S1.
        -- intros w t Iw Hw. eapply repr_ext; eauto.
Qed.

(* ------------------------------------------------------------------ the loop *)
(* between iterations variable 0 (`it`) is not bound: the machine holds null there, the spec holds whatever the last
   iteration left (it is overwritten before the next body runs, and restored after the loop) *)
Definition Sim0 (h : heap) (rs : list hval) (sg : state) : Prop :=
  nth_error rs 0 = Some HNull /\ repr_list h rs (set_var sg 0 VNull).

Lemma set_var_twice sg x a b : set_var (set_var sg x a) x b = set_var sg x b.
Proof. apply (set_field_twice x b a sg). Qed.

Lemma set_root_id rs x v : nth_error rs x = Some v -> set_root rs x v = rs.
Proof.
  unfold set_root, hset_field. revert x. induction rs as [|a rs IH]; intros x H; destruct x; simpl in *; try discriminate.
  - inversion H; subst. rewrite map_snd_label. reflexivity.
  - f_equal. apply IH. auto.
Qed.

Lemma nth_error_set_root_same rs x v old : nth_error rs x = Some old -> nth_error (set_root rs x v) x = Some v.
Proof.
  unfold set_root, hset_field. revert x. induction rs as [|a rs IH]; intros x H; destruct x; simpl in *; try discriminate; auto.
Qed.

Lemma bind_it h rs sg e te :
  Sim0 h rs sg -> repr h e te ->
  repr_list h (set_root rs 0 e) (set_var sg 0 te) /\
  (forall l, occ l (handles_list (set_root rs 0 e)) = occ l (handles e) + occ l (handles_list rs)).
Proof.
  intros [H0 Hrs] He. split.
  - pose proof (repr_list_set_field _ _ _ 0 _ _ Hrs He) as Hx. unfold set_root.
    change (set_field 0 te (set_var sg 0 VNull)) with (set_var (set_var sg 0 VNull) 0 te) in Hx.
    rewrite set_var_twice in Hx. exact Hx.
  - intro l. pose proof (roots_put 0 rs HNull e H0 l). rewrite (set_root_id rs 0 HNull H0) in H. exact H.
Qed.

Lemma unbind_it h1 rs1 sg1 G itv :
  Inv h1 (handles_list rs1 ++ G) -> repr_list h1 rs1 sg1 -> nth_error rs1 0 = Some itv ->
  let h2 := drop_val h1 itv in
  let rs2 := set_root rs1 0 HNull in
  Inv h2 (handles_list rs2 ++ G) /\ Sim0 h2 rs2 sg1 /\
  (forall u t, incl (handles u) G -> repr h1 u t -> repr h2 u t).
Proof.
  intros I Hrs H0 h2 rs2.
  assert (I' : Inv h1 ((handles itv ++ handles_list rs2) ++ G)).
  { eapply Inv_equiv; [|exact I]. intro l. pose proof (roots_split 0 rs1 itv H0 l). fold rs2 in H. revert H. occ_tac. }
  destruct (drop_val_keep h1 itv (handles_list rs2) G I') as [S K].
  split; [apply S|]. split.
  - split; [unfold rs2; eapply nth_error_set_root_same; eauto|].
    assert (Ho : repr h1 (HInst 0 rs2) (VInst 0 (set_var sg1 0 VNull))).
    { constructor. apply repr_list_set_field; auto. constructor. }
    apply K in Ho; [|rewrite handles_inst; apply incl_appl, incl_refl]. inversion Ho; auto.
  - intros u t Iu Hu. apply K; auto. apply incl_appr; auto.
Qed.

Lemma drop_vals_ok tl : forall h R F,
  Inv h ((handles_list tl ++ R) ++ F) ->
  Step h (handles_list tl ++ R) F (fold_left drop_val tl h) R /\
  (forall w t, incl (handles w) (R ++ F) -> repr h w t -> repr (fold_left drop_val tl h) w t).
Proof.
  induction tl as [|e tl IH]; intros h R F I; simpl.
  - split; [apply Step_refl; auto | auto].
  - unfold handles_list in I. simpl in I. fold (handles_list tl) in I.
    assert (I' : Inv h ((handles e ++ handles_list tl ++ R) ++ F)) by (eapply Inv_equiv; [|exact I]; occ_tac).
    destruct (drop_val_keep h e (handles_list tl ++ R) F I') as [S1 K1].
    assert (I1 : Inv (drop_val h e) ((handles_list tl ++ R) ++ F)) by apply S1.
    destruct (IH (drop_val h e) R F I1) as [S2 K2].
    split.
    + unfold handles_list. simpl. fold (handles_list tl).
      eapply Step_trans; [|exact S2]. eapply Step_equiv; [| |exact S1]. apply in_occ_equiv; occ_tac. intro; reflexivity.
    + intros w t Iw Hw. apply K2; auto. apply K1; auto. intros x Hx. apply Iw in Hx. revert Hx.
      rewrite !in_app_iff. tauto.
Qed.

Lemma repr_list_keep_G h hh es ts G :
  (forall u t, incl (handles u) G -> repr h u t -> repr hh u t) -> incl (handles_list es) G ->
  repr_list h es ts -> repr_list hh es ts.
Proof.
  intros K Ie H. apply repr_list_as_inst. apply K; [rewrite handles_inst; auto | apply repr_list_as_inst; auto].
Qed.

Lemma repr_list_length h es ts : repr_list h es ts -> length es = length ts.
Proof. induction 1; simpl; auto. Qed.

Lemma length_set_var_local sg x v : length (set_var sg x v) = length sg.
Proof.
  unfold set_var, unlabelled. rewrite map_length. revert x. induction sg as [|a sg IH]; intro x; destruct x; simpl; auto.
  rewrite map_length. reflexivity.
Qed.

Lemma length_and_loop_local f w l : forall sg, length (fst (and_loop f w sg l)) = length sg.
Proof.
  induction l as [|[[x p] old] tl IH]; intros sg; simpl; auto.
  destruct (nth_error sg x); simpl; auto.
  destruct (v_opassign_old p f old w v) as [v' ok]. destruct ok; simpl.
  - rewrite IH. apply length_set_var_local.
  - apply length_set_var_local.
Qed.

Lemma length_exec_s_local s0 s s1 o : exec_s s0 s = (s1, o) -> length s1 = length s0.
Proof.
  intro Es. destruct s; simpl in Es;
    repeat match goal with
           | H : context [match ?x with _ => _ end] |- _ => destruct x eqn:?; simpl in H
           | H : (_, _) = (_, _) |- _ => inversion H; subst; clear H
           end; unfold assign_to in *;
    repeat match goal with
           | H : context [match ?x with _ => _ end] |- _ => destruct x eqn:?; simpl in H
           | H : (_, _) = (_, _) |- _ => inversion H; subst; clear H
           end; rewrite ?length_set_var_local; auto.
  pose proof (length_and_loop_local f v (combine ts l) s0) as HL. rewrite Es in HL. exact HL.
Qed.

Lemma m_exec_for_g body : forallb sfrag body = true ->
  forall pending ts h rs sg st' ok G,
  Inv h ((handles_list pending ++ handles_list rs) ++ G) -> repr_list h pending ts -> Sim0 h rs sg ->
  m_exec_for (mkst h rs) pending body = (st', ok) ->
  exists sg', exec_for sg ts body = (sg', ok) /\
    Inv (mheap st') (handles_list (roots st') ++ G) /\ Sim0 (mheap st') (roots st') sg' /\
    (forall u t, incl (handles u) G -> repr h u t -> repr (mheap st') u t).
Proof.
  intros FB. induction pending as [|e tl IH]; intros ts h rs sg st' ok G I Hp S0 E.
  - inversion Hp; subst. simpl in E. inversion E; subst. simpl. exists sg. split; [reflexivity|].
    split; [exact I|]. split; [exact S0|]. auto.
  - inversion Hp; subst. rename t into te. rename ts0 into ttl.
    match goal with H : repr h e te |- _ => rename H into He end.
    match goal with H : repr_list h tl ttl |- _ => rename H into Htl end.
    simpl in E. simpl.
    destruct (bind_it h rs sg e te S0 He) as [Hrs0 OC0].
    set (rs0 := set_root rs 0 e) in *.
    assert (I0 : Inv h (handles_list rs0 ++ handles_list tl ++ G)).
    { eapply Inv_equiv; [|exact I]. intro l. specialize (OC0 l). unfold handles_list at 1. simpl. fold (handles_list tl).
      revert OC0. occ_tac. }
    destruct (m_exec_list (mkst h rs0) body) as [st1 ok1] eqn:EB.
    destruct (m_exec_list_g body FB h rs0 (set_var sg 0 te) st1 ok1 (handles_list tl ++ G) I0 Hrs0 EB)
      as [sg1 [Ev1 [I1 [Hs1 K1]]]].
    rewrite Ev1.
    destruct st1 as [h1 rs1]. simpl in *. unfold Sim in Hs1. simpl in Hs1.
    (* the scope of this iteration ends: `it` is dropped *)
    assert (L1 : rs1 <> []).
    { pose proof (repr_list_length _ _ _ Hs1) as L. intro; subst rs1. destruct S0 as [H0 Hrs]. pose proof (repr_list_length _ _ _ Hrs) as L0. rewrite length_set_var_local in L0.
      assert (length sg1 = length sg).
      { assert (LL : forall b s0, length (fst (exec_list s0 b)) = length s0).
        { clear. induction b as [|s b IHb]; intro s0; simpl; auto.
          destruct (exec_s s0 s) as [s1 o] eqn:Es.
          assert (length s1 = length s0) by (eapply length_exec_s_local; eauto).
          destruct o; simpl; auto. rewrite IHb. auto. }
        pose proof (LL body (set_var sg 0 te)) as Hl. rewrite Ev1 in Hl. simpl in Hl. rewrite Hl. apply length_set_var_local. }
      destruct rs as [|r0 rs']; [discriminate|]. simpl in L0. simpl in L. lia. }
    destruct rs1 as [|itv rs1']; [congruence|]. assert (Hitv : nth_error (itv :: rs1') 0 = Some itv) by reflexivity.
    simpl in E. set (rs1 := itv :: rs1') in *.
    destruct (unbind_it h1 rs1 sg1 (handles_list tl ++ G) itv I1 Hs1 Hitv) as [I2 [S2 K2]].
    set (h2 := drop_val h1 itv) in *. set (rs2 := set_root rs1 0 HNull) in *.
    assert (Htl2 : repr_list h2 tl ttl).
    { apply (repr_list_keep_G h h2 tl ttl (handles_list tl ++ G)); [| |exact Htl].
      - intros u t Iu Hu. apply K2; auto.
      - apply incl_appl, incl_refl. }
    assert (KG : forall u t, incl (handles u) G -> repr h u t -> repr h2 u t).
    { intros u t Iu Hu. apply K2. apply incl_appr; auto. apply K1; auto. apply incl_appr; auto. }
    destruct ok1.
    + assert (I2' : Inv h2 ((handles_list tl ++ handles_list rs2) ++ G)) by (eapply Inv_equiv; [|exact I2]; occ_tac).
      destruct (IH ttl h2 rs2 sg1 st' ok G I2' Htl2 S2 E) as [sg' [Ev [I3 [S3 K3]]]].
      exists sg'. split; [exact Ev|]. split; [exact I3|]. split; [exact S3|]. intros u t Iu Hu. apply K3; auto.
    + inversion E; subst; clear E. simpl.
      assert (I2' : Inv h2 ((handles_list tl ++ handles_list rs2) ++ G)) by (eapply Inv_equiv; [|exact I2]; occ_tac).
      destruct (drop_vals_ok tl h2 (handles_list rs2) G I2') as [S3 K3].
      exists sg1. split; [reflexivity|]. split; [apply S3|]. split.
      * destruct S2 as [A B]. split; auto. eapply repr_list_keep; eauto.
      * intros u t Iu Hu. apply K3. apply incl_appr; auto. apply KG; auto.
Qed.

(* ------------------------------------------------------------------ for (it <- x[p]) body *)
Lemma exec_for_ok x p body : forallb sfrag body = true ->
  forall st sg st' ok,
  StInv st -> Sim st sg -> m_exec st (SFor x p body) = (st', ok) ->
  exists sg', exec sg (SFor x p body) = (sg', ok) /\ StInv st' /\ Sim st' sg'.
Proof.
  intros FB [h rs] sg st' ok I Hs E. unfold StInv, Sim in *. simpl in I, Hs.
  assert (I0 : Inv h (handles_list rs ++ [])) by (rewrite app_nil_r; auto).
  assert (KEEPST : forall hh, Step h (handles_list rs) [] hh (handles_list rs) ->
                   (forall w t, incl (handles w) (handles_list rs ++ []) -> repr h w t -> repr hh w t) ->
                   StInv (mkst hh rs) /\ Sim (mkst hh rs) sg).
  { intros hh S K. destruct (roots_keep [] h rs sg hh Hs S K) as [A [B _]]. split; auto.
    unfold StInv. simpl in *. rewrite app_nil_r in A. auto. }
  unfold m_exec in E. cbn [m_eval mheap roots] in E.
  assert (SPEC : exec sg (SFor x p body) =
                 match (match nth_error sg x with Some v => v_get v p | None => None end) with
                 | None => (sg, false)
                 | Some src =>
                   match iter_vals src, nth_error sg 0 with
                   | Some elems, Some saved => let (st1, ok) := exec_for sg elems body in (set_var st1 0 saved, ok)
                   | _, _ => (sg, false)
                   end
                 end) by reflexivity.
  rewrite SPEC. clear SPEC.
  destruct (nth_error rs x) as [vx|] eqn:Ex.
  2: { inversion E; subst. rewrite (repr_list_nth_none _ _ _ _ Hs Ex). eexists; split; [reflexivity|]. split; auto. }
  destruct (repr_list_nth _ _ _ _ _ Hs Ex) as [tx [Htx Hvx]]. rewrite Htx.
  assert (Ivx : incl (handles vx) (handles_list rs ++ handles_heap h)) by (apply incl_appl; eapply handles_list_nth; eauto).
  destruct (m_read h vx p) as [h1 [src|]] eqn:ER.
  2: { destruct (m_read_ok h vx tx p (handles_list rs) [] h1 None I0 Ivx Hvx ER) as [[Hg S1] K1].
       rewrite Hg. inversion E; subst; clear E. eexists; split; [reflexivity|]. apply KEEPST; auto. }
  destruct (m_read_ok h vx tx p (handles_list rs) [] h1 (Some src) I0 Ivx Hvx ER) as [[tsrc [Hg [Hsrc S1]]] K1].
  rewrite Hg.
  pose proof (repr_list_keep _ _ _ _ _ K1 Hs) as Hrs1.
  assert (I1 : Inv h1 ((handles src ++ handles_list rs) ++ [])) by apply S1.
  destruct (m_iter_elems h1 src) as [h2 r] eqn:EI.
  destruct (iter_elems_ok h1 src tsrc (handles_list rs) [] h2 r I1 Hsrc EI) as [HP K2].
  pose proof (repr_list_keep _ _ _ _ _ K2 Hrs1) as Hrs2.
  (* variable 0 exists because x does *)
  destruct (nth_error rs 0) as [saved|] eqn:H0.
  2: { exfalso. destruct rs; [destruct x; discriminate | discriminate]. }
  destruct (repr_list_nth _ _ _ _ _ Hrs2 H0) as [tsaved [Hts Hsaved]].
  destruct r as [elems|]; destruct (iter_vals tsrc) as [telems|] eqn:EIV; try contradiction.
  2: { (* not iterable *)
       inversion E; subst; clear E. eexists; split; [reflexivity|]. apply KEEPST.
       - eapply Step_trans; [exact S1|]. exact HP.
       - intros w t Iw Hw. apply K2; auto. }
  destruct HP as [Hel S2]. rewrite Hts.
  assert (E' : (let '(st1, ok0) := m_exec_for (mkst h2 (set_root rs 0 HNull)) elems body in
                (mkst (drop_val (mheap st1) src) (set_root (roots st1) 0 saved), ok0)) = (st', ok)) by exact E.
  clear E.
  destruct (m_exec_for (mkst h2 (set_root rs 0 HNull)) elems body) as [st1 ok1] eqn:EF.
  inversion E'; subst; clear E'.
  set (rs0 := set_root rs 0 HNull) in *.
  assert (OC : forall l, occ l (handles_list rs) = occ l (handles saved) + occ l (handles_list rs0)).
  { intro l. apply (roots_split 0 rs saved H0 l). }
  assert (I2 : Inv h2 ((handles_list elems ++ handles_list rs0) ++ handles src ++ handles saved)).
  { eapply Inv_equiv; [|apply S2]. intro l. specialize (OC l). revert OC. occ_tac. }
  assert (S00 : Sim0 h2 rs0 sg).
  { split; [unfold rs0; eapply nth_error_set_root_same; eauto|].
    unfold rs0, set_root. apply repr_list_set_field; auto. constructor. }
  destruct (m_exec_for_g body FB elems telems h2 rs0 sg st1 ok (handles src ++ handles saved) I2 Hel S00 EF)
    as [sg1 [Ev [I3 [S3 K3]]]].
  rewrite Ev.
  destruct st1 as [h3 rs3]. simpl in *.
  (* the iterator (holding the source payload) is dropped, the outer `it` is visible again *)
  assert (I3' : Inv h3 ((handles src ++ handles_list rs3 ++ handles saved) ++ [])).
  { rewrite app_nil_r. eapply Inv_equiv; [|exact I3]. occ_tac. }
  destruct (drop_val_keep h3 src (handles_list rs3 ++ handles saved) [] I3') as [S4 K4].
  set (h4 := drop_val h3 src) in *.
  assert (Hsaved4 : repr h4 saved tsaved).
  { apply K4. rewrite app_nil_r. apply incl_appr, incl_refl. apply K3; auto. apply incl_appr, incl_refl. }
  assert (S34 : Sim0 h4 rs3 sg1).
  { destruct S3 as [A B]. split; auto. apply repr_list_as_inst. apply K4.
    - rewrite handles_inst, app_nil_r. apply incl_appl, incl_refl.
    - apply repr_list_as_inst. auto. }
  destruct (bind_it h4 rs3 sg1 saved tsaved S34 Hsaved4) as [Hfin OCf].
  eexists; split; [reflexivity|]. split.
  - unfold StInv. simpl. eapply Inv_equiv; [|apply S4]. intro l. specialize (OCf l). revert OCf. occ_tac.
  - unfold Sim. simpl. exact Hfin.
Qed.

(* ------------------------------------------------------------------ the proved fragment, with loops *)
Definition ffrag (s : stmt) : bool :=
  match s with
  | Simple s => sfrag s
  | SFor _ _ body => forallb sfrag body
  end.

Lemma m_exec_ok_f s : ffrag s = true -> forall st sg st' ok,
  StInv st -> Sim st sg -> m_exec st s = (st', ok) ->
  exists sg', exec sg s = (sg', ok) /\ StInv st' /\ Sim st' sg'.
Proof.
  destruct s as [s|x p body]; simpl; intro FR.
  - apply m_exec_s_ok; auto.
  - apply exec_for_ok; auto.
Qed.

Lemma run_refines_f ops : forallb ffrag ops = true -> forall st sg,
  StInv st -> Sim st sg -> traces_agree (run_cow st ops) (run_value sg ops).
Proof.
  induction ops as [|s ops IH]; intros FR st sg I Hs; simpl.
  - constructor.
  - simpl in FR. apply andb_prop in FR. destruct FR as [F1 F2].
    destruct (m_exec st s) as [st1 ok] eqn:E.
    destruct (m_exec_ok_f s F1 st sg st1 ok I Hs E) as [sg1 [Ev [I1 Hs1]]].
    rewrite Ev. simpl. constructor; auto.
Qed.

Lemma final_refines_f ops : forallb ffrag ops = true -> forall st sg,
  StInv st -> Sim st sg -> StInv (final_cow st ops) /\ Sim (final_cow st ops) (final_value sg ops).
Proof.
  induction ops as [|s ops IH]; intros FR st sg I Hs; simpl; auto.
  simpl in FR. apply andb_prop in FR. destruct FR as [F1 F2].
  unfold final_cow, final_value. simpl.
  destruct (m_exec st s) as [st1 ok] eqn:E.
  destruct (m_exec_ok_f s F1 st sg st1 ok I Hs E) as [sg1 [Ev [I1 Hs1]]].
  rewrite Ev. simpl. apply IH; auto.
Qed.
Transparent alloc.
