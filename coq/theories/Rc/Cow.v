(* C01/C02 MACHINE, part 2: the mutation statements as compositions of the Rc primitives of
   Rc/Heap.v, in the order eval.rs / core.rs / lib.rs perform them.

   Ownership convention.  An `hval` passed to a function below is OWNED by it (it stands for an
   `Obj` taken by value, or for the content of the slot a `&mut Obj` points to): the function
   either returns it, stores it in a cell, or drops it.  Where the Rust code recurses through
   `&mut v[i]`, the model takes the element out of the cell (leaving null), recurses on the owned
   element and puts the result back; nothing can observe the cell in between because it is
   uniquely owned at that point (make_mut has just run on it), and strong counts are the same
   whether a handle sits in the slot or in the recursion's hand.

   Transcribed: index/slice_seq (m_get1), eval_lvalue_as_obj (m_read), set_index (m_set),
   modify_existing_index (m_modify), Obj::try_pop/try_remove_index/try_remove_slice
   (m_f_pop, m_f_remove), consume (m_f_consume), Append::run2 / plusplus_concatenate / `+` /
   `|.` `-.` `||` `|..` (m_bop), Expr::OpAssign hot path with drop_lhs (m_opassign),
   Expr::Update, closure call with a mutated parameter (m_eval ECall), Expr::Swap,
   evaluate_for with cloning/draining iteration (m_exec SFor).
   Definitions only; proofs in Rc/*_proofs.v. *)
From Coq Require Import ZArith List Bool Arith.
From NV Require Import Rc.ValueSem Rc.Heap.
Import ListNotations.
Local Open Scope nat_scope.

Definition put_item (h : heap) (l : loc) (n : nat) (e : hval) : heap :=
  match get_cell h l with
  | Some c => set_cell h l (mkcell (cnt c) (ckind c) (set_nth n e (citems c)))
  | None => h
  end.

Definition items_of (h : heap) (l : loc) : list (key * hval) :=
  match get_cell h l with Some c => citems c | None => [] end.

Definition hset_field (f : nat) (a : hval) (fields : list hval) : list hval :=
  map snd (set_nth f a (map (fun v => (nokey, v)) fields)).

Definition new_or_null (new : option hval) : hval := match new with Some w => w | None => HNull end.

(* ------------------------------------------------------------------ reading *)
(* index(xr, i) / slice(xr, lo, hi): consumes xr, returns an owned result *)
Definition m_get1 (h : heap) (v : hval) (pe : pelem) : heap * option hval :=
  match v with
  | HRef l d =>
    match get_cell h l with
    | None => (h, None)
    | Some c =>
      match ckind c with
      | KDict =>
        match key_of_pelem pe with
        | Some k =>
          match find_key k (citems c) with
          | Some n => match nth_item n (citems c) with
                      | Some e => (drop_val (clone_val h e) v, Some e)
                      | None => (drop_val h v, None)
                      end
          | None => match d with
                    | Some dv => (drop_val (clone_val h dv) v, Some dv)
                    | None => (drop_val h v, None)
                    end
          end
        | None => (drop_val h v, None)
        end
      | k =>
        match pe with
        | PI z =>
          match norm_index (length (citems c)) z with
          | Some n =>
            match nth_item n (citems c) with
            | Some e =>
              match k with
              | KStr => let '(h1, l') := alloc (clone_val h e) KStr [(nokey, e)] in (drop_val h1 v, Some (HRef l' None))
              | _ => (drop_val (clone_val h e) v, Some e)
              end
            | None => (drop_val h v, None)
            end
          | None => (drop_val h v, None)
          end
        | PSl lo hi =>
          let '(a, b) := slice_bounds (length (citems c)) lo hi in
          let its := sub_items (citems c) a b in
          let h1 := clone_locs h (handles_items its) in
          let '(h2, l') := alloc h1 k its in
          (drop_val h2 v, Some (HRef l' None))
        | _ => (drop_val h v, None)
        end
      end
    end
  | HInst sid fs =>
    match pe with
    | PF sid' f =>
      if Nat.eqb sid sid' then
        match nth_error fs f with
        | Some e => (drop_val (clone_val h e) v, Some e)
        | None => (drop_val h v, None)
        end
      else (drop_val h v, None)
    | _ => (drop_val h v, None)
    end
  | _ => (h, None)
  end.

Fixpoint m_get (h : heap) (v : hval) (p : path) : heap * option hval :=
  match p with
  | [] => (h, Some v)
  | pe :: rest => match m_get1 h v pe with
                  | (h1, Some e) => m_get h1 e rest
                  | (h1, None) => (h1, None)
                  end
  end.

(* reading x[p] where v is the (not consumed) content of the variable: clone the handle, index *)
Definition m_read (h : heap) (v : hval) (p : path) : heap * option hval :=
  m_get (clone_val h v) v p.

(* the read of `(x[p] = d) f= e`: the container at all-but-the-last index is cloned, looked at and released (eval.rs clones
   every intermediate); then the value at the key is cloned, or the default expression is evaluated *)
Definition m_read_wd (h : heap) (v : hval) (p : path) (d : val) : heap * option hval :=
  match split_last p with
  | None => m_read h v p
  | Some (pre, last) =>
    match m_read h v pre with
    | (h1, None) => (h1, None)
    | (h1, Some c) =>
      let present :=
        match c with
        | HRef l None =>
          match get_cell h1 l with
          | Some cl =>
            match ckind cl with
            | KDict => match key_of_pelem last with
                       | Some k => match find_key k (citems cl) with Some _ => Some true | None => Some false end
                       | None => None
                       end
            | _ => None
            end
          | None => None
          end
        | _ => None
        end in
      let h2 := drop_val h1 c in
      match present with
      | Some true => m_read h2 v p
      | Some false => let '(h3, r) := alloc_val h2 d in (h3, Some r)
      | None => (h2, None)
      end
    end
  end.

(* ------------------------------------------------------------------ set_index *)
(* apply g to the items i, i+1, ..., i+cnt-1 of the (uniquely owned) cell l, stop at the first failure *)
Fixpoint m_range (g : heap -> hval -> heap * hval * bool) (h : heap) (l : loc) (i cnt : nat) : heap * bool :=
  match cnt with
  | O => (h, true)
  | S c' =>
    match nth_item i (items_of h l) with
    | None => (h, true)
    | Some e =>
      let h1 := put_item h l i HNull in
      let '(h2, e', ok) := g h1 e in
      let h3 := put_item h2 l i e' in
      if ok then m_range g h3 l (S i) c' else (h3, false)
    end
  end.

(* a one-byte string value: its byte *)
Definition hstr1 (h : heap) (w : hval) : option hval :=
  match w with
  | HRef l _ => match get_cell h l with
                | Some c => match ckind c, citems c with
                            | KStr, [(_, HInt b)] => Some (HInt b)
                            | _, _ => None
                            end
                | None => None
                end
  | _ => None
  end.
Definition is_hstr (h : heap) (w : hval) : bool :=
  match w with
  | HRef l _ => match get_cell h l with
                | Some c => match ckind c with KStr => true | _ => false end
                | None => false
                end
  | _ => false
  end.

(* set_index(lhs, indexes, value, every): cur is the content of *lhs, new is `value` (owned).
   Returns the heap, the new content of *lhs, and whether it succeeded. *)
Definition m_set_here (new : option hval) (h : heap) (cur : hval) : heap * hval * bool :=
  (drop_val h cur, new_or_null new, true).          (* *lhs = value: the old content is dropped *)

Fixpoint m_set (every : bool) (p : path) (new : option hval) (h : heap) (cur : hval) : heap * hval * bool :=
  match p with
  | [] => m_set_here new h cur
  | pe :: rest =>
    match cur with
    | HRef l d =>
      match get_cell h l with
      | None => (drop_opt h new, cur, false)
      | Some c =>
        match ckind c with
        | KList =>
          match pe with
          | PI z =>
            let '(h1, l') := make_mut h l in
            match norm_index (length (citems c)) z with
            | Some n =>
              match nth_item n (citems c) with
              | Some e =>
                let h2 := put_item h1 l' n HNull in
                let '(h3, e', ok) := m_set every rest new h2 e in
                (put_item h3 l' n e', HRef l' d, ok)
              | None => (drop_opt h1 new, HRef l' d, false)
              end
            | None => (drop_opt h1 new, HRef l' d, false)
            end
          | PSl lo hi =>
            if every then
              let '(h1, l') := make_mut h l in
              let '(a, b) := slice_bounds (length (citems c)) lo hi in
              let '(h2, ok) := m_range (fun h e => m_set every rest new (clone_locs h (handles_opt new)) e) h1 l' a (b - a) in
              (drop_opt h2 new, HRef l' d, ok)
            else (drop_opt h new, cur, false)
          | _ => let '(h1, l') := make_mut h l in (drop_opt h1 new, HRef l' d, false)
          end
        | KStr =>
          match pe, rest with
          | PSl _ _, _ => (drop_opt h new, cur, false)
          | _, [] =>
            match new with
            | Some w =>
              if is_hstr h w then
                let '(h1, l') := make_mut h l in
                match hstr1 h w with
                | Some b =>
                  match leaf_index pe (length (citems c)) with
                  | Some n =>
                    match nth_item n (citems c) with
                    | Some old => (drop_val (drop_val (put_item h1 l' n b) old) w, HRef l' d, true)
                    | None => (drop_val h1 w, HRef l' d, false)
                    end
                  | None => (drop_val h1 w, HRef l' d, false)
                  end
                | None => (drop_val h1 w, HRef l' d, false)
                end
              else (drop_val h w, cur, false)
            | None => (h, cur, true)
            end
          | _, _ => (drop_opt h new, cur, false)
          end
        | KDict =>
          match pe with
          | PSl None None =>
            match rest with
            | [] =>
              let '(h1, l') := make_mut h l in
              if every then
                let '(h2, ok) := m_range (fun h e => m_set_here new (clone_locs h (handles_opt new)) e) h1 l' 0 (length (citems c)) in
                (drop_opt h2 new, HRef l' d, ok)
              else (drop_opt h1 new, HRef l' d, false)
            | _ => (drop_opt h new, cur, false)
            end
          | _ =>
            match key_of_pelem pe with
            | Some k =>
              let '(h1, l') := make_mut h l in
              match rest with
              | [] =>
                match find_key k (citems c) with
                | Some n =>
                  match nth_item n (citems c) with
                  | Some old => (drop_val (put_item h1 l' n (new_or_null new)) old, HRef l' d, true)
                  | None => (drop_opt h1 new, HRef l' d, false)
                  end
                | None => (set_items h1 l' (citems c ++ [(k, new_or_null new)]), HRef l' d, true)
                end
              | _ =>
                match find_key k (citems c) with
                | Some n =>
                  match nth_item n (citems c) with
                  | Some e =>
                    let h2 := put_item h1 l' n HNull in
                    let '(h3, e', ok) := m_set every rest new h2 e in
                    (put_item h3 l' n e', HRef l' d, ok)
                  | None => (drop_opt h1 new, HRef l' d, false)
                  end
                | None => (drop_opt h1 new, HRef l' d, false)
                end
              end
            | None => (drop_opt h new, cur, false)
            end
          end
        | KVec =>
          match pe, rest with
          | PSl _ _, _ => (drop_opt h new, cur, false)
          | _, [] =>
            match new with
            | Some (HInt n) =>
              match leaf_index pe (length (citems c)) with
              | Some i =>
                match nth_item i (citems c) with
                | Some old => let '(h1, l') := make_mut h l in (drop_val (put_item h1 l' i (HInt n)) old, HRef l' d, true)
                | None => (h, cur, false)
                end
              | None => (h, cur, false)
              end
            | Some w => (drop_val h w, cur, false)
            | None => (h, cur, true)
            end
          | _, _ => (drop_opt h new, cur, false)
          end
        | KBytes =>
          match pe, rest with
          | PSl _ _, _ => (drop_opt h new, cur, false)
          | _, [] =>
            match new with
            | Some (HInt n) =>
              match leaf_index pe (length (citems c)) with
              | Some i =>
                match nth_item i (citems c) with
                | Some old =>
                  if is_byte n
                  then let '(h1, l') := make_mut h l in (drop_val (put_item h1 l' i (HInt n)) old, HRef l' d, true)
                  else (h, cur, false)
                | None => (h, cur, false)
                end
              | None => (h, cur, false)
              end
            | Some w => (drop_val h w, cur, false)
            | None => (h, cur, true)
            end
          | _, _ => (drop_opt h new, cur, false)
          end
        end
      end
    | HInst sid fields =>
      match pe with
      | PF sid' f =>
        if Nat.eqb sid sid' then
          match nth_error fields f with
          | Some e => let '(h1, e', ok) := m_set every rest new h e in (h1, HInst sid (hset_field f e' fields), ok)
          | None => (drop_opt h new, cur, false)
          end
        else (drop_opt h new, cur, false)
      | _ => (drop_opt h new, cur, false)
      end
    | _ => (drop_opt h new, cur, false)
    end
  end.

(* ------------------------------------------------------------------ modify_existing_index *)
Definition mres := (heap * hval * option hval)%type.   (* heap, new slot content, result (None = raised) *)

Fixpoint m_modify (p : path) (f : heap -> hval -> mres) (h : heap) (cur : hval) : mres :=
  match p with
  | [] => f h cur
  | pe :: rest =>
    match cur with
    | HRef l d =>
      match get_cell h l with
      | None => (h, cur, None)
      | Some c =>
        match ckind c with
        | KList =>
          match pe with
          | PI z =>
            let '(h1, l') := make_mut h l in
            match norm_index (length (citems c)) z with
            | Some n =>
              match nth_item n (citems c) with
              | Some e =>
                let h2 := put_item h1 l' n HNull in
                let '(h3, e', r) := m_modify rest f h2 e in
                (put_item h3 l' n e', HRef l' d, r)
              | None => (h1, HRef l' d, None)
              end
            | None => (h1, HRef l' d, None)
            end
          | PSl _ _ => (h, cur, None)
          | _ => let '(h1, l') := make_mut h l in (h1, HRef l' d, None)
          end
        | KDict =>
          match pe with
          | PSl _ _ => (h, cur, None)
          | _ =>
            match key_of_pelem pe with
            | Some k =>
              let '(h1, l') := make_mut h l in
              match find_key k (citems c) with
              | Some n =>
                match nth_item n (citems c) with
                | Some e =>
                  let h2 := put_item h1 l' n HNull in
                  let '(h3, e', r) := m_modify rest f h2 e in
                  (put_item h3 l' n e', HRef l' d, r)
                | None => (h1, HRef l' d, None)
                end
              | None =>
                match d with
                | Some dv =>
                  (* e.insert(default.clone()), then recurse on the inserted slot *)
                  let h2 := clone_val h1 dv in
                  let n := length (citems c) in
                  let h3 := set_items h2 l' (citems c ++ [(k, HNull)]) in
                  let '(h4, e', r) := m_modify rest f h3 dv in
                  (put_item h4 l' n e', HRef l' d, r)
                | None => (h1, HRef l' d, None)
                end
              end
            | None => (h, cur, None)
            end
          end
        | _ => (h, cur, None)
        end
      end
    | HInst sid fields =>
      match pe with
      | PF sid' fl =>
        if Nat.eqb sid sid' then
          match nth_error fields fl with
          | Some e => let '(h1, e', r) := m_modify rest f h e in (h1, HInst sid (hset_field fl e' fields), r)
          | None => (h, cur, None)
          end
        else (h, cur, None)
      | _ => (h, cur, None)
      end
    | _ => (h, cur, None)
    end
  end.

(* modify_every_existing_index: the same walk plus list slices; cur is the private copy `old` of modify_every *)
Fixpoint m_mevery (p : path) (f : heap -> hval -> mres) (h : heap) (cur : hval) : mres :=
  match p with
  | [] => f h cur
  | pe :: rest =>
    match cur with
    | HRef l d =>
      match get_cell h l with
      | None => (h, cur, None)
      | Some c =>
        match ckind c with
        | KList =>
          match pe with
          | PI z =>
            let '(h1, l') := make_mut h l in
            match norm_index (length (citems c)) z with
            | Some n =>
              match nth_item n (citems c) with
              | Some e =>
                let h2 := put_item h1 l' n HNull in
                let '(h3, e', r) := m_mevery rest f h2 e in
                (put_item h3 l' n e', HRef l' d, r)
              | None => (h1, HRef l' d, None)
              end
            | None => (h1, HRef l' d, None)
            end
          | PSl lo hi =>
            let '(a, b) := slice_bounds (length (citems c)) lo hi in
            let '(h1, l') := make_mut h l in
            let '(h2, ok) := m_range (fun hh e => let '(h', e', r) := m_mevery rest f hh e in
                                                  (h', e', match r with Some _ => true | None => false end)) h1 l' a (b - a) in
            (h2, HRef l' d, if ok then Some HNull else None)
          | _ => let '(h1, l') := make_mut h l in (h1, HRef l' d, None)
          end
        | KDict =>
          match pe with
          | PSl _ _ => (h, cur, None)
          | _ =>
            match key_of_pelem pe with
            | Some k =>
              let '(h1, l') := make_mut h l in
              match find_key k (citems c) with
              | Some n =>
                match nth_item n (citems c) with
                | Some e =>
                  let h2 := put_item h1 l' n HNull in
                  let '(h3, e', r) := m_mevery rest f h2 e in
                  (put_item h3 l' n e', HRef l' d, r)
                | None => (h1, HRef l' d, None)
                end
              | None =>
                match d with
                | Some dv =>
                  (* e.insert(default.clone()), then recurse on the inserted slot *)
                  let h2 := clone_val h1 dv in
                  let n := length (citems c) in
                  let h3 := set_items h2 l' (citems c ++ [(k, HNull)]) in
                  let '(h4, e', r) := m_mevery rest f h3 dv in
                  (put_item h4 l' n e', HRef l' d, r)
                | None => (h1, HRef l' d, None)
                end
              end
            | None => (h, cur, None)
            end
          end
        | _ => (h, cur, None)
        end
      end
    | HInst sid fields =>
      match pe with
      | PF sid' fl =>
        if Nat.eqb sid sid' then
          match nth_error fields fl with
          | Some e => let '(h1, e', r) := m_mevery rest f h e in (h1, HInst sid (hset_field fl e' fields), r)
          | None => (h, cur, None)
          end
        else (h, cur, None)
      | _ => (h, cur, None)
      end
    | _ => (h, cur, None)
    end
  end.

(* Obj::try_pop: Rc::make_mut(xs).pop() *)
Definition m_f_pop (h : heap) (v : hval) : mres :=
  match v with
  | HRef l d =>
    match get_cell h l with
    | Some c =>
      match ckind c with
      | KList =>
        let '(h1, l') := make_mut h l in
        match nth_item (length (citems c) - 1) (citems c) with
        | Some e => (set_items h1 l' (removelast (citems c)), HRef l' d, Some e)
        | None => (h1, HRef l' d, None)
        end
      | _ => (h, v, None)
      end
    | None => (h, v, None)
    end
  | _ => (h, v, None)
  end.

(* Obj::try_remove_index / try_remove_slice *)
Definition m_f_remove (pe : pelem) (h : heap) (v : hval) : mres :=
  match v with
  | HRef l d =>
    match get_cell h l with
    | Some c =>
      match ckind c with
      | KList =>
        match pe with
        | PI z =>
          match norm_index (length (citems c)) z with
          | Some n =>
            match nth_item n (citems c) with
            | Some e => let '(h1, l') := make_mut h l in
                        (set_items h1 l' (del_nth n (citems c)), HRef l' d, Some e)
            | None => (h, v, None)
            end
          | None => (h, v, None)
          end
        | PSl lo hi =>
          let '(a, b) := slice_bounds (length (citems c)) lo hi in
          let '(h1, l') := make_mut h l in
          let h2 := set_items h1 l' (firstn a (citems c) ++ skipn b (citems c)) in
          let '(h3, lr) := alloc h2 KList (sub_items (citems c) a b) in
          (h3, HRef l' d, Some (HRef lr None))
        | _ => (h, v, None)
        end
      | KDict =>
        match pe with
        | PSl _ _ => (h, v, None)
        | _ =>
          let '(h1, l') := make_mut h l in
          match key_of_pelem pe with
          | Some k =>
            match find_key k (citems c) with
            | Some n =>
              match nth_item n (citems c) with
              | Some e => (set_items h1 l' (del_nth n (citems c)), HRef l' d, Some e)
              | None => (h1, HRef l' d, None)
              end
            | None => (h1, HRef l' d, None)
            end
          | None => (h1, HRef l' d, None)
          end
        end
      | _ => (h, v, None)
      end
    | None => (h, v, None)
    end
  | _ => (h, v, None)
  end.

(* consume: std::mem::take *)
Definition m_f_consume (h : heap) (v : hval) : mres := (h, HNull, Some v).

(* ------------------------------------------------------------------ the consuming builtins *)
Fixpoint hbytes_of_items (items : list (key * hval)) : option (list Z) :=
  match items with
  | [] => Some []
  | (_, HInt b) :: tl => match hbytes_of_items tl with Some r => Some (b :: r) | None => None end
  | _ => None
  end.
Definition hkey_of_val (h : heap) (v : hval) : option key :=
  match v with
  | HInt z => Some (KI z)
  | HRef l _ => match get_cell h l with
                | Some c => match ckind c with
                            | KStr => match hbytes_of_items (citems c) with Some bs => Some (KB bs) | None => None end
                            | _ => None
                            end
                | None => None
                end
  | _ => None
  end.

Fixpoint hzip_plus (a b : list (key * hval)) : option (list (key * hval)) :=
  match a, b with
  | [], [] => Some []
  | (_, HInt x) :: a', (_, HInt y) :: b' =>
    match hzip_plus a' b' with Some r => Some ((nokey, HInt (x + y)%Z) :: r) | None => None end
  | _, _ => None
  end.
Fixpoint hmap_plus (z : Z) (a : list (key * hval)) : option (list (key * hval)) :=
  match a with
  | [] => Some []
  | (_, HInt x) :: a' => match hmap_plus z a' with Some r => Some ((nokey, HInt (x + z)%Z) :: r) | None => None end
  | _ => None
  end.

Definition kind_of (h : heap) (v : hval) : option kind :=
  match v with
  | HRef l _ => match get_cell h l with Some c => Some (ckind c) | None => None end
  | _ => None
  end.
Definition ref_loc (v : hval) : loc := match v with HRef l _ => l | _ => 0 end.
Definition ref_dflt (v : hval) : option hval := match v with HRef _ d => d | _ => None end.

(* HashMap::insert into the (uniquely owned) dict cell l: an existing value is dropped *)
Definition m_put_key (h : heap) (l : loc) (k : key) (e : hval) : heap :=
  match find_key k (items_of h l) with
  | Some n => match nth_item n (items_of h l) with
              | Some old => drop_val (put_item h l n e) old
              | None => h
              end
  | None => set_items h l (items_of h l ++ [(k, e)])
  end.

Definition drop2 (h : heap) (a b : hval) : heap := drop_val (drop_val h a) b.

(* the items of a sequence as owned values for `|..`: k and v are what it.next() twice yields
   (a string yields one-character strings: not used as an update pair by the histories) *)
Definition pair_of (h : heap) (b : hval) : option (hval * hval) :=
  match kind_of h b with
  | Some KList | Some KVec | Some KBytes =>
    match items_of h (ref_loc b) with
    | [(_, k); (_, w)] => Some (k, w)
    | _ => None
    end
  | _ => None
  end.
(* a two-character string: the iterator yields two fresh one-character strings *)
Definition str_pair_of (h : heap) (b : hval) : option (hval * hval) :=
  match kind_of h b with
  | Some KStr =>
    match items_of h (ref_loc b) with
    | [(_, k); (_, w)] => Some (k, w)
    | _ => None
    end
  | _ => None
  end.

Definition m_bop (f : bop) (h : heap) (a b : hval) : heap * option hval :=
  match f with
  | BAppend =>
    match kind_of h a with
    | Some KList =>
      let '(h1, l') := make_mut h (ref_loc a) in
      (set_items h1 l' (items_of h1 l' ++ [(nokey, b)]), Some (HRef l' (ref_dflt a)))
    | Some KVec =>
      let '(h1, l') := make_mut h (ref_loc a) in
      match b with
      | HInt _ => (set_items h1 l' (items_of h1 l' ++ [(nokey, b)]), Some (HRef l' (ref_dflt a)))
      | _ => (drop2 h1 (HRef l' (ref_dflt a)) b, None)
      end
    | Some KBytes =>
      let '(h1, l') := make_mut h (ref_loc a) in
      match b with
      | HInt n => if is_byte n
                  then (set_items h1 l' (items_of h1 l' ++ [(nokey, b)]), Some (HRef l' (ref_dflt a)))
                  else (drop2 h1 (HRef l' (ref_dflt a)) b, None)
      | _ => (drop2 h1 (HRef l' (ref_dflt a)) b, None)
      end
    | _ => (drop2 h a b, None)
    end
  | BConcat =>
    match kind_of h a, kind_of h b with
    | Some ka, Some kb =>
      if kind_eqb ka kb && negb (kind_eqb ka KDict) && negb (kind_eqb ka KStr) then
        let '(h1, la) := make_mut h (ref_loc a) in
        let '(h2, lb) := make_mut h1 (ref_loc b) in
        let moved := items_of h2 lb in
        let h3 := set_items h2 lb [] in
        let h4 := set_items h3 la (items_of h3 la ++ moved) in
        (drop_val h4 (HRef lb (ref_dflt b)), Some (HRef la (ref_dflt a)))
      else (drop2 h a b, None)
    | _, _ => (drop2 h a b, None)
    end
  | BPlus =>
    match a, b with
    | HInt x, HInt y => (h, Some (HInt (x + y)%Z))
    | _, _ =>
      let r :=
        match kind_of h a, b with
        | Some KVec, HInt y => hmap_plus y (items_of h (ref_loc a))
        | _, _ =>
          match a, kind_of h b with
          | HInt x, Some KVec => hmap_plus x (items_of h (ref_loc b))
          | _, _ =>
            match kind_of h a, kind_of h b with
            | Some KVec, Some KVec => hzip_plus (items_of h (ref_loc a)) (items_of h (ref_loc b))
            | _, _ => None
            end
          end
        end in
      match r with
      | Some its => let '(h1, l') := alloc h KVec its in (drop2 h1 a b, Some (HRef l' None))
      | None => (drop2 h a b, None)
      end
    end
  | BAddKey =>
    match kind_of h a with
    | Some KDict =>
      let '(h1, l') := make_mut h (ref_loc a) in
      match hkey_of_val h1 b with
      | Some k => (drop_val (m_put_key h1 l' k HNull) b, Some (HRef l' (ref_dflt a)))
      | None => (drop2 h1 (HRef l' (ref_dflt a)) b, None)
      end
    | _ => (drop2 h a b, None)
    end
  | BDelKey =>
    match kind_of h a with
    | Some KDict =>
      let '(h1, l') := make_mut h (ref_loc a) in
      match hkey_of_val h1 b with
      | Some k =>
        match find_key k (items_of h1 l') with
        | Some n => match nth_item n (items_of h1 l') with
                    | Some old => (drop2 (set_items h1 l' (del_nth n (items_of h1 l'))) old b, Some (HRef l' (ref_dflt a)))
                    | None => (drop_val h1 b, Some (HRef l' (ref_dflt a)))
                    end
        | None => (drop_val h1 b, Some (HRef l' (ref_dflt a)))
        end
      | None => (drop2 h1 (HRef l' (ref_dflt a)) b, None)
      end
    | _ => (drop2 h a b, None)
    end
  | BUnion =>
    match kind_of h a, kind_of h b with
    | Some KDict, Some KDict =>
      let '(h1, la) := make_mut h (ref_loc a) in
      let '(h2, lb) := make_mut h1 (ref_loc b) in
      let moved := items_of h2 lb in
      let h3 := set_items h2 lb [] in
      let h4 := fold_left (fun hh kv => m_put_key hh la (fst kv) (snd kv)) moved h3 in
      (drop_val h4 (HRef lb (ref_dflt b)), Some (HRef la (ref_dflt a)))
    | _, _ => (drop2 h a b, None)
    end
  | BUpdate =>
    match kind_of h a with
    | Some KList =>
      match pair_of h b with
      | Some (k, w) =>
        match k with
        | HInt z =>
          match norm_index (length (items_of h (ref_loc a))) z with
          | Some n =>
            let h1 := drop_val (clone_val h w) b in
            let '(h2, l') := make_mut h1 (ref_loc a) in
            match nth_item n (items_of h2 l') with
            | Some old => (drop_val (put_item h2 l' n w) old, Some (HRef l' (ref_dflt a)))
            | None => (h2, Some (HRef l' (ref_dflt a)))
            end
          | None => (drop2 h a b, None)
          end
        | _ => (drop2 h a b, None)
        end
      | None => (drop2 h a b, None)      (* includes a string pair: a string is not a list index *)
      end
    | Some KDict =>
      match pair_of h b with
      | Some (k, w) =>
        match hkey_of_val h k with
        | Some kk =>
          let h1 := drop_val (clone_val h w) b in
          let '(h2, l') := make_mut h1 (ref_loc a) in
          (m_put_key h2 l' kk w, Some (HRef l' (ref_dflt a)))
        | None => (drop2 h a b, None)
        end
      | None =>
        match str_pair_of h b with
        | Some (HInt kb, wb) =>
          let '(h0, lw) := alloc (clone_val h wb) KStr [(nokey, wb)] in
          let h1 := drop_val h0 b in
          let '(h2, l') := make_mut h1 (ref_loc a) in
          (m_put_key h2 l' (KB [kb]) (HRef lw None), Some (HRef l' (ref_dflt a)))
        | _ => (drop2 h a b, None)
        end
      end
    | _ => (drop2 h a b, None)
    end
  end.

(* ------------------------------------------------------------------ op-assign *)
(* steps 3-5 of the hot path (eval.rs ~997-1013): the old value and the right operand have been
   evaluated; cur is the variable's content.  drop_lhs, call, assign back. *)
Definition m_opassign (p : path) (f : bop) (h : heap) (cur old w : hval) : heap * hval * bool :=
  let '(h1, cur1, ok1) := m_set true p None h cur in
  if negb ok1 then (drop2 h1 old w, cur1, false) else
  match m_bop f h1 old w with
  | (h2, None) => (h2, cur1, false)
  | (h2, Some r) => m_set false p (Some r) h2 cur1
  end.

(* a mutation form on the content `cur` of one variable (a real variable or a closure parameter);
   its literal operand is evaluated at the point the Rust code evaluates the right-hand side *)
Definition m_lop (m : lop) (h : heap) (cur : hval) : mres :=
  match m with
  | LSet p w =>
    let '(h1, wv) := alloc_val h w in
    let '(h2, cur', ok) := m_set false p (Some wv) h1 cur in (h2, cur', if ok then Some HNull else None)
  | LEvery p w =>
    let '(h1, wv) := alloc_val h w in
    let '(h2, cur', ok) := m_set true p (Some wv) h1 cur in (h2, cur', if ok then Some HNull else None)
  | LOp p f w =>
    match m_read h cur p with
    | (h1, None) => (h1, cur, None)
    | (h1, Some old) =>
      let '(h2, wv) := alloc_val h1 w in
      let '(h3, cur', ok) := m_opassign p f h2 cur old wv in (h3, cur', if ok then Some HNull else None)
    end
  | LPop p => m_modify p m_f_pop h cur
  | LRemove p i => m_modify p (m_f_remove i) h cur
  | LConsume p => m_modify p m_f_consume h cur
  end.

(* ------------------------------------------------------------------ expressions *)
Record mstate := mkst { mheap : heap; roots : list hval }.

Definition set_root (rs : list hval) (x : nat) (v : hval) : list hval := hset_field x v rs.

Fixpoint m_eval (rs : list hval) (h : heap) (e : expr) : heap * option hval :=
  match e with
  | ELit v => let '(h1, w) := alloc_val h v in (h1, Some w)
  | ERead x p => match nth_error rs x with Some v => m_read h v p | None => (h, None) end
  | EGet x => match nth_error rs x with Some v => (clone_val h v, Some v) | None => (h, None) end
  | EList es =>
    let '(h1, r) :=
      (fix go (h : heap) (l : list expr) : heap * option (list (key * hval)) :=
         match l with
         | [] => (h, Some [])
         | e1 :: tl =>
           match m_eval rs h e1 with
           | (h1, Some v) =>
             match go h1 tl with
             | (h2, Some r) => (h2, Some ((nokey, v) :: r))
             | (h2, None) => (drop_val h2 v, None)
             end
           | (h1, None) => (h1, None)
           end
         end) h es in
    match r with
    | Some its => let '(h2, l) := alloc h1 KList its in (h2, Some (HRef l None))
    | None => (h1, None)
    end
  | EUpd e k e2 =>
    match m_eval rs h e with
    | (h1, Some v) =>
      match m_eval rs h1 e2 with
      | (h2, Some w) =>
        let '(h3, v', ok) := m_set false [k] (Some w) h2 v in
        if ok then (h3, Some v') else (drop_val h3 v', None)
      | (h2, None) => (drop_val h2 v, None)
      end
    | (h1, None) => (h1, None)
    end
  | ECall m e =>
    match m_eval rs h e with
    | (h1, Some v) =>
      let '(h2, a', r) := m_lop m h1 v in
      match r with
      | Some res => (drop_val h2 res, Some a')
      | None => (drop_val h2 a', None)
      end
    | (h1, None) => (h1, None)
    end
  end.

(* ------------------------------------------------------------------ statements *)
Definition m_assign_to (st : mstate) (every : bool) (x : nat) (p : path) (w : hval) : mstate * bool :=
  match nth_error (roots st) x with
  | Some cur => let '(h1, cur', ok) := m_set every p (Some w) (mheap st) cur in
                (mkst h1 (set_root (roots st) x cur'), ok)
  | None => (mkst (drop_val (mheap st) w) (roots st), false)
  end.

Definition m_every_leaf (f : bop) (w : hval) (h : heap) (a : hval) : mres :=
  match m_bop f (clone_val h w) a w with
  | (h1, Some r) => (h1, r, Some HNull)
  | (h1, None) => (h1, HNull, None)
  end.

Fixpoint drop_vals (h : heap) (vs : list hval) : heap :=
  match vs with [] => h | v :: tl => drop_vals (drop_val h v) tl end.

(* eval_lvalue_as_obj of every target of an and-pattern, in order; a failure releases what was read *)
Fixpoint m_read_all (rs : list hval) (h : heap) (ts : list (nat * path)) : heap * option (list hval) :=
  match ts with
  | [] => (h, Some [])
  | (x, p) :: tl =>
    match nth_error rs x with
    | None => (h, None)
    | Some cur =>
      match m_read h cur p with
      | (h1, None) => (h1, None)
      | (h1, Some old) =>
        match m_read_all rs h1 tl with
        | (h2, Some olds) => (h2, Some (old :: olds))
        | (h2, None) => (drop_val h2 old, None)
        end
      end
    end
  end.

(* the last target takes the right-hand value itself, the others a clone *)
Fixpoint m_and_loop (f : bop) (w : hval) (h : heap) (rs : list hval) (l : list ((nat * path) * hval)) : mstate * bool :=
  match l with
  | [] => (mkst (drop_val h w) rs, true)
  | ((x, p), old) :: tl =>
    let last := match tl with [] => true | _ => false end in
    match nth_error rs x with
    | None => (mkst (drop_vals (drop_val (drop_val h w) old) (map snd tl)) rs, false)
    | Some cur =>
      let h0 := if last then h else clone_val h w in
      let '(h1, cur', ok) := m_opassign p f h0 cur old w in
      let rs1 := set_root rs x cur' in
      if ok then (if last then (mkst h1 rs1, true) else m_and_loop f w h1 rs1 tl)
      else (mkst (drop_vals (if last then h1 else drop_val h1 w) (map snd tl)) rs1, false)
    end
  end.

Definition m_exec_s (st : mstate) (s : sstmt) : mstate * bool :=
  let h := mheap st in
  let rs := roots st in
  match s with
  | SAssign x p e =>
    match m_eval rs h e with
    | (h1, Some w) => m_assign_to (mkst h1 rs) false x p w
    | (h1, None) => (mkst h1 rs, false)
    end
  | SEvery x p e =>
    match m_eval rs h e with
    | (h1, Some w) => m_assign_to (mkst h1 rs) true x p w
    | (h1, None) => (mkst h1 rs, false)
    end
  | SOp x p f e =>
    match nth_error rs x with
    | None => (st, false)
    | Some cur =>
      match m_read h cur p with
      | (h1, None) => (mkst h1 rs, false)
      | (h1, Some old) =>
        match m_eval rs h1 e with
        | (h2, None) => (mkst (drop_val h2 old) rs, false)
        | (h2, Some w) =>
          let '(h3, cur', ok) := m_opassign p f h2 cur old w in
          (mkst h3 (set_root rs x cur'), ok)
        end
      end
    end
  | SMod dst x m =>
    match nth_error rs x with
    | None => (st, false)
    | Some cur =>
      let '(h1, cur', r) := m_lop m h cur in
      let st1 := mkst h1 (set_root rs x cur') in
      match r with
      | None => (st1, false)
      | Some res =>
        match dst with
        | None => (mkst (drop_val h1 res) (roots st1), true)
        | Some (y, q) => m_assign_to st1 false y q res
        end
      end
    end
  | SSwap x p y q =>
    match nth_error rs x, nth_error rs y with
    | Some vx, Some vy =>
      match m_read h vx p with
      | (h1, None) => (mkst h1 rs, false)
      | (h1, Some a) =>
        match m_read h1 vy q with
        | (h2, None) => (mkst (drop_val h2 a) rs, false)
        | (h2, Some b) =>
          let '(st1, ok1) := m_assign_to (mkst h2 rs) false x p b in
          if ok1 then m_assign_to st1 false y q a
          else (mkst (drop_val (mheap st1) a) (roots st1), false)
        end
      end
    | Some vx, None =>
      match m_read h vx p with
      | (h1, Some a) => (mkst (drop_val h1 a) rs, false)
      | (h1, None) => (mkst h1 rs, false)
      end
    | None, _ => (st, false)
    end
  | SOpMod x p f wrap y m =>
    match nth_error rs x with
    | None => (st, false)
    | Some cur =>
      match m_read h cur p with
      | (h1, None) => (mkst h1 rs, false)
      | (h1, Some old) =>
        match nth_error rs y with
        | None => (mkst (drop_val h1 old) rs, false)
        | Some cy =>
          let '(h2, cy', r) := m_lop m h1 cy in
          let rs1 := set_root rs y cy' in
          match r with
          | None => (mkst (drop_val h2 old) rs1, false)
          | Some res =>
            let '(h3, w) := if wrap then let '(hh, l) := alloc h2 KList [(nokey, res)] in (hh, HRef l None)
                            else (h2, res) in
            match nth_error rs1 x with
            | None => (mkst (drop2 h3 old w) rs1, false)
            | Some cur1 =>
              let '(h4, cur', ok) := m_opassign p f h3 cur1 old w in
              (mkst h4 (set_root rs1 x cur'), ok)
            end
          end
        end
      end
    end
  | SOpDef x p d f e =>
    match nth_error rs x with
    | None => (st, false)
    | Some cur =>
      match m_read_wd h cur p d with
      | (h1, None) => (mkst h1 rs, false)
      | (h1, Some old) =>
        match m_eval rs h1 e with
        | (h2, None) => (mkst (drop_val h2 old) rs, false)
        | (h2, Some w) =>
          let '(h3, cur', ok) := m_opassign p f h2 cur old w in
          (mkst h3 (set_root rs x cur'), ok)
        end
      end
    end
  | SEveryOp x p f e =>
    match m_eval rs h e with
    | (h1, None) => (mkst h1 rs, false)
    | (h1, Some w) =>
      match nth_error rs x with
      | None => (mkst (drop_val h1 w) rs, false)
      | Some cur =>
        (* `let mut old = get_var(x)`: a second handle; the variable keeps its own until the write-back *)
        let '(h2, cur', r) := m_mevery p (m_every_leaf f w) (clone_val h1 cur) cur in
        let h3 := drop_val h2 w in
        match r with
        | Some _ => (mkst (drop_val h3 cur) (set_root rs x cur'), true)
        | None => (mkst (drop_val h3 cur') rs, false)
        end
      end
    end
  | SAndOp ts f e =>
    match m_read_all rs h ts with
    | (h1, None) => (mkst h1 rs, false)
    | (h1, Some olds) =>
      match m_eval rs h1 e with
      | (h2, None) => (mkst (drop_vals h2 olds) rs, false)
      | (h2, Some w) => m_and_loop f w h2 rs (combine ts olds)
      end
    end
  end.

Fixpoint m_exec_list (st : mstate) (l : list sstmt) : mstate * bool :=
  match l with
  | [] => (st, true)
  | s :: tl => let '(st1, ok) := m_exec_s st s in if ok then m_exec_list st1 tl else (st1, false)
  end.

(* the elements the iterator will yield, as owned values, and the heap after producing them all:
   RcVecIter::of drains a uniquely owned payload and clones out of a shared one; a string yields
   fresh one-character strings.  (Producing them up front instead of lazily changes no count that a
   statement of the body can see: see notes/C02.md.) *)
Definition m_iter_elems (h : heap) (src : hval) : heap * option (list hval) :=
  match src with
  | HRef l d =>
    match get_cell h l with
    | Some c =>
      match ckind c with
      | KDict => (drop_val h src, None)
      | KStr =>
        let '(h1, es) :=
          fold_left (fun acc kv => let '(hh, es) := acc in
                                   let '(hh1, l') := alloc (clone_val hh (snd kv)) KStr [(nokey, snd kv)] in (hh1, es ++ [HRef l' None]))
                    (citems c) (h, []) in
        (h1, Some es)
      | _ => if cnt c =? 1
             then (set_items h l [], Some (map snd (citems c)))                                  (* Draining *)
             else (clone_locs h (handles_items (citems c)), Some (map snd (citems c)))           (* Cloning *)
      end
    | None => (h, None)
    end
  | _ => (drop_val h src, None)
  end.

(* for (it <- src) body: every iteration declares `it` afresh in a child scope (root 0 here), runs the
   body and drops the scope.  pending = the elements not yet bound (owned). *)
Fixpoint m_exec_for (st : mstate) (pending : list hval) (body : list sstmt) : mstate * bool :=
  match pending with
  | [] => (st, true)
  | e :: tl =>
    let st0 := mkst (mheap st) (set_root (roots st) 0 e) in
    let '(st1, ok) := m_exec_list st0 body in
    let h2 := match nth_error (roots st1) 0 with Some itv => drop_val (mheap st1) itv | None => mheap st1 end in
    let st2 := mkst h2 (set_root (roots st1) 0 HNull) in
    if ok then m_exec_for st2 tl body
    else (mkst (fold_left drop_val tl (mheap st2)) (roots st2), false)
  end.

Definition m_exec (st : mstate) (s : stmt) : mstate * bool :=
  match s with
  | Simple s => m_exec_s st s
  | SFor x p body =>
    match m_eval (roots st) (mheap st) (ERead x p) with
    | (h1, None) => (mkst h1 (roots st), false)
    | (h1, Some src) =>
      match m_iter_elems h1 src, nth_error (roots st) 0 with
      | (h2, Some elems), Some saved =>
        let '(st1, ok) := m_exec_for (mkst h2 (set_root (roots st) 0 HNull)) elems body in
        (* the iterator (and with it the source handle) is dropped when the loop ends *)
        (mkst (drop_val (mheap st1) src) (set_root (roots st1) 0 saved), ok)
      | (h2, _), _ => (mkst h2 (roots st), false)
      end
    end
  end.

Fixpoint run_cow (st : mstate) (ops : list stmt) : list (mstate * bool) :=
  match ops with
  | [] => []
  | s :: tl => let r := m_exec st s in r :: run_cow (fst r) tl
  end.

Definition final_cow (st : mstate) (ops : list stmt) : mstate :=
  fold_left (fun s o => fst (m_exec s o)) ops st.

Definition init_state (nvars : nat) : mstate := mkst empty_heap (repeat HNull nvars).
