(* Proofs about the Rc primitives of Rc/Heap.v.

   Inv h R      : every strong count equals the number of handles to that cell held by the owners
                  outside the heap (R: the variables and temporaries, as a multiset of locations) plus
                  the number held by cell bodies.  (So: no dangling handle, nothing points to a freed
                  cell, and a count of 1 means there is exactly one handle.)
   repr h v t   : the handle value v stands for the pure tree t in heap h (well founded: the part of
                  the heap reachable from v is acyclic).
   Frame h h' F : every value whose handles are among F stands for the same tree in h' as in h.
   NoNew ..     : an old location that nobody mentioned before is not mentioned afterwards.
   Step         : the four of them together; the specification format of every operation. *)
From Coq Require Import ZArith List Bool Arith Lia.
From NV Require Import Rc.ValueSem Rc.Heap.
Import ListNotations.
Local Open Scope nat_scope.

(* ------------------------------------------------------------------ multisets of locations *)
Definition occ (l : loc) (ls : list loc) : nat := count_occ Nat.eq_dec ls l.

Lemma occ_nil l : occ l [] = 0. Proof. reflexivity. Qed.
Lemma occ_app l a b : occ l (a ++ b) = occ l a + occ l b.
Proof. unfold occ. apply count_occ_app. Qed.
Lemma occ_cons l x a : occ l (x :: a) = (if Nat.eq_dec x l then 1 else 0) + occ l a.
Proof. unfold occ. simpl. destruct (Nat.eq_dec x l); reflexivity. Qed.
Lemma occ_cons_eq l a : occ l (l :: a) = S (occ l a).
Proof. rewrite occ_cons. destruct (Nat.eq_dec l l); [reflexivity | congruence]. Qed.
Lemma occ_cons_neq l x a : x <> l -> occ l (x :: a) = occ l a.
Proof. intro. rewrite occ_cons. destruct (Nat.eq_dec x l); [congruence | reflexivity]. Qed.
Lemma occ_In l a : In l a <-> occ l a > 0.
Proof. unfold occ. apply count_occ_In. Qed.
Lemma occ_notIn l a : ~ In l a <-> occ l a = 0.
Proof. unfold occ. apply count_occ_not_In. Qed.
Lemma occ_zero_app l a b : occ l (a ++ b) = 0 -> occ l a = 0 /\ occ l b = 0.
Proof. rewrite occ_app. lia. Qed.

Ltac occ_norm := repeat (rewrite ?occ_app, ?occ_cons_eq, ?occ_nil in * ).

(* ------------------------------------------------------------------ list_upd / cells *)
Lemma list_upd_length {A} (l : list A) n a : length (list_upd l n a) = length l.
Proof. revert n; induction l; destruct n; simpl; auto. Qed.

Lemma nth_error_list_upd_eq {A} (l : list A) n a : n < length l -> nth_error (list_upd l n a) n = Some a.
Proof. revert n; induction l; destruct n; simpl; intros; try lia; auto. apply IHl; lia. Qed.

Lemma nth_error_list_upd_neq {A} (l : list A) n m a : n <> m -> nth_error (list_upd l n a) m = nth_error l m.
Proof. revert n m; induction l; destruct n, m; simpl; intros; try congruence; auto. Qed.

Lemma get_cell_lt h l c : get_cell h l = Some c -> l < length (cells h).
Proof. unfold get_cell. intro H. apply nth_error_Some. congruence. Qed.

Lemma get_cell_set_eq h l c c0 : get_cell h l = Some c0 -> get_cell (set_cell h l c) l = Some c.
Proof. intro H. unfold get_cell, set_cell; simpl. apply nth_error_list_upd_eq. eapply get_cell_lt; eauto. Qed.

Lemma get_cell_set_neq h l m c : l <> m -> get_cell (set_cell h l c) m = get_cell h m.
Proof. intro. unfold get_cell, set_cell; simpl. apply nth_error_list_upd_neq; auto. Qed.

Lemma length_set_cell h l c : length (cells (set_cell h l c)) = length (cells h).
Proof. unfold set_cell; simpl. apply list_upd_length. Qed.

Lemma cnt_of_set_eq h l c c0 : get_cell h l = Some c0 -> cnt_of (set_cell h l c) l = cnt c.
Proof. intro. unfold cnt_of. erewrite get_cell_set_eq; eauto. Qed.
Lemma cnt_of_set_neq h l m c : l <> m -> cnt_of (set_cell h l c) m = cnt_of h m.
Proof. intro. unfold cnt_of. rewrite get_cell_set_neq; auto. Qed.

Lemma cnt_of_pos_cell h l : cnt_of h l > 0 -> exists c, get_cell h l = Some c /\ cnt c > 0.
Proof. unfold cnt_of. destruct (get_cell h l); intros; [eauto | lia]. Qed.

(* handles of the heap under a cell update: the old body's handles go, the new body's come *)
Lemma occ_heap_set_cell h l c c0 x :
  get_cell h l = Some c0 ->
  occ x (handles_heap (set_cell h l c)) + occ x (handles_items (citems c0))
  = occ x (handles_heap h) + occ x (handles_items (citems c)).
Proof.
  unfold handles_heap, set_cell, get_cell; simpl. generalize (cells h). intro cs.
  revert l. induction cs as [|a cs IH]; intros l H.
  - destruct l; discriminate.
  - destruct l; simpl in *.
    + inversion H; subst. rewrite !occ_app. lia.
    + rewrite !occ_app. specialize (IH l H). lia.
Qed.

Lemma In_handles_heap h l c x :
  get_cell h l = Some c -> In x (handles_items (citems c)) -> In x (handles_heap h).
Proof.
  unfold handles_heap, get_cell. intros H Hin. apply in_flat_map. exists c. split; auto.
  eapply nth_error_In; eauto.
Qed.

Lemma handles_items_app a b : handles_items (a ++ b) = handles_items a ++ handles_items b.
Proof. unfold handles_items. apply flat_map_app. Qed.

Lemma handles_heap_alloc h k its :
  handles_heap (fst (alloc h k its)) = handles_heap h ++ handles_items its.
Proof. unfold alloc, handles_heap; simpl. rewrite flat_map_app. simpl. rewrite app_nil_r. reflexivity. Qed.

(* ------------------------------------------------------------------ the count invariant *)
Definition Inv (h : heap) (R : list loc) : Prop :=
  forall l, cnt_of h l = occ l R + occ l (handles_heap h).

Lemma Inv_equiv h R R' : (forall l, occ l R = occ l R') -> Inv h R -> Inv h R'.
Proof. intros E I l. rewrite <- E. apply I. Qed.

Lemma Inv_mention_pos h R l : Inv h R -> In l R \/ In l (handles_heap h) -> cnt_of h l > 0.
Proof. intros I [H|H]; apply occ_In in H; rewrite (I l); lia. Qed.

Lemma Inv_valid h R l : Inv h R -> In l R \/ In l (handles_heap h) -> l < length (cells h).
Proof.
  intros I H. destruct (cnt_of_pos_cell h l (Inv_mention_pos _ _ _ I H)) as [c [Hc _]].
  eapply get_cell_lt; eauto.
Qed.

Lemma Inv_fresh_unmentioned h R l : Inv h R -> length (cells h) <= l -> occ l R = 0 /\ occ l (handles_heap h) = 0.
Proof.
  intros I Hl. specialize (I l). unfold cnt_of, get_cell in I.
  destruct (nth_error (cells h) l) eqn:E.
  - assert (l < length (cells h)) by (apply nth_error_Some; congruence). lia.
  - lia.
Qed.

(* ------------------------------------------------------------------ the abstraction relation *)
Inductive repr (h : heap) : hval -> val -> Prop :=
| R_null : repr h HNull VNull
| R_int z : repr h (HInt z) (VInt z)
| R_ref l d c its dv :
    get_cell h l = Some c -> repr_items h (citems c) its -> repr_opt h d dv ->
    repr h (HRef l d) (VSeq (ckind c) its dv)
| R_inst sid fs ts : repr_list h fs ts -> repr h (HInst sid fs) (VInst sid ts)
with repr_items (h : heap) : list (key * hval) -> list (key * val) -> Prop :=
| RI_nil : repr_items h [] []
| RI_cons k e t es ts : repr h e t -> repr_items h es ts -> repr_items h ((k, e) :: es) ((k, t) :: ts)
with repr_list (h : heap) : list hval -> list val -> Prop :=
| RL_nil : repr_list h [] []
| RL_cons e t es ts : repr h e t -> repr_list h es ts -> repr_list h (e :: es) (t :: ts)
with repr_opt (h : heap) : option hval -> option val -> Prop :=
| RO_none : repr_opt h None None
| RO_some e t : repr h e t -> repr_opt h (Some e) (Some t).

Scheme repr_mut := Induction for repr Sort Prop
  with repr_items_mut := Induction for repr_items Sort Prop
  with repr_list_mut := Induction for repr_list Sort Prop
  with repr_opt_mut := Induction for repr_opt Sort Prop.
Combined Scheme repr_mutind from repr_mut, repr_items_mut, repr_list_mut, repr_opt_mut.

Lemma handles_inst sid fs : handles (HInst sid fs) = handles_list fs.
Proof. simpl. induction fs; simpl; auto. Qed.
Lemma handles_ref l d : handles (HRef l d) = l :: handles_opt d.
Proof. reflexivity. Qed.
Global Opaque handles.
Lemma handles_null : handles HNull = []. Proof. reflexivity. Qed.
Lemma handles_int z : handles (HInt z) = []. Proof. reflexivity. Qed.

(* repr is a partial function *)
Lemma repr_det_all h :
  (forall v t, repr h v t -> forall t', repr h v t' -> t = t') /\
  (forall es ts, repr_items h es ts -> forall ts', repr_items h es ts' -> ts = ts') /\
  (forall es ts, repr_list h es ts -> forall ts', repr_list h es ts' -> ts = ts') /\
  (forall o t, repr_opt h o t -> forall t', repr_opt h o t' -> t = t').
Proof.
  apply repr_mutind; intros.
  - inversion H; auto.
  - inversion H; auto.
  - inversion H1; subst. rewrite e in H4. inversion H4; subst. f_equal; auto.
  - inversion H0; subst. f_equal; auto.
  - inversion H; auto.
  - inversion H1; subst. f_equal; [f_equal|]; auto.
  - inversion H; auto.
  - inversion H1; subst. f_equal; auto.
  - inversion H; auto.
  - inversion H0; subst. f_equal; auto.
Qed.
Lemma repr_det h v t t' : repr h v t -> repr h v t' -> t = t'.
Proof. intros. eapply (proj1 (repr_det_all h)); eauto. Qed.

(* body h l = body h' l *)
Definition same_body (h h' : heap) (l : loc) : Prop :=
  forall c, get_cell h l = Some c ->
  exists c', get_cell h' l = Some c' /\ ckind c' = ckind c /\ citems c' = citems c.

Lemma same_body_refl h l : same_body h h l.
Proof. intros c H; eauto. Qed.
Lemma same_body_trans h1 h2 h3 l : same_body h1 h2 l -> same_body h2 h3 l -> same_body h1 h3 l.
Proof.
  intros A B c H. destruct (A c H) as [c2 [H2 [K2 I2]]]. destruct (B c2 H2) as [c3 [H3 [K3 I3]]].
  exists c3. repeat split; congruence.
Qed.

(* a value that does not mention l', in a heap whose bodies do not mention l', does not depend on cell l' *)
Lemma repr_frame_all h h' l' :
  (forall l, l <> l' -> same_body h h' l) ->
  occ l' (handles_heap h) = 0 ->
  (forall v t, repr h v t -> ~ In l' (handles v) -> repr h' v t) /\
  (forall es ts, repr_items h es ts -> ~ In l' (handles_items es) -> repr_items h' es ts) /\
  (forall es ts, repr_list h es ts -> ~ In l' (handles_list es) -> repr_list h' es ts) /\
  (forall o t, repr_opt h o t -> ~ In l' (handles_opt o) -> repr_opt h' o t).
Proof.
  intros SB Hocc. apply repr_mutind; intros.
  - constructor.
  - constructor.
  - rewrite handles_ref in H1. simpl in H1.
    assert (l <> l') by (intro; subst; apply H1; auto).
    destruct (SB l H2 c e) as [c' [Hc' [Hk Hi]]].
    rewrite <- Hk. apply R_ref; [exact Hc' | | ].
    + rewrite Hi. apply H. intro Hin. apply occ_notIn in Hocc. apply Hocc.
      eapply In_handles_heap; eauto.
    + apply H0. intro; apply H1; auto.
  - constructor. apply H. rewrite handles_inst in H0. auto.
  - constructor.
  - unfold handles_items in H1. simpl in H1. constructor.
    + apply H. intro; apply H1. apply in_or_app; auto.
    + apply H0. intro; apply H1. apply in_or_app; auto.
  - constructor.
  - unfold handles_list in H1. simpl in H1. constructor.
    + apply H. intro; apply H1. apply in_or_app; auto.
    + apply H0. intro; apply H1. apply in_or_app; auto.
  - constructor.
  - constructor. apply H. auto.
Qed.

Lemma repr_frame h h' l' v t :
  (forall l, l <> l' -> same_body h h' l) -> occ l' (handles_heap h) = 0 ->
  repr h v t -> ~ In l' (handles v) -> repr h' v t.
Proof. intros. eapply (proj1 (repr_frame_all h h' l' H H0)); eauto. Qed.

(* bodies all kept (counts may change, cells may be added): every abstraction is kept *)
Lemma repr_ext_all h h' :
  (forall l, same_body h h' l) ->
  (forall v t, repr h v t -> repr h' v t) /\
  (forall es ts, repr_items h es ts -> repr_items h' es ts) /\
  (forall es ts, repr_list h es ts -> repr_list h' es ts) /\
  (forall o t, repr_opt h o t -> repr_opt h' o t).
Proof.
  intros SB. apply repr_mutind; intros; try (constructor; auto; fail).
  destruct (SB l c e) as [c' [Hc' [Hk Hi]]]. rewrite <- Hk. apply R_ref; [exact Hc' | rewrite Hi; auto | auto].
Qed.
Lemma repr_ext h h' v t : (forall l, same_body h h' l) -> repr h v t -> repr h' v t.
Proof. intros. eapply (proj1 (repr_ext_all h h' H)); eauto. Qed.

(* ------------------------------------------------------------------ Frame / NoNew / Step *)
Definition Frame (h h' : heap) (F : list loc) : Prop :=
  forall w t, incl (handles w) F -> repr h w t -> repr h' w t.

Definition NoNew (h : heap) (R : list loc) (h' : heap) (R' : list loc) : Prop :=
  forall m, m < length (cells h) -> In m (R' ++ handles_heap h') -> In m (R ++ handles_heap h).

Record Step (h : heap) (Rin F : list loc) (h' : heap) (Rout : list loc) : Prop := mkStep {
  st_inv : Inv h' (Rout ++ F);
  st_frame : Frame h h' F;
  st_nonew : NoNew h Rin h' Rout;
  st_len : length (cells h) <= length (cells h') }.

Lemma Frame_refl h F : Frame h h F.
Proof. intros w t _ H; exact H. Qed.
Lemma Frame_trans h1 h2 h3 F : Frame h1 h2 F -> Frame h2 h3 F -> Frame h1 h3 F.
Proof. intros A B w t I H. apply B; auto. Qed.
Lemma Frame_incl h h' F G : incl G F -> Frame h h' F -> Frame h h' G.
Proof. intros I A w t Iw H. apply A; auto. eapply incl_tran; eauto. Qed.
Lemma Frame_ext h h' F : (forall l, same_body h h' l) -> Frame h h' F.
Proof. intros SB w t _ H. eapply repr_ext; eauto. Qed.

Lemma Frame_write h h' F l' :
  (forall l, l <> l' -> same_body h h' l) -> occ l' (handles_heap h) = 0 -> ~ In l' F -> Frame h h' F.
Proof. intros SB Ho Hn w t I H. eapply repr_frame; eauto. Qed.

Lemma NoNew_refl h R : NoNew h R h R.
Proof. intros m _ H; exact H. Qed.
Lemma NoNew_trans h1 R1 h2 R2 h3 R3 :
  length (cells h1) <= length (cells h2) -> NoNew h1 R1 h2 R2 -> NoNew h2 R2 h3 R3 -> NoNew h1 R1 h3 R3.
Proof. intros L A B m Hm H. apply A; auto. apply B; auto. lia. Qed.

Lemma Step_refl h R F : Inv h (R ++ F) -> Step h R F h R.
Proof. intro I. constructor; auto using Frame_refl, NoNew_refl. Qed.

Lemma Step_trans h1 R1 F h2 R2 h3 R3 :
  Step h1 R1 F h2 R2 -> Step h2 R2 F h3 R3 -> Step h1 R1 F h3 R3.
Proof.
  intros [I1 F1 N1 L1] [I2 F2 N2 L2]. constructor; auto.
  - eapply Frame_trans; eauto.
  - eapply NoNew_trans; eauto.
  - lia.
Qed.

(* change the presentation of the owned sets *)
Lemma Step_equiv h R1 F h' R2 R1' R2' :
  (forall l, In l R1 <-> In l R1') -> (forall l, occ l R2 = occ l R2') ->
  Step h R1 F h' R2 -> Step h R1' F h' R2'.
Proof.
  intros E1 E2 [I Fr N L]. constructor; auto.
  - eapply Inv_equiv; [|exact I]. intro l. rewrite !occ_app. rewrite E2. reflexivity.
  - intros m Hm Hin. specialize (N m Hm).
    assert (In m (R2 ++ handles_heap h')).
    { apply in_app_or in Hin. apply in_or_app. destruct Hin; auto. left.
      apply occ_In. rewrite E2. apply occ_In. auto. }
    apply N in H. apply in_app_or in H. apply in_or_app. destruct H; auto. left. apply E1; auto.
Qed.

(* the frame rule: handles G that the operation does not know about can be carried along *)
Lemma Step_frame h Rin G F h' Rout :
  Step h Rin (G ++ F) h' Rout -> Step h (Rin ++ G) F h' (Rout ++ G).
Proof.
  intros [I Fr N L]. constructor; auto.
  - eapply Inv_equiv; [|exact I]. intro l. rewrite !occ_app. lia.
  - eapply Frame_incl; [|exact Fr]. apply incl_appr. apply incl_refl.
  - intros m Hm Hin. apply in_app_or in Hin. destruct Hin as [Hin|Hin].
    + apply in_app_or in Hin. destruct Hin as [Hin|Hin].
      * assert (In m (Rout ++ handles_heap h')) by (apply in_or_app; auto).
        apply N in H; auto. apply in_app_or in H. apply in_or_app. destruct H; auto.
        left. apply in_or_app; auto.
      * apply in_or_app. left. apply in_or_app; auto.
    + assert (In m (Rout ++ handles_heap h')) by (apply in_or_app; auto).
      apply N in H; auto. apply in_app_or in H. apply in_or_app. destruct H; auto.
      left. apply in_or_app; auto.
Qed.

(* ------------------------------------------------------------------ tactics for multiset side conditions *)
Ltac occ_tac :=
  intros; repeat rewrite ?occ_app, ?occ_cons, ?occ_nil in *;
  repeat match goal with
         | |- context [Nat.eq_dec ?a ?b] => destruct (Nat.eq_dec a b); subst
         | H : context [Nat.eq_dec ?a ?b] |- _ => destruct (Nat.eq_dec a b); subst
         end;
  try congruence; try lia.
Ltac in_tac :=
  intros; repeat rewrite ?in_app_iff in *; simpl in *; try tauto.

(* ------------------------------------------------------------------ count-only updates *)
Lemma occ_heap_set_same h l c c0 x :
  get_cell h l = Some c0 -> citems c = citems c0 ->
  occ x (handles_heap (set_cell h l c)) = occ x (handles_heap h).
Proof. intros H E. pose proof (occ_heap_set_cell h l c c0 x H). rewrite E in H0. lia. Qed.

Lemma In_heap_set_same h l c c0 x :
  get_cell h l = Some c0 -> citems c = citems c0 ->
  (In x (handles_heap (set_cell h l c)) <-> In x (handles_heap h)).
Proof. intros. rewrite !occ_In. erewrite occ_heap_set_same; eauto. tauto. Qed.

Lemma same_body_set_same h l c c0 m :
  get_cell h l = Some c0 -> ckind c = ckind c0 -> citems c = citems c0 -> same_body h (set_cell h l c) m.
Proof.
  intros H K I c1 H1. destruct (Nat.eq_dec l m).
  - subst. exists c. rewrite H in H1. inversion H1; subst. erewrite get_cell_set_eq; eauto.
  - exists c1. rewrite get_cell_set_neq; auto.
Qed.

Lemma same_body_set_same_rev h l c c0 m :
  get_cell h l = Some c0 -> ckind c = ckind c0 -> citems c = citems c0 -> same_body (set_cell h l c) h m.
Proof.
  intros H K I c1 H1. destruct (Nat.eq_dec l m).
  - subst. erewrite get_cell_set_eq in H1; eauto. inversion H1; subst. exists c0. auto.
  - rewrite get_cell_set_neq in H1; auto. exists c1. auto.
Qed.

Lemma incr_step h R F l :
  Inv h (R ++ F) -> In l (R ++ handles_heap h) ->
  Step h R F (incr h l) (l :: R) /\ (forall m, same_body h (incr h l) m) /\
  length (cells (incr h l)) = length (cells h).
Proof.
  intros I Hin.
  assert (Hpos : cnt_of h l > 0).
  { eapply Inv_mention_pos; eauto. in_tac. }
  destruct (cnt_of_pos_cell _ _ Hpos) as [c [Hc _]].
  unfold incr. rewrite Hc.
  set (c' := mkcell (S (cnt c)) (ckind c) (citems c)).
  assert (SB : forall m, same_body h (set_cell h l c') m) by (intro; eapply same_body_set_same; eauto).
  split; [|split; [exact SB | apply length_set_cell]].
  constructor.
  - intro x. erewrite occ_heap_set_same; eauto. destruct (Nat.eq_dec l x).
    + subst. erewrite cnt_of_set_eq; eauto. simpl. specialize (I x). unfold cnt_of in I. rewrite Hc in I.
      revert I. occ_tac.
    + rewrite cnt_of_set_neq; auto. rewrite (I x). occ_tac.
  - apply Frame_ext; auto.
  - intros m Hm H. apply in_app_or in H. destruct H as [[H|H]|H].
    + subst; auto.
    + in_tac.
    + apply in_or_app. right. apply (In_heap_set_same h l c' c m Hc eq_refl) in H. exact H.
  - rewrite length_set_cell. lia.
Qed.

Lemma clone_locs_step ls : forall h R F,
  Inv h (R ++ F) -> (forall l, In l ls -> In l (R ++ handles_heap h)) ->
  Step h R F (clone_locs h ls) (ls ++ R) /\ (forall m, same_body h (clone_locs h ls) m) /\
  length (cells (clone_locs h ls)) = length (cells h).
Proof.
  induction ls as [|a ls IH]; intros h R F I Hin.
  - simpl. split; [apply Step_refl; auto | split; [intro; apply same_body_refl | reflexivity]].
  - simpl. destruct (incr_step h R F a I) as [S1 [B1 L1]]; [apply Hin; left; auto|].
    assert (I1 : Inv (incr h a) ((a :: R) ++ F)) by (apply S1).
    destruct (IH (incr h a) (a :: R) F I1) as [S2 [B2 L2]].
    { intros l Hl.
      assert (Ha : In a (R ++ handles_heap h)) by (apply Hin; left; auto).
      destruct (cnt_of_pos_cell h a) as [c [Hc _]].
      { eapply Inv_mention_pos; eauto. revert Ha. in_tac. }
      specialize (Hin l (or_intror Hl)). apply in_app_or in Hin. apply in_or_app.
      destruct Hin as [Hin|Hin]; [left; right; auto|]. right.
      unfold incr. rewrite Hc.
      apply (In_heap_set_same h a (mkcell (S (cnt c)) (ckind c) (citems c)) c l Hc eq_refl). exact Hin. }
    split; [|split].
    + eapply Step_equiv; [| |eapply Step_trans; [exact S1 | exact S2]].
      * intro; tauto.
      * occ_tac.
    + intro m. eapply same_body_trans; eauto.
    + congruence.
Qed.

Lemma clone_val_step h R F v :
  Inv h (R ++ F) -> incl (handles v) (R ++ handles_heap h) ->
  Step h R F (clone_val h v) (handles v ++ R) /\ (forall m, same_body h (clone_val h v) m) /\
  length (cells (clone_val h v)) = length (cells h).
Proof. intros. apply clone_locs_step; auto. Qed.

(* ------------------------------------------------------------------ alloc *)
Lemma get_cell_alloc_old h k its l :
  l < length (cells h) -> get_cell (fst (alloc h k its)) l = get_cell h l.
Proof. intro. unfold alloc, get_cell; simpl. apply nth_error_app1; auto. Qed.
Lemma get_cell_alloc_new h k its :
  get_cell (fst (alloc h k its)) (length (cells h)) = Some (mkcell 1 k its).
Proof. unfold alloc, get_cell; simpl. rewrite nth_error_app2; [|lia]. rewrite Nat.sub_diag. reflexivity. Qed.
Lemma length_alloc h k its : length (cells (fst (alloc h k its))) = S (length (cells h)).
Proof. unfold alloc; simpl. rewrite app_length. simpl. lia. Qed.
Lemma same_body_alloc h k its m : same_body h (fst (alloc h k its)) m.
Proof. intros c H. exists c. rewrite get_cell_alloc_old; auto. eapply get_cell_lt; eauto. Qed.

Lemma alloc_step h R F k its :
  Inv h ((handles_items its ++ R) ++ F) ->
  Step h (handles_items its ++ R) F (fst (alloc h k its)) (snd (alloc h k its) :: R).
Proof.
  intro I. set (l' := length (cells h)). change (snd (alloc h k its)) with l'.
  destruct (Inv_fresh_unmentioned h _ l' I (le_n _)) as [U1 U2].
  constructor.
  - intro x. rewrite handles_heap_alloc. unfold cnt_of. destruct (Nat.eq_dec x l').
    + subst x. rewrite get_cell_alloc_new. simpl. revert U1 U2. occ_tac.
    + destruct (lt_dec x l').
      * rewrite get_cell_alloc_old; auto. specialize (I x). unfold cnt_of in I. rewrite I. occ_tac.
      * assert (get_cell (fst (alloc h k its)) x = None).
        { unfold get_cell. apply nth_error_None. rewrite length_alloc. fold l'. lia. }
        rewrite H. destruct (Inv_fresh_unmentioned h _ x I) as [V1 V2]; [fold l'; lia|].
        revert V1 V2. occ_tac.
  - apply Frame_ext. intro; apply same_body_alloc.
  - intros m Hm H. rewrite handles_heap_alloc in H. fold l' in Hm.
    apply in_app_or in H. destruct H as [[H|H]|H]; [lia | in_tac | in_tac].
  - rewrite length_alloc. lia.
Qed.

(* ------------------------------------------------------------------ heaps with the same cells *)
Lemma same_cells_body h h' : cells h' = cells h -> forall m, same_body h h' m.
Proof. intros E m c H. exists c. unfold get_cell in *. rewrite E. auto. Qed.

Lemma Step_cells h R F h' R' h'' :
  cells h'' = cells h' -> Step h R F h' R' -> Step h R F h'' R'.
Proof.
  intros E [I Fr N L]. constructor.
  - intro l. unfold cnt_of, get_cell, handles_heap. rewrite E. apply I.
  - eapply Frame_trans; [exact Fr|]. apply Frame_ext. apply same_cells_body; auto.
  - intros m Hm H. apply N; auto. unfold handles_heap in *. rewrite E in H. exact H.
  - rewrite E. auto.
Qed.

(* ------------------------------------------------------------------ decr *)
Lemma decr_step h R F l :
  Inv h ((l :: R) ++ F) ->
  Step h (l :: R) F (decr h l) R /\ (forall m, same_body h (decr h l) m) /\
  length (cells (decr h l)) = length (cells h) /\
  (forall m, m <> l -> cnt_of (decr h l) m = cnt_of h m) /\ cnt_of (decr h l) l = cnt_of h l - 1.
Proof.
  intro I.
  assert (Hpos : cnt_of h l > 0) by (eapply Inv_mention_pos; eauto; left; left; auto).
  destruct (cnt_of_pos_cell _ _ Hpos) as [c [Hc Hcp]].
  unfold decr. rewrite Hc.
  set (c' := mkcell (cnt c - 1) (ckind c) (citems c)).
  assert (SB : forall m, same_body h (set_cell h l c') m) by (intro; eapply same_body_set_same; eauto).
  repeat split; auto.
  - intro x. erewrite occ_heap_set_same; eauto. destruct (Nat.eq_dec l x).
    + subst. erewrite cnt_of_set_eq; eauto. simpl. specialize (I x). unfold cnt_of in I. rewrite Hc in I.
      revert I. occ_tac.
    + rewrite cnt_of_set_neq; auto. rewrite (I x). occ_tac.
  - apply Frame_ext; auto.
  - intros m Hm H. apply in_app_or in H. destruct H as [H|H].
    + in_tac.
    + apply in_or_app. right. apply (In_heap_set_same h l c' c m Hc eq_refl) in H. exact H.
  - rewrite length_set_cell. lia.
  - apply length_set_cell.
  - intros. apply cnt_of_set_neq; auto.
  - erewrite cnt_of_set_eq; eauto. unfold cnt_of. rewrite Hc. reflexivity.
Qed.

(* ------------------------------------------------------------------ make_mut *)
Lemma make_mut_step h R F l h' l' :
  Inv h ((l :: R) ++ F) -> make_mut h l = (h', l') ->
  Step h (l :: R) F h' (l' :: R) /\ (forall m, same_body h h' m) /\
  (exists c c', get_cell h l = Some c /\ get_cell h' l' = Some c' /\
                ckind c' = ckind c /\ citems c' = citems c /\ cnt c' = 1) /\
  (l' = l \/ (l' = length (cells h) /\ cnt_of h l > 1)).
Proof.
  intros I MM.
  assert (Hpos : cnt_of h l > 0) by (eapply Inv_mention_pos; eauto; left; left; auto).
  destruct (cnt_of_pos_cell _ _ Hpos) as [c [Hc Hcp]].
  unfold make_mut in MM. rewrite Hc in MM.
  destruct (cnt c =? 1) eqn:E1.
  - inversion MM; subst. apply Nat.eqb_eq in E1.
    split; [apply Step_refl; auto|]. split; [intro; apply same_body_refl|].
    split; [exists c, c; auto | auto].
  - apply Nat.eqb_neq in E1.
    set (its := citems c) in *. set (h1 := clone_locs h (handles_items its)) in *.
    destruct (alloc (decr h1 l) (ckind c) its) as [h3 l3] eqn:EA. inversion MM; subst h' l'. clear MM.
    (* clone the children *)
    destruct (clone_locs_step (handles_items its) h (l :: R) F I) as [S1 [B1 L1]].
    { intros x Hx. apply in_or_app. right. eapply In_handles_heap; eauto. }
    fold h1 in S1, B1, L1.
    (* release the old handle *)
    assert (S1' : Step h (l :: R) F h1 (l :: handles_items its ++ R)).
    { eapply Step_equiv; [| |exact S1]. intro; tauto. occ_tac. }
    assert (I1 : Inv h1 ((l :: handles_items its ++ R) ++ F)) by apply S1'.
    destruct (decr_step h1 (handles_items its ++ R) F l I1) as [S2 [B2 [L2 [C2 C2']]]].
    (* the fresh cell takes the cloned handles *)
    assert (I2 : Inv (decr h1 l) ((handles_items its ++ R) ++ F)) by apply S2.
    pose proof (alloc_step (decr h1 l) R F (ckind c) its I2) as S3. rewrite EA in S3. simpl in S3.
    assert (El3 : l3 = length (cells (decr h1 l))) by (unfold alloc in EA; inversion EA; reflexivity).
    assert (Eh3 : h3 = fst (alloc (decr h1 l) (ckind c) its)) by (rewrite EA; reflexivity).
    split; [|split; [|split]].
    + eapply Step_cells; [|eapply Step_trans; [exact S1'|eapply Step_trans; [exact S2|exact S3]]]. reflexivity.
    + intro m. eapply same_body_trans; [apply B1|]. eapply same_body_trans; [apply B2|].
      eapply same_body_trans; [|apply same_cells_body; reflexivity]. rewrite Eh3. apply same_body_alloc.
    + exists c, (mkcell 1 (ckind c) its). repeat split; auto.
      unfold get_cell, add_copied; simpl. rewrite Eh3, El3. apply get_cell_alloc_new.
    + right. split; [rewrite El3; congruence|]. unfold cnt_of. rewrite Hc. lia.
Qed.

(* ------------------------------------------------------------------ in-place write to a uniquely owned cell *)
Lemma cnt_of_set_items h l its m : cnt_of (set_items h l its) m = cnt_of h m.
Proof.
  unfold set_items. destruct (get_cell h l) as [c|] eqn:Hc; auto.
  destruct (Nat.eq_dec l m).
  - subst. erewrite cnt_of_set_eq; eauto. unfold cnt_of. rewrite Hc. reflexivity.
  - apply cnt_of_set_neq; auto.
Qed.

Lemma get_cell_set_items_eq h l c its :
  get_cell h l = Some c -> get_cell (set_items h l its) l = Some (mkcell (cnt c) (ckind c) its).
Proof. intro Hc. unfold set_items. rewrite Hc. eapply get_cell_set_eq; eauto. Qed.
Lemma get_cell_set_items_neq h l m its : l <> m -> get_cell (set_items h l its) m = get_cell h m.
Proof. intro. unfold set_items. destruct (get_cell h l); auto. apply get_cell_set_neq; auto. Qed.
Lemma length_set_items h l its : length (cells (set_items h l its)) = length (cells h).
Proof. unfold set_items. destruct (get_cell h l); auto. apply length_set_cell. Qed.

Lemma owned_unique h A F l c :
  Inv h ((l :: A) ++ F) -> get_cell h l = Some c -> cnt c = 1 ->
  occ l A = 0 /\ occ l F = 0 /\ occ l (handles_heap h) = 0.
Proof.
  intros I Hc H1. specialize (I l). unfold cnt_of in I. rewrite Hc, H1 in I. revert I. occ_tac.
Qed.

Lemma set_items_step h l c A A' its' F :
  Inv h ((l :: A) ++ F) -> get_cell h l = Some c -> cnt c = 1 ->
  (forall x, occ x A + occ x (handles_items (citems c)) = occ x A' + occ x (handles_items its')) ->
  Step h (l :: A) F (set_items h l its') (l :: A').
Proof.
  intros I Hc H1 EX.
  destruct (owned_unique _ _ _ _ _ I Hc H1) as [U1 [U2 U3]].
  assert (HO : forall x, occ x (handles_heap (set_items h l its')) + occ x (handles_items (citems c))
                         = occ x (handles_heap h) + occ x (handles_items its')).
  { intro x. unfold set_items. rewrite Hc.
    exact (occ_heap_set_cell h l (mkcell (cnt c) (ckind c) its') c x Hc). }
  constructor.
  - intro x. rewrite cnt_of_set_items. rewrite (I x). specialize (EX x). specialize (HO x).
    revert EX HO. occ_tac.
  - apply Frame_write with (l' := l); auto.
    + intros m Hm c1 H. exists c1. rewrite get_cell_set_items_neq; auto.
    + apply occ_notIn; auto.
  - intros m Hm H. specialize (EX m). specialize (HO m).
    rewrite !in_app_iff in *. simpl in *. rewrite !occ_In in *.
    destruct H as [[H|H]|H]; auto.
    + assert (occ m A > 0 \/ occ m (handles_items (citems c)) > 0) by lia.
      destruct H0; auto. right. apply occ_In. eapply In_handles_heap; eauto. apply occ_In; auto.
    + assert (occ m (handles_heap h) > 0 \/ occ m A > 0 \/ occ m (handles_items (citems c)) > 0) by lia.
      destruct H0 as [H0|[H0|H0]]; auto.
      right. apply occ_In. eapply In_handles_heap; eauto. apply occ_In; auto.
  - rewrite length_set_items. lia.
Qed.

Lemma nth_item_set_nth {A} (its : list (key * A)) n a old :
  nth_item n its = Some old -> nth_item n (set_nth n a its) = Some a.
Proof.
  unfold nth_item. revert n. induction its as [|[k x] its IH]; destruct n; simpl; intros; try discriminate; auto.
Qed.

Lemma occ_items_set_nth x its n e old :
  nth_item n its = Some old ->
  occ x (handles_items (set_nth n e its)) + occ x (handles old)
  = occ x (handles_items its) + occ x (handles e).
Proof.
  unfold nth_item, handles_items. revert n. induction its as [|[k y] its IH]; destruct n; simpl; intros H; try discriminate.
  - inversion H; subst. rewrite !occ_app. lia.
  - rewrite !occ_app. specialize (IH n H). lia.
Qed.

(* ------------------------------------------------------------------ drop *)
Lemma sumcnt_set_cell h l c c0 :
  get_cell h l = Some c0 -> sumcnt (set_cell h l c) + cnt c0 = sumcnt h + cnt c.
Proof.
  unfold sumcnt, set_cell, get_cell; simpl. generalize (cells h). intro cs. revert l.
  induction cs as [|a cs IH]; intros l H; destruct l; simpl in *; try discriminate.
  - inversion H; subst. lia.
  - specialize (IH l H). lia.
Qed.

Lemma cnt_le_sumcnt h l c : get_cell h l = Some c -> cnt c <= sumcnt h.
Proof.
  unfold sumcnt, get_cell. generalize (cells h). intro cs. revert l.
  induction cs as [|a cs IH]; intros l H; destruct l; simpl in *; try discriminate.
  - inversion H; subst. lia.
  - specialize (IH l H). lia.
Qed.

Lemma drop_list_step fuel : forall h ws G,
  Inv h (ws ++ G) -> sumcnt h <= fuel ->
  Step h ws G (drop_list fuel h ws) [] /\ length (cells (drop_list fuel h ws)) = length (cells h).
Proof.
  induction fuel as [|f IH]; intros h ws G I Hf.
  - simpl. destruct ws as [|l rest].
    + split; auto. apply Step_refl; auto.
    + exfalso. assert (cnt_of h l > 0) by (eapply Inv_mention_pos; eauto; left; left; auto).
      destruct (cnt_of_pos_cell _ _ H) as [c [Hc Hp]]. pose proof (cnt_le_sumcnt _ _ _ Hc). lia.
  - simpl. destruct ws as [|l rest].
    + split; auto. apply Step_refl; auto.
    + assert (Hpos : cnt_of h l > 0) by (eapply Inv_mention_pos; eauto; left; left; auto).
      destruct (cnt_of_pos_cell _ _ Hpos) as [c [Hc Hp]]. rewrite Hc.
      destruct (cnt c <=? 1) eqn:E1.
      * apply Nat.leb_le in E1. assert (C1 : cnt c = 1) by lia.
        destruct (owned_unique h rest G l c I Hc C1) as [U1 [U2 U3]].
        set (h1 := set_cell h l (mkcell 0 (ckind c) [])).
        assert (HO : forall x, occ x (handles_heap h1) + occ x (handles_items (citems c)) = occ x (handles_heap h)).
        { intro x. pose proof (occ_heap_set_cell h l (mkcell 0 (ckind c) []) c x Hc). simpl in H.
          fold h1 in H. lia. }
        assert (I1 : Inv h1 ((handles_items (citems c) ++ rest) ++ G)).
        { intro x. destruct (Nat.eq_dec l x).
          - subst x. unfold h1. erewrite cnt_of_set_eq; eauto. simpl. fold h1. specialize (HO l). revert HO U1 U2 U3. occ_tac.
          - unfold h1. rewrite cnt_of_set_neq; auto. fold h1. rewrite (I x). specialize (HO x). revert HO. occ_tac. }
        assert (S1 : Step h (l :: rest) G h1 (handles_items (citems c) ++ rest)).
        { constructor; auto.
          - apply Frame_write with (l' := l); auto.
            + intros m Hm c1 H. exists c1. unfold h1. rewrite get_cell_set_neq; auto.
            + apply occ_notIn; auto.
          - intros m Hm H. specialize (HO m). rewrite !in_app_iff in *. simpl. rewrite !occ_In in *.
            destruct H as [[H|H]|H]; auto; right; lia.
          - unfold h1. rewrite length_set_cell. lia. }
        destruct (IH h1 (handles_items (citems c) ++ rest) G I1) as [S2 L2].
        { pose proof (sumcnt_set_cell h l (mkcell 0 (ckind c) []) c Hc). simpl in H. fold h1 in H. lia. }
        split; [eapply Step_trans; eauto|]. rewrite L2. unfold h1. apply length_set_cell.
      * apply Nat.leb_gt in E1.
        set (h1 := set_cell h l (mkcell (cnt c - 1) (ckind c) (citems c))).
        assert (I1 : Inv h1 (rest ++ G)).
        { intro x. unfold h1. erewrite occ_heap_set_same; eauto. destruct (Nat.eq_dec l x).
          - subst x. erewrite cnt_of_set_eq; eauto. simpl. specialize (I l). unfold cnt_of in I. rewrite Hc in I.
            revert I. occ_tac.
          - rewrite cnt_of_set_neq; auto. rewrite (I x). occ_tac. }
        assert (S1 : Step h (l :: rest) G h1 rest).
        { constructor; auto.
          - apply Frame_ext. intro. unfold h1. eapply same_body_set_same; eauto.
          - intros m Hm H. rewrite !in_app_iff in *. simpl. destruct H as [H|H]; auto. right.
            apply (In_heap_set_same h l (mkcell (cnt c - 1) (ckind c) (citems c)) c m Hc eq_refl) in H. exact H.
          - unfold h1. rewrite length_set_cell. lia. }
        destruct (IH h1 rest G I1) as [S2 L2].
        { pose proof (sumcnt_set_cell h l (mkcell (cnt c - 1) (ckind c) (citems c)) c Hc). simpl in H. fold h1 in H. lia. }
        split; [eapply Step_trans; eauto|]. rewrite L2. unfold h1. apply length_set_cell.
Qed.

Lemma drop_locs_step h ws R F :
  Inv h ((ws ++ R) ++ F) ->
  Step h (ws ++ R) F (drop_locs h ws) R /\ length (cells (drop_locs h ws)) = length (cells h).
Proof.
  intro I. unfold drop_locs.
  destruct (drop_list_step (sumcnt h) h ws (R ++ F)) as [S L]; auto.
  { eapply Inv_equiv; [|exact I]. occ_tac. }
  split; auto. apply (Step_frame h ws R F _ []) in S. exact S.
Qed.

Lemma drop_val_step h v R F :
  Inv h ((handles v ++ R) ++ F) ->
  Step h (handles v ++ R) F (drop_val h v) R /\ length (cells (drop_val h v)) = length (cells h).
Proof. apply drop_locs_step. Qed.
