(* C02 proofs: the cost counter `copied` (elements copied by make_mut) and location stability.

   upath h cur p : every cell on the index path p, starting from the handle value cur, has strong
                   count 1 in heap h ("x's path is unshared").
   spine h cur p : the locations of those cells, outermost first. *)
From Coq Require Import ZArith List Bool Arith Lia.
From NV Require Import Rc.ValueSem Rc.Heap Rc.Cow Rc.Heap_proofs Rc.Cow_proofs.
Import ListNotations.
Local Open Scope nat_scope.

(* ------------------------------------------------------------------ copied is touched by make_mut only *)
Lemma copied_set_cell h l c : copied (set_cell h l c) = copied h. Proof. reflexivity. Qed.
Lemma copied_incr h l : copied (incr h l) = copied h.
Proof. unfold incr. destruct (get_cell h l); reflexivity. Qed.
Lemma copied_decr h l : copied (decr h l) = copied h.
Proof. unfold decr. destruct (get_cell h l); reflexivity. Qed.
Lemma copied_clone_locs ls : forall h, copied (clone_locs h ls) = copied h.
Proof. induction ls; intro h; simpl; auto. rewrite IHls. apply copied_incr. Qed.
Lemma copied_clone_val h v : copied (clone_val h v) = copied h.
Proof. apply copied_clone_locs. Qed.
Lemma copied_drop_list fuel : forall h ws, copied (drop_list fuel h ws) = copied h.
Proof.
  induction fuel; intros h ws; simpl; auto. destruct ws; auto. destruct (get_cell h l); auto.
  destruct (cnt c <=? 1); rewrite IHfuel; reflexivity.
Qed.
Lemma copied_drop_locs h ws : copied (drop_locs h ws) = copied h. Proof. apply copied_drop_list. Qed.
Lemma copied_drop_val h v : copied (drop_val h v) = copied h. Proof. apply copied_drop_locs. Qed.
Lemma copied_drop_opt h o : copied (drop_opt h o) = copied h. Proof. apply copied_drop_locs. Qed.
Lemma copied_set_items h l its : copied (set_items h l its) = copied h.
Proof. unfold set_items. destruct (get_cell h l); reflexivity. Qed.
Lemma copied_put_item h l n e : copied (put_item h l n e) = copied h.
Proof. unfold put_item. destruct (get_cell h l); reflexivity. Qed.
Lemma copied_alloc h k its : copied (fst (alloc h k its)) = copied h. Proof. reflexivity. Qed.
Lemma copied_drop2 h a b : copied (drop2 h a b) = copied h.
Proof. unfold drop2. rewrite !copied_drop_val. reflexivity. Qed.

#[export] Hint Rewrite copied_set_cell copied_incr copied_decr copied_clone_locs copied_clone_val copied_drop_locs
  copied_drop_val copied_drop_opt copied_set_items copied_put_item copied_drop2 : cop.

Lemma length_incr h l : length (cells (incr h l)) = length (cells h).
Proof. unfold incr. destruct (get_cell h l); auto. apply length_set_cell. Qed.
Lemma length_decr h l : length (cells (decr h l)) = length (cells h).
Proof. unfold decr. destruct (get_cell h l); auto. apply length_set_cell. Qed.
Lemma length_clone_locs ls : forall h, length (cells (clone_locs h ls)) = length (cells h).
Proof. induction ls; intro h; simpl; auto. rewrite IHls. apply length_incr. Qed.

(* make_mut: nothing happens at count 1; otherwise exactly the payload is copied *)
Lemma make_mut_cost h l h' l' c :
  get_cell h l = Some c -> make_mut h l = (h', l') ->
  (cnt c = 1 -> h' = h /\ l' = l) /\
  (cnt c <> 1 -> copied h' = copied h + length (citems c) /\ l' = length (cells h)).
Proof.
  intros Hc MM. unfold make_mut in MM. rewrite Hc in MM. destruct (cnt c =? 1) eqn:E.
  - apply Nat.eqb_eq in E. inversion MM; subst. split; auto. intro; contradiction.
  - apply Nat.eqb_neq in E. split; [intro; contradiction|]. intros _.
    unfold alloc in MM. inversion MM; subst. simpl. autorewrite with cop.
    split; auto. rewrite length_decr, length_clone_locs. reflexivity.
Qed.

(* ------------------------------------------------------------------ the path a set_index / modify descends *)
Definition slot_of (c : cell) (pe : pelem) : option nat :=
  match ckind c with
  | KList => match pe with PI z => norm_index (length (citems c)) z | _ => None end
  | KDict => match key_of_pelem pe with Some k => find_key k (citems c) | None => None end
  | _ => None
  end.

Definition child_of (h : heap) (cur : hval) (pe : pelem) : option hval :=
  match cur with
  | HRef l _ => match get_cell h l with
                | Some c => match slot_of c pe with Some n => nth_item n (citems c) | None => None end
                | None => None
                end
  | HInst sid fs => match pe with
                    | PF sid' f => if Nat.eqb sid sid' then nth_error fs f else None
                    | _ => None
                    end
  | _ => None
  end.

Fixpoint upath (h : heap) (cur : hval) (p : path) : Prop :=
  match p with
  | [] => True
  | pe :: rest =>
    match cur with HRef l _ => cnt_of h l = 1 | _ => True end /\
    match child_of h cur pe with Some e => upath h e rest | None => True end
  end.

Fixpoint spine (h : heap) (cur : hval) (p : path) : list loc :=
  match p with
  | [] => []
  | pe :: rest =>
    match cur with HRef l _ => [l] | _ => [] end ++
    match child_of h cur pe with Some e => spine h e rest | None => [] end
  end.

(* a heap that differs from h only in the body of cell l, which nothing in h mentions *)
Definition differs_at (h h' : heap) (l : loc) : Prop :=
  (forall m, m <> l -> get_cell h' m = get_cell h m).

Lemma path_transfer h h' l p : differs_at h h' l -> occ l (handles_heap h) = 0 ->
  forall cur, ~ In l (handles cur) -> (upath h cur p <-> upath h' cur p) /\ spine h cur p = spine h' cur p.
Proof.
  intros D U. induction p as [|pe rest IH]; intros cur N; simpl.
  - split; [tauto | reflexivity].
  - assert (CH : child_of h' cur pe = child_of h cur pe /\
                 (match cur with HRef m _ => cnt_of h' m = cnt_of h m | _ => True end) /\
                 (forall e, child_of h cur pe = Some e -> ~ In l (handles e))).
    { destruct cur as [| z | m d | sid fs]; simpl;
        try (split; [reflexivity|]; split; [exact I|]; intros e He; discriminate).
      - rewrite handles_ref in N. assert (m <> l) by (intro; subst; apply N; left; auto).
        unfold cnt_of. rewrite (D m H). split; [reflexivity|]. split; [reflexivity|].
        intros e He. destruct (get_cell h m) as [c|] eqn:Hc; [|discriminate].
        destruct (slot_of c pe) as [n|]; [|discriminate].
        intro Hin. apply occ_notIn in U. apply U. eapply In_handles_heap; eauto. eapply handles_items_nth; eauto.
      - split; [reflexivity|]. split; auto. intros e He. destruct pe; try discriminate.
        destruct (Nat.eqb sid sid0); [|discriminate].
        intro Hin. apply N. rewrite handles_inst. eapply handles_list_nth; eauto. }
    destruct CH as [C1 [C2 C3]]. rewrite C1.
    destruct (child_of h cur pe) as [e|] eqn:CE.
    + destruct (IH e (C3 e eq_refl)) as [I1 I2]. rewrite I2. split; [|reflexivity].
      destruct cur; try tauto. rewrite C2. tauto.
    + split; [|reflexivity]. destruct cur; try tauto. rewrite C2. tauto.
Qed.

(* ------------------------------------------------------------------ no new location *)
Lemma length_drop_list fuel : forall h ws, length (cells (drop_list fuel h ws)) = length (cells h).
Proof.
  induction fuel; intros h ws; simpl; auto. destruct ws; auto. destruct (get_cell h l); auto.
  destruct (cnt c <=? 1); rewrite IHfuel; apply length_set_cell.
Qed.
Lemma length_drop_locs h ws : length (cells (drop_locs h ws)) = length (cells h). Proof. apply length_drop_list. Qed.
Lemma length_drop_val h v : length (cells (drop_val h v)) = length (cells h). Proof. apply length_drop_locs. Qed.
Lemma length_drop_opt h o : length (cells (drop_opt h o)) = length (cells h). Proof. apply length_drop_locs. Qed.
Lemma length_put_item h l n e : length (cells (put_item h l n e)) = length (cells h).
Proof. unfold put_item. destruct (get_cell h l); auto. apply length_set_cell. Qed.
Lemma length_clone_val h v : length (cells (clone_val h v)) = length (cells h). Proof. apply length_clone_locs. Qed.
Lemma length_drop2 h a b : length (cells (drop2 h a b)) = length (cells h).
Proof. unfold drop2. rewrite !length_drop_val. reflexivity. Qed.
#[export] Hint Rewrite length_drop_locs length_drop_val length_drop_opt length_put_item length_set_items
  length_clone_locs length_clone_val length_set_cell length_incr length_decr length_drop2 : cop.

(* "in place": nothing copied, no location created *)
Definition same_cost (h h' : heap) : Prop := copied h' = copied h /\ length (cells h') = length (cells h).
Lemma same_cost_refl h : same_cost h h. Proof. split; auto. Qed.
Lemma same_cost_trans h1 h2 h3 : same_cost h1 h2 -> same_cost h2 h3 -> same_cost h1 h3.
Proof. intros [A B] [C D]. split; congruence. Qed.
Ltac cost := unfold same_cost; autorewrite with cop; auto.

Definition same_root (cur cur' : hval) : Prop := match cur with HRef l d => cur' = HRef l d | _ => True end.

Lemma make_mut_at_one h l c : get_cell h l = Some c -> cnt_of h l = 1 -> make_mut h l = (h, l).
Proof. intros Hc C. apply make_mut_unique with c; auto. rewrite (cnt_of_cell _ _ _ Hc) in C. auto. Qed.

(* ------------------------------------------------------------------ inplace_when_unique: set_index *)
Lemma m_set_inplace every p : noslice p = true -> forall new tnew h cur t G h' cur' ok,
  Inv h ((handles cur ++ handles_opt new) ++ G) -> repr h cur t -> repr_opt h new tnew ->
  upath h cur p ->
  m_set every p new h cur = (h', cur', ok) ->
  same_cost h h' /\ (p <> [] -> same_root cur cur').
Proof.
  induction p as [|pe rest IH]; intros NS new tnew h cur t G h' cur' ok I Hr Hn UP E.
  - simpl in E. unfold m_set_here in E. inversion E; subst. split; [cost | congruence].
  - simpl in NS. apply andb_prop in NS. destruct NS as [NS1 NS2]. specialize (IH NS2).
    simpl in UP. destruct UP as [UC UE].
    destruct cur as [| z | l d | sid fields].
    + simpl in E. inversion E; subst. split; [cost | simpl; auto].
    + simpl in E. inversion E; subst. split; [cost | simpl; auto].
    + destruct (repr_ref_inv_gen _ _ _ _ Hr) as [c [its [dv [Ht [Hc [Hits Hd]]]]]]. subst t.
      pose proof (make_mut_at_one h l c Hc UC) as MM.
      simpl in UE. rewrite Hc in UE.
      simpl in E. rewrite Hc in E. rewrite ?MM in E.
      assert (DESC : forall n e h3 e' ok1, nth_item n (citems c) = Some e -> slot_of c pe = Some n ->
                m_set every rest new (put_item h l n HNull) e = (h3, e', ok1) ->
                same_cost h (put_item h3 l n e')).
      { intros n e h3 e' ok1 Hne Hs ER.
        rewrite handles_ref in I.
        assert (I0 : Inv h ((l :: handles_opt d) ++ handles_opt new ++ G)) by (eapply Inv_equiv; [|exact I]; occ_tac).
        destruct (descend_open h l d c (ckind c) its dv n e (handles_opt new ++ G) h l I0 Hr Hc Hne MM)
          as [te [Hte [_ [Hre [Hr2 [C2 [Sopen _]]]]]]].
        set (h2 := put_item h l n HNull) in *.
        assert (Hn2 : repr_opt h2 new tnew) by (eapply repr_opt_frame_step; eauto; apply incl_appl, incl_refl).
        assert (I2 : Inv h2 ((handles e ++ handles_opt new) ++ l :: handles_opt d ++ G)).
        { eapply Inv_equiv; [|apply (st_inv _ _ _ _ _ Sopen)]. occ_tac. }
        assert (UP2 : upath h2 e rest).
        { rewrite Hs, Hne in UE.
          assert (Iu : Inv h ((l :: handles_opt d ++ handles_opt new) ++ G)) by (eapply Inv_equiv; [|exact I]; occ_tac).
          assert (Cu : cnt c = 1) by (rewrite (cnt_of_cell _ _ _ Hc) in UC; auto).
          destruct (owned_unique h (handles_opt d ++ handles_opt new) G l c Iu Hc Cu) as [U1 [U2 U3]].
          apply (path_transfer h h2 l rest); auto.
          - intros m Hm. unfold h2. rewrite (put_item_eq _ _ _ _ _ Hc). apply get_cell_set_items_neq. auto.
          - intro Hin. apply occ_notIn in U3. apply U3. eapply In_handles_heap; eauto. eapply handles_items_nth; eauto. }
        destruct (IH new tnew h2 e te _ h3 e' ok1 I2 Hre Hn2 UP2 ER) as [[C1 L1] _].
        unfold h2 in *. revert C1 L1. cost. }
      destruct (ckind c) eqn:K.
      * (* list *)
        destruct pe as [z | bs | sid' f | lo hi]; [| | |simpl in NS1; discriminate];
          try (inversion E; subst; split; [cost | simpl; auto]; fail).
        destruct (norm_index (length (citems c)) z) as [n|] eqn:NI; [|inversion E; subst; split; [cost | simpl; auto]].
        destruct (nth_item n (citems c)) as [e|] eqn:Ne; [|inversion E; subst; split; [cost | simpl; auto]].
        destruct (m_set every rest new (put_item h l n HNull) e) as [[h3 e'] ok1] eqn:ER. inversion E; subst; clear E.
        split; [|simpl; auto]. eapply DESC; eauto. unfold slot_of. rewrite K. auto.
      * (* dict *)
        destruct pe as [z | bs | sid' f | lo hi]; [| | |simpl in NS1; discriminate].
        -- simpl in E. rewrite ?MM in E. destruct rest as [|pe2 rest2].
           ++ destruct (find_key (KI z) (citems c)); [destruct (nth_item n (citems c))|];
                inversion E; subst; split; try cost; simpl; auto.
           ++ destruct (find_key (KI z) (citems c)) as [n|] eqn:FK; [|inversion E; subst; split; [cost | simpl; auto]].
              destruct (nth_item n (citems c)) as [e|] eqn:Ne; [|inversion E; subst; split; [cost | simpl; auto]].
              cbv zeta in E.
              destruct (m_set every (pe2 :: rest2) new (put_item h l n HNull) e) as [[h3 e'] ok1] eqn:ER. inversion E; subst; clear E.
              split; [|simpl; auto]. eapply DESC; eauto. unfold slot_of. rewrite K. simpl. auto.
        -- simpl in E. rewrite ?MM in E. destruct rest as [|pe2 rest2].
           ++ destruct (find_key (KB bs) (citems c)); [destruct (nth_item n (citems c))|];
                inversion E; subst; split; try cost; simpl; auto.
           ++ destruct (find_key (KB bs) (citems c)) as [n|] eqn:FK; [|inversion E; subst; split; [cost | simpl; auto]].
              destruct (nth_item n (citems c)) as [e|] eqn:Ne; [|inversion E; subst; split; [cost | simpl; auto]].
              cbv zeta in E.
              destruct (m_set every (pe2 :: rest2) new (put_item h l n HNull) e) as [[h3 e'] ok1] eqn:ER. inversion E; subst; clear E.
              split; [|simpl; auto]. eapply DESC; eauto. unfold slot_of. rewrite K. simpl. auto.
        -- simpl in E. inversion E; subst. split; [cost | simpl; auto].
      * (* string *)
        destruct pe as [z | bs | sid' f | lo hi]; [| | |simpl in NS1; discriminate];
          (destruct rest; [|inversion E; subst; split; [cost | simpl; auto]]);
          (destruct new as [w|]; [|inversion E; subst; split; [cost | simpl; auto]]);
          (destruct (is_hstr h w); [|inversion E; subst; split; [cost | simpl; auto]]);
          rewrite ?MM in E;
          (destruct (hstr1 h w); [|inversion E; subst; split; [cost | simpl; auto]]);
          (destruct (leaf_index _ _); [|inversion E; subst; split; [cost | simpl; auto]]);
          (destruct (nth_item _ _); inversion E; subst; split; [cost | simpl; auto | cost | simpl; auto]).
      * (* vector *)
        destruct pe as [z | bs | sid' f | lo hi]; [| | |simpl in NS1; discriminate];
          (destruct rest; [|inversion E; subst; split; [cost | simpl; auto]]);
          (destruct new as [w|]; [|inversion E; subst; split; [cost | simpl; auto]]);
          (destruct w; try (inversion E; subst; split; [cost | simpl; auto]; fail));
          (destruct (leaf_index _ _); [|inversion E; subst; split; [cost | simpl; auto]]);
          (destruct (nth_item _ _); [rewrite ?MM in E|]; inversion E; subst; split; [cost | simpl; auto | cost | simpl; auto]).
      * (* bytes *)
        destruct pe as [z | bs | sid' f | lo hi]; [| | |simpl in NS1; discriminate];
          (destruct rest; [|inversion E; subst; split; [cost | simpl; auto]]);
          (destruct new as [w|]; [|inversion E; subst; split; [cost | simpl; auto]]);
          (destruct w; try (inversion E; subst; split; [cost | simpl; auto]; fail));
          (destruct (leaf_index _ _); [|inversion E; subst; split; [cost | simpl; auto]]);
          (destruct (nth_item _ _); [|inversion E; subst; split; [cost | simpl; auto]]);
          (destruct (is_byte _); [rewrite ?MM in E|]; inversion E; subst; split; [cost | simpl; auto | cost | simpl; auto]).
    + (* struct instance *)
      inversion Hr; subst. match goal with H : repr_list _ _ _ |- _ => rename H into Hfs end.
      simpl in E. split; [|simpl; auto].
      destruct pe as [z | bs | sid' f | lo hi]; try (inversion E; subst; cost; fail).
      simpl in UE.
      destruct (Nat.eqb sid sid') eqn:Es; [|inversion E; subst; cost].
      destruct (nth_error fields f) as [e|] eqn:Ef; [|inversion E; subst; cost].
      destruct (repr_list_nth _ _ _ _ _ Hfs Ef) as [te [Hte Hre]].
      destruct (m_set every rest new h e) as [[h1 e'] ok1] eqn:ER. inversion E; subst; clear E.
      set (others := handles_list (hset_field f HNull fields)).
      assert (OC : forall x, occ x (handles_list fields) = occ x (handles e) + occ x others).
      { intro x. pose proof (occ_list_set_field x fields f HNull e Ef). rewrite handles_null in H. unfold others. revert H. occ_tac. }
      rewrite handles_inst in I.
      assert (I0 : Inv h ((handles e ++ handles_opt new) ++ others ++ G)).
      { eapply Inv_equiv; [|exact I]. intro x. specialize (OC x). revert OC. occ_tac. }
      destruct (IH new tnew h e te (others ++ G) h' e' ok I0 Hre Hn UE ER) as [SC _]. exact SC.
Qed.

(* ------------------------------------------------------------------ inplace_when_unique: modify_existing_index *)
(* the path p exists from cur, and every cell on it AND the cell it leads to has strong count 1 *)
Fixpoint uleaf (h : heap) (cur : hval) (p : path) : Prop :=
  match p with
  | [] => match cur with HRef l _ => cnt_of h l = 1 | _ => True end
  | pe :: rest =>
    match cur with HRef l _ => cnt_of h l = 1 | _ => True end /\
    match child_of h cur pe with Some e => uleaf h e rest | None => False end
  end.

Lemma uleaf_transfer h h' l p : differs_at h h' l -> occ l (handles_heap h) = 0 ->
  forall cur, ~ In l (handles cur) -> (uleaf h cur p <-> uleaf h' cur p).
Proof.
  intros D U. induction p as [|pe rest IH]; intros cur N; simpl.
  - destruct cur as [| z | m d | sid fs]; try tauto.
    rewrite handles_ref in N. assert (m <> l) by (intro; subst; apply N; left; auto).
    unfold cnt_of. rewrite (D m H). tauto.
  - assert (CH : child_of h' cur pe = child_of h cur pe /\
                 (match cur with HRef m _ => cnt_of h' m = cnt_of h m | _ => True end) /\
                 (forall e, child_of h cur pe = Some e -> ~ In l (handles e))).
    { destruct cur as [| z | m d | sid fs]; simpl;
        try (split; [reflexivity|]; split; [exact I|]; intros e He; discriminate).
      - rewrite handles_ref in N. assert (m <> l) by (intro; subst; apply N; left; auto).
        unfold cnt_of. rewrite (D m H). split; [reflexivity|]. split; [reflexivity|].
        intros e He. destruct (get_cell h m) as [c|] eqn:Hc; [|discriminate].
        destruct (slot_of c pe) as [n|]; [|discriminate].
        intro Hin. apply occ_notIn in U. apply U. eapply In_handles_heap; eauto. eapply handles_items_nth; eauto.
      - split; [reflexivity|]. split; auto. intros e He. destruct pe; try discriminate.
        destruct (Nat.eqb sid sid0); [|discriminate].
        intro Hin. apply N. rewrite handles_inst. eapply handles_list_nth; eauto. }
    destruct CH as [C1 [C2 C3]]. rewrite C1.
    destruct (child_of h cur pe) as [e|] eqn:CE.
    + pose proof (IH e (C3 e eq_refl)) as I1. destruct cur; try tauto. rewrite C2. tauto.
    + destruct cur; try tauto.
Qed.

(* what the function applied to the addressed slot must satisfy: on a value whose own cell is unshared it copies nothing
   and creates no cell *)
Definition leaf_inplace (f : heap -> hval -> mres) : Prop :=
  forall h cur h' cur' r, match cur with HRef l _ => cnt_of h l = 1 | _ => True end ->
    f h cur = (h', cur', r) -> same_cost h h'.

Lemma m_modify_inplace p : forall f, leaf_inplace f -> forall h cur t G h' cur' r,
  Inv h (handles cur ++ G) -> repr h cur t -> uleaf h cur p ->
  m_modify p f h cur = (h', cur', r) ->
  same_cost h h' /\ (p <> [] -> same_root cur cur').
Proof.
  induction p as [|pe rest IH]; intros f Hf h cur t G h' cur' r I Hr UP E.
  - simpl in E, UP. split; [eapply Hf; eauto | congruence].
  - specialize (IH f Hf). simpl in UP. destruct UP as [UC UE].
    destruct cur as [| z | l d | sid fields].
    + simpl in UE. contradiction.
    + simpl in UE. contradiction.
    + destruct (repr_ref_inv_gen _ _ _ _ Hr) as [c [its [dv [Ht [Hc [Hits Hd]]]]]]. subst t.
      pose proof (make_mut_at_one h l c Hc UC) as MM.
      simpl in UE. rewrite Hc in UE.
      destruct (slot_of c pe) as [n|] eqn:Hs; [|contradiction].
      destruct (nth_item n (citems c)) as [e|] eqn:Hne; [|contradiction].
      simpl in E. rewrite Hc in E.
      assert (DESC : forall h3 e' r1, m_modify rest f (put_item h l n HNull) e = (h3, e', r1) ->
                same_cost h (put_item h3 l n e')).
      { intros h3 e' r1 ER.
        rewrite handles_ref in I.
        destruct (descend_open h l d c (ckind c) its dv n e G h l I Hr Hc Hne MM)
          as [te [Hte [_ [Hre [Hr2 [C2 [Sopen _]]]]]]].
        set (h2 := put_item h l n HNull) in *.
        assert (I2 : Inv h2 (handles e ++ l :: handles_opt d ++ G)).
        { eapply Inv_equiv; [|apply (st_inv _ _ _ _ _ Sopen)]. occ_tac. }
        assert (UP2 : uleaf h2 e rest).
        { assert (Cu : cnt c = 1) by (rewrite (cnt_of_cell _ _ _ Hc) in UC; auto).
          destruct (owned_unique h (handles_opt d) G l c I Hc Cu) as [U1 [U2 U3]].
          apply (uleaf_transfer h h2 l rest); auto.
          - intros m Hm. unfold h2. rewrite (put_item_eq _ _ _ _ _ Hc). apply get_cell_set_items_neq. auto.
          - intro Hin. apply occ_notIn in U3. apply U3. eapply In_handles_heap; eauto. eapply handles_items_nth; eauto. }
        destruct (IH h2 e te _ h3 e' r1 I2 Hre UP2 ER) as [[C1 L1] _].
        unfold h2 in *. revert C1 L1. cost. }
      unfold slot_of in Hs.
      destruct (ckind c) eqn:K; try discriminate.
      * (* list *)
        destruct pe as [z | bs | sid' f0 | lo hi]; try discriminate.
        rewrite MM in E. rewrite Hs, Hne in E. cbv zeta in E.
        destruct (m_modify rest f (put_item h l n HNull) e) as [[h3 e'] r1] eqn:ER. inversion E; subst; clear E.
        split; [|simpl; auto]. eapply DESC; eauto.
      * (* dict *)
        destruct pe as [z | bs | sid' f0 | lo hi]; simpl in Hs; try discriminate.
        -- simpl in E. rewrite MM in E. rewrite Hs, Hne in E. cbv zeta in E.
           destruct (m_modify rest f (put_item h l n HNull) e) as [[h3 e'] r1] eqn:ER. inversion E; subst; clear E.
           split; [|simpl; auto]. eapply DESC; eauto.
        -- simpl in E. rewrite MM in E. rewrite Hs, Hne in E. cbv zeta in E.
           destruct (m_modify rest f (put_item h l n HNull) e) as [[h3 e'] r1] eqn:ER. inversion E; subst; clear E.
           split; [|simpl; auto]. eapply DESC; eauto.
    + (* struct instance *)
      inversion Hr; subst. match goal with H : repr_list _ _ _ |- _ => rename H into Hfs end.
      simpl in E. split; [|simpl; auto].
      simpl in UE.
      destruct pe as [z | bs | sid' f0 | lo hi]; try contradiction.
      destruct (Nat.eqb sid sid') eqn:Es; [|contradiction].
      destruct (nth_error fields f0) as [e|] eqn:Ef; [|contradiction].
      destruct (repr_list_nth _ _ _ _ _ Hfs Ef) as [te [Hte Hre]].
      destruct (m_modify rest f h e) as [[h1 e'] r1] eqn:ER. inversion E; subst; clear E.
      set (others := handles_list (hset_field f0 HNull fields)).
      assert (OC : forall x, occ x (handles_list fields) = occ x (handles e) + occ x others).
      { intro x. pose proof (occ_list_set_field x fields f0 HNull e Ef). rewrite handles_null in H. unfold others. revert H. occ_tac. }
      rewrite handles_inst in I.
      assert (I0 : Inv h (handles e ++ others ++ G)).
      { eapply Inv_equiv; [|exact I]. intro x. specialize (OC x). revert OC. occ_tac. }
      destruct (IH h e te (others ++ G) h' e' r I0 Hre UE ER) as [SC _]. exact SC.
Qed.

(* the three consuming builtins on an unshared cell *)
Lemma pop_inplace : leaf_inplace m_f_pop.
Proof.
  intros h cur h' cur' r U E. unfold m_f_pop in E.
  destruct cur as [| z | l d | sid fs]; try (inversion E; subst; apply same_cost_refl).
  destruct (get_cell h l) as [c|] eqn:Hc; [|inversion E; subst; apply same_cost_refl].
  destruct (ckind c); try (inversion E; subst; apply same_cost_refl).
  rewrite (make_mut_at_one h l c Hc U) in E.
  destruct (nth_item (length (citems c) - 1) (citems c)); inversion E; subst; cost.
Qed.

Lemma remove_inplace pe : is_slice pe = false -> leaf_inplace (m_f_remove pe).
Proof.
  intros NSl h cur h' cur' r U E. unfold m_f_remove in E.
  destruct cur as [| z | l d | sid fs]; try (inversion E; subst; apply same_cost_refl).
  destruct (get_cell h l) as [c|] eqn:Hc; [|inversion E; subst; apply same_cost_refl].
  pose proof (make_mut_at_one h l c Hc U) as MM.
  destruct (ckind c); try (inversion E; subst; apply same_cost_refl).
  - destruct pe as [z | bs | sid' f0 | lo hi]; try discriminate; try (inversion E; subst; apply same_cost_refl).
    destruct (norm_index (length (citems c)) z); [|inversion E; subst; apply same_cost_refl].
    destruct (nth_item n (citems c)); [|inversion E; subst; apply same_cost_refl].
    rewrite MM in E. inversion E; subst; cost.
  - destruct pe as [z | bs | sid' f0 | lo hi]; try discriminate; rewrite MM in E; simpl in E;
      repeat match type of E with context [match ?x with _ => _ end] => destruct x end; inversion E; subst; cost.
Qed.

Lemma consume_inplace : leaf_inplace m_f_consume.
Proof. intros h cur h' cur' r U E. unfold m_f_consume in E. inversion E; subst. apply same_cost_refl. Qed.

Definition lop_path (m : lop) : path :=
  match m with LSet p _ | LEvery p _ | LOp p _ _ | LPop p | LRemove p _ | LConsume p => p end.

Definition is_inplace_lop (m : lop) : bool :=
  match m with LPop _ | LConsume _ => true | LRemove _ i => negb (is_slice i) | _ => false end.

Lemma m_lop_inplace m : is_inplace_lop m = true -> forall h cur t G h' cur' r,
  Inv h (handles cur ++ G) -> repr h cur t -> uleaf h cur (lop_path m) ->
  m_lop m h cur = (h', cur', r) ->
  same_cost h h' /\ (lop_path m <> [] -> same_root cur cur').
Proof.
  destruct m; simpl; intro H; try discriminate; intros.
  - eapply m_modify_inplace; eauto. apply pop_inplace.
  - eapply m_modify_inplace; eauto. apply remove_inplace. destruct (is_slice i); auto; discriminate.
  - eapply m_modify_inplace; eauto. apply consume_inplace.
Qed.

(* the statement `pop x[p]` / `remove x[p][i]` / `consume x[p]` (result discarded) on a variable whose path is unshared *)
Lemma exec_mod_inplace x m : is_inplace_lop m = true -> forall h rs sg cur st' ok,
  Inv h (handles_list rs) -> repr_list h rs sg -> nth_error rs x = Some cur -> uleaf h cur (lop_path m) ->
  m_exec_s (mkst h rs) (SMod None x m) = (st', ok) ->
  same_cost h (mheap st') /\ (lop_path m <> [] -> exists cur', nth_error (roots st') x = Some cur' /\ same_root cur cur').
Proof.
  intros HM h rs sg cur st' ok I Hrs Ex UL E. simpl in E. rewrite Ex in E.
  destruct (m_lop m h cur) as [[h1 cur'] r] eqn:EL.
  destruct (repr_list_nth _ _ _ _ _ Hrs Ex) as [t [Ht Hcur]].
  assert (I0 : Inv h (handles cur ++ handles_list (set_root rs x HNull))).
  { eapply Inv_equiv; [|exact I]. intro l. pose proof (roots_split x rs cur Ex l). revert H. occ_tac. }
  destruct (m_lop_inplace m HM h cur t _ h1 cur' r I0 Hcur UL EL) as [[C1 L1] SR].
  assert (NX : nth_error (set_root rs x cur') x = Some cur').
  { unfold set_root, hset_field. clear - Ex. revert x Ex. induction rs as [|a rs IH]; intros [|x] Ex; simpl in *; try discriminate; auto. }
  destruct r as [res|]; inversion E; subst; clear E; simpl.
  - split; [revert C1 L1; cost; intros; split; congruence|]. intro N. exists cur'. split; auto.
  - split; [split; auto|]. intro N. exists cur'. split; auto.
Qed.
