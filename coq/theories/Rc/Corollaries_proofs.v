(* C01 corollaries in the property's words, from the refinement theorem (Rc/Cow_proofs.v) and
   frame lemmas of the value semantics (which variables a statement can change). *)
From Coq Require Import ZArith List Bool Arith Lia.
From NV Require Import Rc.ValueSem Rc.Heap Rc.Cow Rc.Heap_proofs Rc.Cow_proofs Rc.For_proofs.
Import ListNotations.
Local Open Scope nat_scope.

(* ------------------------------------------------------------------ end states *)
Lemma final_value_app sg a b : final_value sg (a ++ b) = final_value (final_value sg a) b.
Proof. unfold final_value. apply fold_left_app. Qed.
Lemma final_cow_app st a b : final_cow st (a ++ b) = final_cow (final_cow st a) b.
Proof. unfold final_cow. apply fold_left_app. Qed.

(* what the machine holds for variable y stands for the tree t *)
Definition holds (st : mstate) (y : nat) (t : val) : Prop :=
  exists v, nth_error (roots st) y = Some v /\ repr (mheap st) v t.

Lemma Sim_holds st sg y t : Sim st sg -> nth_error sg y = Some t -> holds st y t.
Proof.
  unfold Sim, holds. intros Hs Hy. revert y Hy. induction Hs; intros y Hy.
  - destruct y; discriminate.
  - destruct y; simpl in *.
    + inversion Hy; subst. eauto.
    + apply IHHs; auto.
Qed.

(* ------------------------------------------------------------------ which variables a statement writes *)
Definition writes_s (s : sstmt) : list nat :=
  match s with
  | SAssign x _ _ | SEvery x _ _ | SOp x _ _ _ => [x]
  | SMod dst x _ => x :: match dst with Some (y, _) => [y] | None => [] end
  | SSwap x _ y _ => [x; y]
  | SOpMod x _ _ _ y _ => [x; y]
  | SOpDef x _ _ _ _ => [x]
  | SEveryOp x _ _ _ => [x]
  | SAndOp ts _ _ => map fst ts
  end.
Definition writes (s : stmt) : list nat :=
  match s with
  | Simple s => writes_s s
  | SFor _ _ body => 0 :: flat_map writes_s body
  end.

Lemma nth_error_set_var_neq sg x v y : x <> y -> nth_error (set_var sg x v) y = nth_error sg y.
Proof.
  unfold set_var, unlabelled. revert x y. induction sg as [|a sg IH]; intros x y N; destruct x, y; simpl; try congruence.
  - rewrite map_snd_label. reflexivity.
  - apply IH. congruence.
Qed.

Lemma assign_to_frame sg every x p w y : x <> y -> nth_error (fst (assign_to sg every x p w)) y = nth_error sg y.
Proof.
  intro N. unfold assign_to. destruct (nth_error sg x); simpl; auto.
  destruct (v_set every p (Some w) v). simpl. apply nth_error_set_var_neq; auto.
Qed.

Lemma and_loop_frame f w l : forall sg y, ~ In y (map (fun t => fst (fst t)) l) ->
  nth_error (fst (and_loop f w sg l)) y = nth_error sg y.
Proof.
  induction l as [|[[x p] old] tl IH]; intros sg y N; simpl in *; auto.
  destruct (nth_error sg x); simpl; auto.
  destruct (v_opassign_old p f old w v) as [v' ok]. destruct ok; simpl.
  - rewrite IH; [|tauto]. apply nth_error_set_var_neq. tauto.
  - apply nth_error_set_var_neq. tauto.
Qed.

Lemma combine_targets_incl (ts : list (nat * path)) (olds : list val) y :
  In y (map (fun t => fst (fst t)) (combine ts olds)) -> In y (map fst ts).
Proof.
  intro H. apply in_map_iff in H. destruct H as [[[x p] o] [E H]]. simpl in E. subst.
  apply in_combine_l in H. apply in_map_iff. exists (y, p). auto.
Qed.

Lemma exec_s_frame sg s y : ~ In y (writes_s s) -> nth_error (fst (exec_s sg s)) y = nth_error sg y.
Proof.
  intro N. destruct s; simpl in *.
  - destruct (eval sg e); simpl; auto. apply assign_to_frame. tauto.
  - destruct (eval sg e); simpl; auto. apply assign_to_frame. tauto.
  - destruct (nth_error sg x); simpl; auto. destruct (v_get v p); simpl; auto. destruct (eval sg e); simpl; auto.
    destruct (v_opassign p f v1 v) as [v' ok']. simpl. apply nth_error_set_var_neq. tauto.
  - destruct (nth_error sg x); simpl; auto. destruct (lop_apply m v) as [v' r].
    destruct r as [res|]; simpl.
    + destruct dst as [[y0 q]|]; simpl.
      * rewrite assign_to_frame; [|simpl in N; tauto]. apply nth_error_set_var_neq. tauto.
      * apply nth_error_set_var_neq. tauto.
    + apply nth_error_set_var_neq. tauto.
  - destruct (nth_error sg x) as [vx|]; simpl; auto.
    destruct (v_get vx p) as [a|]; simpl; auto.
    destruct (nth_error sg y0) as [vy|]; simpl; auto.
    destruct (v_get vy q) as [b|]; simpl; auto.
    destruct (assign_to sg false x p b) as [st1 ok1] eqn:E1.
    assert (H1 : nth_error st1 y = nth_error sg y).
    { pose proof (assign_to_frame sg false x p b y). rewrite E1 in H. apply H. tauto. }
    destruct ok1; simpl; auto. rewrite assign_to_frame; [auto | tauto].
  - destruct (nth_error sg x) as [v|]; simpl; auto.
    destruct (v_get v p) as [old|]; simpl; auto.
    destruct (nth_error sg y0) as [vy|]; simpl; auto.
    destruct (lop_apply m vy) as [vy' r].
    assert (H1 : nth_error (set_var sg y0 vy') y = nth_error sg y) by (apply nth_error_set_var_neq; tauto).
    destruct r as [res|]; simpl; auto.
    destruct (nth_error (set_var sg y0 vy') x) as [v1|]; simpl; auto.
    destruct (v_opassign_old p f old (if wrap then VList [res] else res) v1) as [v' ok']. simpl.
    rewrite nth_error_set_var_neq; [auto | tauto].
  - destruct (nth_error sg x); simpl; auto. destruct (v_get_wd v p d); simpl; auto. destruct (eval sg e); simpl; auto.
    destruct (v_opassign_old p f v0 v1 v) as [v' ok']. simpl. apply nth_error_set_var_neq. tauto.
  - destruct (eval sg e); simpl; auto. destruct (nth_error sg x); simpl; auto.
    destruct (v_mevery p (every_leaf f v) v0) as [v' r]. destruct r; simpl; auto. apply nth_error_set_var_neq. tauto.
  - destruct (read_all sg ts) as [olds|]; simpl; auto. destruct (eval sg e); simpl; auto.
    apply and_loop_frame. intro H. apply N. eapply combine_targets_incl; eauto.
Qed.

Lemma exec_list_frame body : forall sg y, ~ In y (flat_map writes_s body) ->
  nth_error (fst (exec_list sg body)) y = nth_error sg y.
Proof.
  induction body as [|s tl IH]; intros sg y N; simpl; auto.
  simpl in N. rewrite in_app_iff in N.
  destruct (exec_s sg s) as [st1 ok] eqn:E.
  assert (H1 : nth_error st1 y = nth_error sg y).
  { pose proof (exec_s_frame sg s y). rewrite E in H. apply H. tauto. }
  destruct ok; simpl; auto. rewrite IH; auto.
Qed.

Lemma exec_for_frame elems : forall sg body y, y <> 0 -> ~ In y (flat_map writes_s body) ->
  nth_error (fst (exec_for sg elems body)) y = nth_error sg y.
Proof.
  induction elems as [|e tl IH]; intros sg body y N0 N; simpl; auto.
  destruct (exec_list (set_var sg 0 e) body) as [st1 ok] eqn:E.
  assert (H1 : nth_error st1 y = nth_error sg y).
  { pose proof (exec_list_frame body (set_var sg 0 e) y N). rewrite E in H. simpl in H. rewrite H.
    apply nth_error_set_var_neq. auto. }
  destruct ok; simpl; auto. rewrite IH; auto.
Qed.

Lemma exec_frame sg s y : ~ In y (writes s) -> nth_error (fst (exec sg s)) y = nth_error sg y.
Proof.
  destruct s as [s|x p body]; simpl; intro N.
  - apply exec_s_frame; auto.
  - destruct (nth_error sg x) as [vx|]; simpl; auto.
    destruct (v_get vx p) as [src|]; simpl; auto.
    destruct (iter_vals src) as [elems|]; simpl; auto.
    destruct sg as [|saved sg']; simpl; auto.
    destruct (exec_for (saved :: sg') elems body) as [st1 ok] eqn:EF. simpl.
    rewrite nth_error_set_var_neq; [|intro; subst; apply N; left; auto].
    pose proof (exec_for_frame elems (saved :: sg') body y). rewrite EF in H. apply H; auto.
Qed.

Lemma final_value_frame ops : forall sg y, (forall s, In s ops -> ~ In y (writes s)) ->
  nth_error (final_value sg ops) y = nth_error sg y.
Proof.
  induction ops as [|s ops IH]; intros sg y N; simpl; auto.
  unfold final_value. simpl. fold (final_value (fst (exec sg s)) ops).
  rewrite IH; [|intros; apply N; right; auto]. apply exec_frame. apply N. left; auto.
Qed.

(* ------------------------------------------------------------------ the corollaries *)
(* after `y = x` (or `y = x[p]`, or any statement), whatever later statements do to x or to any other
   variable - including in-place mutation of cells that y shares - the machine's y stands for the same tree,
   as long as no later statement assigns to y itself *)
Lemma alias_unaffected_gen n ops1 ops2 y t :
  forallb ffrag (ops1 ++ ops2) = true ->
  (forall s, In s ops2 -> ~ In y (writes s)) ->
  nth_error (final_value (repeat VNull n) ops1) y = Some t ->
  holds (final_cow (init_state n) (ops1 ++ ops2)) y t.
Proof.
  intros FR NW Hy.
  destruct (init_ok n) as [I0 S0].
  destruct (final_refines_f (ops1 ++ ops2) FR _ _ I0 S0) as [I S].
  eapply Sim_holds; eauto.
  rewrite final_value_app. rewrite final_value_frame; auto.
Qed.

Lemma eval_ERead_whole sg x : eval sg (ERead x []) = nth_error sg x.
Proof. simpl. destruct (nth_error sg x); auto. Qed.

Lemma nth_error_set_var_eq sg x v old : nth_error sg x = Some old -> nth_error (set_var sg x v) x = Some v.
Proof.
  unfold set_var, unlabelled. revert x. induction sg as [|a sg IH]; intros x H; destruct x; simpl in *; try discriminate; auto.
Qed.

(* the number of variables never changes *)
Lemma length_set_var sg x v : length (set_var sg x v) = length sg.
Proof.
  unfold set_var, unlabelled. rewrite map_length. revert x. induction sg as [|a sg IH]; intro x; destruct x; simpl; auto.
  rewrite map_length. reflexivity.
Qed.
Lemma length_assign_to sg every x p w : length (fst (assign_to sg every x p w)) = length sg.
Proof.
  unfold assign_to. destruct (nth_error sg x); simpl; auto. destruct (v_set every p (Some w) v). simpl. apply length_set_var.
Qed.
Lemma length_and_loop f w l : forall sg, length (fst (and_loop f w sg l)) = length sg.
Proof.
  induction l as [|[[x p] old] tl IH]; intros sg; simpl; auto.
  destruct (nth_error sg x); simpl; auto.
  destruct (v_opassign_old p f old w v) as [v' ok]. destruct ok; simpl.
  - rewrite IH. apply length_set_var.
  - apply length_set_var.
Qed.
Lemma length_exec_s sg s : length (fst (exec_s sg s)) = length sg.
Proof.
  destruct s; simpl.
  - destruct (eval sg e); simpl; auto. apply length_assign_to.
  - destruct (eval sg e); simpl; auto. apply length_assign_to.
  - destruct (nth_error sg x); simpl; auto. destruct (v_get v p); simpl; auto. destruct (eval sg e); simpl; auto.
    destruct (v_opassign p f v1 v) as [v' ok']. simpl. apply length_set_var.
  - destruct (nth_error sg x); simpl; auto. destruct (lop_apply m v) as [v' r].
    destruct r as [res|]; simpl; [|apply length_set_var].
    destruct dst as [[y0 q]|]; simpl; [|apply length_set_var].
    rewrite length_assign_to. apply length_set_var.
  - destruct (nth_error sg x) as [vx|]; simpl; auto.
    destruct (v_get vx p) as [a|]; simpl; auto.
    destruct (nth_error sg y) as [vy|]; simpl; auto.
    destruct (v_get vy q) as [b|]; simpl; auto.
    destruct (assign_to sg false x p b) as [st1 ok1] eqn:E1.
    assert (H1 : length st1 = length sg).
    { pose proof (length_assign_to sg false x p b). rewrite E1 in H. auto. }
    destruct ok1; simpl; auto. rewrite length_assign_to; auto.
  - destruct (nth_error sg x) as [v|]; simpl; auto.
    destruct (v_get v p) as [old|]; simpl; auto.
    destruct (nth_error sg y) as [vy|]; simpl; auto.
    destruct (lop_apply m vy) as [vy' r].
    destruct r as [res|]; simpl; [|apply length_set_var].
    destruct (nth_error (set_var sg y vy') x) as [v1|]; simpl; [|apply length_set_var].
    destruct (v_opassign_old p f old (if wrap then VList [res] else res) v1) as [v' ok']. simpl.
    rewrite !length_set_var. reflexivity.
  - destruct (nth_error sg x); simpl; auto. destruct (v_get_wd v p d); simpl; auto. destruct (eval sg e); simpl; auto.
    destruct (v_opassign_old p f v0 v1 v) as [v' ok']. simpl. apply length_set_var.
  - destruct (eval sg e); simpl; auto. destruct (nth_error sg x); simpl; auto.
    destruct (v_mevery p (every_leaf f v) v0) as [v' r]. destruct r; simpl; auto. apply length_set_var.
  - destruct (read_all sg ts) as [olds|]; simpl; auto. destruct (eval sg e); simpl; auto. apply length_and_loop.
Qed.
Lemma length_exec_list body : forall sg, length (fst (exec_list sg body)) = length sg.
Proof.
  induction body as [|s tl IH]; intro sg; simpl; auto.
  destruct (exec_s sg s) as [st1 ok] eqn:E.
  assert (H1 : length st1 = length sg) by (pose proof (length_exec_s sg s) as H; rewrite E in H; auto).
  destruct ok; simpl; auto. rewrite IH; auto.
Qed.
Lemma length_exec_for elems : forall sg body, length (fst (exec_for sg elems body)) = length sg.
Proof.
  induction elems as [|e tl IH]; intros sg body; simpl; auto.
  destruct (exec_list (set_var sg 0 e) body) as [st1 ok] eqn:E.
  assert (H1 : length st1 = length sg).
  { pose proof (length_exec_list body (set_var sg 0 e)) as H. rewrite E in H. simpl in H. rewrite H. apply length_set_var. }
  destruct ok; simpl; auto. rewrite IH; auto.
Qed.
Lemma length_exec sg s : length (fst (exec sg s)) = length sg.
Proof.
  destruct s as [s|x p body]; simpl.
  - apply length_exec_s.
  - destruct (nth_error sg x) as [vx|]; simpl; auto.
    destruct (v_get vx p) as [src|]; simpl; auto.
    destruct (iter_vals src) as [elems|]; simpl; auto.
    destruct sg as [|saved sg']; simpl; auto.
    destruct (exec_for (saved :: sg') elems body) as [st1 ok] eqn:EF. simpl. rewrite length_set_var.
    pose proof (length_exec_for elems (saved :: sg') body) as H. rewrite EF in H. auto.
Qed.
Lemma length_final_value ops : forall sg, length (final_value sg ops) = length sg.
Proof.
  induction ops as [|s ops IH]; intro sg; simpl; auto.
  unfold final_value. simpl. fold (final_value (fst (exec sg s)) ops). rewrite IH. apply length_exec.
Qed.

(* the property's first sentence of the second half: a value that has been copied into another variable is never
   changed by a later mutation of the original.  After `y = x`, the machine's y stands for the tree x had at that
   moment, whatever the later statements (which may mutate x in place through cells that y shares) do, as long as
   none of them assigns to y itself. *)
Lemma alias_unaffected n ops1 x y ops2 t :
  forallb ffrag (ops1 ++ Simple (SAssign y [] (ERead x [])) :: ops2) = true ->
  (forall s, In s ops2 -> ~ In y (writes s)) ->
  y < n ->
  nth_error (final_value (repeat VNull n) ops1) x = Some t ->
  holds (final_cow (init_state n) (ops1 ++ Simple (SAssign y [] (ERead x [])) :: ops2)) y t.
Proof.
  intros FR NW Hy Hx.
  change (ops1 ++ Simple (SAssign y [] (ERead x [])) :: ops2) with (ops1 ++ [Simple (SAssign y [] (ERead x []))] ++ ops2) in *.
  rewrite app_assoc in *.
  apply alias_unaffected_gen; auto.
  rewrite final_value_app. unfold final_value at 1. simpl.
  set (sg1 := final_value (repeat VNull n) ops1) in *.
  assert (Hlen : length sg1 = n) by (unfold sg1; rewrite length_final_value; apply repeat_length).
  rewrite Hx. simpl. unfold assign_to.
  destruct (nth_error sg1 y) as [old|] eqn:Ey.
  - simpl. eapply nth_error_set_var_eq; eauto.
  - apply nth_error_None in Ey. lia.
Qed.

(* calling a function on a value bound to a variable leaves that variable's value unchanged:
   `y = (\a -> (mutate a; a))(x)` - the parameter is mutated inside the call, the machine's x still stands for
   the same tree *)
Lemma call_leaves_argument n ops x y m t :
  forallb ffrag (ops ++ [Simple (SAssign y [] (ECall m (ERead x [])))]) = true ->
  x <> y ->
  nth_error (final_value (repeat VNull n) ops) x = Some t ->
  holds (final_cow (init_state n) (ops ++ [Simple (SAssign y [] (ECall m (ERead x [])))])) x t.
Proof.
  intros FR N Hx. apply alias_unaffected_gen; auto.
  intros s Hs. simpl in Hs. destruct Hs as [Hs|[]]. subst s. simpl. intros [H|[]]. congruence.
Qed.

(* a closure shares the variable, not the value it had when the closure was made: the getter `\-> x`
   (captured before) returns the CURRENT content of x *)
Lemma closure_sees_variable_not_value n ops x y t :
  forallb ffrag (ops ++ [Simple (SAssign y [] (EGet x))]) = true ->
  y < n ->
  nth_error (final_value (repeat VNull n) ops) x = Some t ->
  holds (final_cow (init_state n) (ops ++ [Simple (SAssign y [] (EGet x))])) y t.
Proof.
  intros FR Hy Hx.
  rewrite <- (app_nil_r (ops ++ [Simple (SAssign y [] (EGet x))])) in *.
  apply alias_unaffected_gen; auto.
  rewrite final_value_app. unfold final_value at 1. simpl.
  set (sg1 := final_value (repeat VNull n) ops) in *.
  assert (Hlen : length sg1 = n) by (unfold sg1; rewrite length_final_value; apply repeat_length).
  rewrite Hx. simpl. unfold assign_to.
  destruct (nth_error sg1 y) as [old|] eqn:Ey.
  - simpl. eapply nth_error_set_var_eq; eauto.
  - apply nth_error_None in Ey. lia.
Qed.
