(* C01/C02 MACHINE, part 1: a heap of reference-counted cells and the five Rc primitives.

   A cell is one Rc payload (Rc<Vec<Obj>>, Rc<HashMap<..>>, Rc<String>, Rc<Vec<NNum>>,
   Rc<Vec<u8>>) with its strong count.  Locations are indices into the cell list and are never
   reused (a freed cell keeps its index, with count 0 and no items).  A handle value `hval` is
   what an `Obj` is in core.rs: null, a number, a handle to a payload (the dict default lives in
   the handle: Seq::Dict(Rc<..>, Option<Box<Obj>>)), or a struct instance whose fields are stored
   inline (Box<Vec<Obj>>: cloned field by field with the handle).

   Primitives, with the documented std::rc meaning:
     alloc        Rc::new            fresh location, count 1
     clone_val    Obj::clone         count+1 for every handle in the value (inline parts are copied)
     drop_val     drop(Obj)          count-1; at 0 the cell is freed and its items dropped in turn
     make_mut     Rc::make_mut       count = 1: same location; otherwise clone the payload into a
                                     fresh cell (count 1, every child count+1, `copied` += length)
                                     and release the old handle
     set_item/..  &mut access to the payload after make_mut
   Definitions only. *)
From Coq Require Import ZArith List Bool Arith.
From NV Require Import Rc.ValueSem.
Import ListNotations.

Local Open Scope nat_scope.

Definition loc := nat.

Inductive hval :=
| HNull
| HInt (z : Z)
| HRef (l : loc) (d : option hval)
| HInst (sid : nat) (fields : list hval).

Record cell := mkcell { cnt : nat; ckind : kind; citems : list (key * hval) }.
Record heap := mkheap { cells : list cell; copied : nat }.

Definition empty_heap : heap := mkheap [] 0.

(* ------------------------------------------------------------------ the handles a value holds *)
Fixpoint handles (v : hval) : list loc :=
  match v with
  | HNull | HInt _ => []
  | HRef l d => l :: match d with Some dv => handles dv | None => [] end
  | HInst _ fs => (fix go (l : list hval) : list loc :=
                     match l with [] => [] | f :: tl => handles f ++ go tl end) fs
  end.

Definition handles_list (vs : list hval) : list loc := flat_map handles vs.
Definition handles_opt (d : option hval) : list loc := match d with Some v => handles v | None => [] end.
Definition handles_items (its : list (key * hval)) : list loc := flat_map (fun kv => handles (snd kv)) its.
Definition handles_heap (h : heap) : list loc := flat_map (fun c => handles_items (citems c)) (cells h).

(* ------------------------------------------------------------------ cells *)
Definition get_cell (h : heap) (l : loc) : option cell := nth_error (cells h) l.

Fixpoint list_upd {A} (l : list A) (n : nat) (a : A) : list A :=
  match l, n with
  | [], _ => []
  | _ :: tl, O => a :: tl
  | x :: tl, S n' => x :: list_upd tl n' a
  end.

Definition set_cell (h : heap) (l : loc) (c : cell) : heap := mkheap (list_upd (cells h) l c) (copied h).

Definition cnt_of (h : heap) (l : loc) : nat := match get_cell h l with Some c => cnt c | None => 0 end.

Definition set_items (h : heap) (l : loc) (its : list (key * hval)) : heap :=
  match get_cell h l with
  | Some c => set_cell h l (mkcell (cnt c) (ckind c) its)
  | None => h
  end.

(* Rc::new *)
Definition alloc (h : heap) (k : kind) (its : list (key * hval)) : heap * loc :=
  (mkheap (cells h ++ [mkcell 1 k its]) (copied h), length (cells h)).

Definition incr (h : heap) (l : loc) : heap :=
  match get_cell h l with
  | Some c => set_cell h l (mkcell (S (cnt c)) (ckind c) (citems c))
  | None => h
  end.

Definition decr (h : heap) (l : loc) : heap :=
  match get_cell h l with
  | Some c => set_cell h l (mkcell (cnt c - 1) (ckind c) (citems c))
  | None => h
  end.

(* Clone: one more strong reference for every handle held by the value *)
Definition clone_locs (h : heap) (ls : list loc) : heap := fold_left incr ls h.
Definition clone_val (h : heap) (v : hval) : heap := clone_locs h (handles v).

(* Drop: a work list of handles to release.  Releasing the last reference frees the cell and
   puts the handles of its items on the work list.  Every step lowers the sum of all counts by
   one, so that sum is enough fuel (Heap_proofs.drop_locs_inv). *)
Fixpoint drop_list (fuel : nat) (h : heap) (ws : list loc) : heap :=
  match fuel with
  | O => h
  | S f =>
    match ws with
    | [] => h
    | l :: rest =>
      match get_cell h l with
      | None => drop_list f h rest
      | Some c =>
        if cnt c <=? 1
        then drop_list f (set_cell h l (mkcell 0 (ckind c) [])) (handles_items (citems c) ++ rest)
        else drop_list f (set_cell h l (mkcell (cnt c - 1) (ckind c) (citems c))) rest
      end
    end
  end.

Definition sumcnt (h : heap) : nat := list_sum (map cnt (cells h)).
Definition drop_locs (h : heap) (ls : list loc) : heap := drop_list (sumcnt h) h ls.
Definition drop_val (h : heap) (v : hval) : heap := drop_locs h (handles v).
Definition drop_opt (h : heap) (o : option hval) : heap := drop_locs h (handles_opt o).

(* the cost counter of C02: elements copied by make_mut *)
Definition add_copied (h : heap) (n : nat) : heap := mkheap (cells h) (copied h + n).

(* Rc::make_mut on the handle to l: the location to mutate through afterwards *)
Definition make_mut (h : heap) (l : loc) : heap * loc :=
  match get_cell h l with
  | None => (h, l)
  | Some c =>
    if cnt c =? 1 then (h, l)
    else
      let h1 := clone_locs h (handles_items (citems c)) in
      let h2 := decr h1 l in
      let '(h3, l') := alloc h2 (ckind c) (citems c) in
      (add_copied h3 (length (citems c)), l')
  end.

(* ------------------------------------------------------------------ literals *)
(* evaluating a literal expression: every container is a fresh Rc *)
Fixpoint alloc_val (h : heap) (t : val) : heap * hval :=
  match t with
  | VNull => (h, HNull)
  | VInt z => (h, HInt z)
  | VSeq k its d =>
    let '(h1, es) :=
      (fix go (h : heap) (its : list (key * val)) : heap * list (key * hval) :=
         match its with
         | [] => (h, [])
         | (ky, t1) :: tl => let '(h', e) := alloc_val h t1 in
                             let '(h'', es) := go h' tl in (h'', (ky, e) :: es)
         end) h its in
    let '(h2, dv) := match d with
                     | Some dt => let '(h', e) := alloc_val h1 dt in (h', Some e)
                     | None => (h1, None)
                     end in
    let '(h3, l) := alloc h2 k es in
    (h3, HRef l dv)
  | VInst sid fs =>
    let '(h1, es) :=
      (fix go (h : heap) (fs : list val) : heap * list hval :=
         match fs with
         | [] => (h, [])
         | t1 :: tl => let '(h', e) := alloc_val h t1 in
                       let '(h'', es) := go h' tl in (h'', e :: es)
         end) h fs in
    (h1, HInst sid es)
  end.

(* ------------------------------------------------------------------ abstraction *)
(* the tree a handle value stands for; fuel bounds the depth (the heap reachable from a root is
   acyclic, Heap_proofs: every root has a finite tree) *)
Fixpoint abs_val (fuel : nat) (h : heap) (v : hval) : option val :=
  match fuel with
  | O => None
  | S f =>
    match v with
    | HNull => Some VNull
    | HInt z => Some (VInt z)
    | HRef l d =>
      match get_cell h l with
      | None => None
      | Some c =>
        let its := (fix go (its : list (key * hval)) : option (list (key * val)) :=
                      match its with
                      | [] => Some []
                      | (k, e) :: tl => match abs_val f h e, go tl with
                                        | Some t, Some r => Some ((k, t) :: r)
                                        | _, _ => None
                                        end
                      end) (citems c) in
        let dv := match d with
                  | None => Some None
                  | Some e => match abs_val f h e with Some t => Some (Some t) | None => None end
                  end in
        match its, dv with
        | Some its', Some dv' => Some (VSeq (ckind c) its' dv')
        | _, _ => None
        end
      end
    | HInst sid fs =>
      match (fix go (fs : list hval) : option (list val) :=
               match fs with
               | [] => Some []
               | e :: tl => match abs_val f h e, go tl with
                            | Some t, Some r => Some (t :: r)
                            | _, _ => None
                            end
               end) fs with
      | Some ts => Some (VInst sid ts)
      | None => None
      end
    end
  end.
