(* C02 proofs on the FLAT fragment: a variable holding a list whose elements are scalars (ints/null),
   index paths of depth <= 1.  Everything here is by symbolic execution of the machine: exact strong counts,
   exact copy cost, exact locations.  (The general-depth in-place theorem is Inplace_proofs.m_set_inplace.) *)
From Coq Require Import ZArith List Bool Arith Lia.
From NV Require Import Rc.ValueSem Rc.Heap Rc.Cow Rc.Heap_proofs Rc.Cow_proofs Rc.Inplace_proofs.
Import ListNotations.
Local Open Scope nat_scope.

Lemma drop_list_nil fuel h : drop_list fuel h [] = h.
Proof. destruct fuel; reflexivity. Qed.
Lemma drop_locs_nil h : drop_locs h [] = h.
Proof. apply drop_list_nil. Qed.

Lemma handles_ref_none l : handles (HRef l None) = [l].
Proof. rewrite handles_ref. reflexivity. Qed.

Lemma drop_val_scalar h v : handles v = [] -> drop_val h v = h.
Proof. intro H. unfold drop_val. rewrite H. apply drop_locs_nil. Qed.
Lemma clone_val_scalar h v : handles v = [] -> clone_val h v = h.
Proof. intro H. unfold clone_val. rewrite H. reflexivity. Qed.

(* releasing one of several handles: the count goes down by one, nothing else happens *)
Lemma drop_val_shared h l c :
  get_cell h l = Some c -> 2 <= cnt c ->
  drop_val h (HRef l None) = set_cell h l (mkcell (cnt c - 1) (ckind c) (citems c)).
Proof.
  intros Hc C. unfold drop_val, drop_locs. rewrite handles_ref_none.
  pose proof (cnt_le_sumcnt _ _ _ Hc). destruct (sumcnt h) as [|f] eqn:S; [lia|].
  simpl. rewrite Hc. destruct (cnt c <=? 1) eqn:E; [apply Nat.leb_le in E; lia|]. apply drop_list_nil.
Qed.

Lemma clone_val_ref h l c :
  get_cell h l = Some c -> clone_val h (HRef l None) = set_cell h l (mkcell (S (cnt c)) (ckind c) (citems c)).
Proof. intro Hc. unfold clone_val. rewrite handles_ref_none. simpl. unfold incr. rewrite Hc. reflexivity. Qed.

(* the flat, unaliased situation of variable x: its cell l has count 1 and scalar items *)
Definition uniq_flat (st : mstate) (x : nat) (l : loc) : Prop :=
  nth_error (roots st) x = Some (HRef l None) /\
  exists c, get_cell (mheap st) l = Some c /\ cnt c = 1 /\ ckind c = KList /\
            Forall (fun kv => handles (snd kv) = []) (citems c).

Lemma nth_error_set_root_eq rs x v old : nth_error rs x = Some old -> nth_error (set_root rs x v) x = Some v.
Proof.
  unfold set_root, hset_field. revert x. induction rs as [|a rs IH]; intros x H; destruct x; simpl in *; try discriminate; auto.
Qed.

Lemma Forall_set_nth {A} (P : key * A -> Prop) its n (a : A) :
  Forall P its -> (forall k, P (k, a)) -> Forall P (set_nth n a its).
Proof.
  intros H Ha. revert n. induction H as [|[k x] its Hx Hits IH]; intro n; destruct n; simpl; constructor; auto.
Qed.

Lemma nth_item_Forall {A} (P : key * A -> Prop) its n (a : A) :
  Forall P its -> nth_item n its = Some a -> exists k, P (k, a).
Proof.
  unfold nth_item. intros H Hn. destruct (nth_error its n) as [[k x]|] eqn:E; [|discriminate].
  inversion Hn; subst. exists k. rewrite Forall_forall in H. apply H. eapply nth_error_In; eauto.
Qed.

Definition same_cost_st (st st' : mstate) : Prop := same_cost (mheap st) (mheap st').

(* ------------------------------------------------------------------ two writes to the same cell *)
Lemma list_upd_twice {A} (l : list A) n a b : list_upd (list_upd l n a) n b = list_upd l n b.
Proof. revert n. induction l; destruct n; simpl; auto. rewrite IHl. reflexivity. Qed.

Lemma set_cell_twice h l c1 c2 : set_cell (set_cell h l c1) l c2 = set_cell h l c2.
Proof. unfold set_cell. simpl. rewrite list_upd_twice. reflexivity. Qed.

Lemma set_items_twice h l c its1 its2 :
  get_cell h l = Some c -> set_items (set_items h l its1) l its2 = set_items h l its2.
Proof.
  intro Hc. unfold set_items at 1. rewrite (get_cell_set_items_eq _ _ _ its1 Hc). simpl.
  unfold set_items. rewrite Hc. apply set_cell_twice.
Qed.

Lemma put_as_set h l c n e : get_cell h l = Some c -> put_item h l n e = set_items h l (set_nth n e (citems c)).
Proof. apply put_item_eq. Qed.

Lemma put_put h l c n a b :
  get_cell h l = Some c -> put_item (put_item h l n a) l n b = set_items h l (set_nth n b (citems c)).
Proof.
  intro Hc. rewrite (put_as_set h l c n a Hc).
  rewrite (put_as_set _ l _ n b (get_cell_set_items_eq _ _ _ _ Hc)). simpl.
  rewrite set_nth_set_nth. apply set_items_twice with c. auto.
Qed.

Lemma uniq_flat_set_items h rs x l c its :
  nth_error rs x = Some (HRef l None) -> get_cell h l = Some c -> cnt c = 1 -> ckind c = KList ->
  Forall (fun kv => handles (snd kv) = []) its ->
  uniq_flat (mkst (set_items h l its) (set_root rs x (HRef l None))) x l.
Proof.
  intros Hx Hc C K F. split; simpl.
  - eapply nth_error_set_root_eq; eauto.
  - exists (mkcell (cnt c) (ckind c) its). rewrite (get_cell_set_items_eq _ _ _ _ Hc). simpl. auto.
Qed.

Lemma same_cost_set_items h l its : same_cost h (set_items h l its).
Proof. unfold same_cost. rewrite copied_set_items, length_set_items. auto. Qed.

Lemma set_root_same rs x v : nth_error rs x = Some v -> set_root rs x v = rs.
Proof.
  unfold set_root, hset_field. revert x. induction rs as [|a rs IH]; intros x H; destruct x; simpl in *; try discriminate.
  - inversion H; subst. rewrite map_snd_label. reflexivity.
  - f_equal. apply IH. auto.
Qed.

Lemma bplus_non_num h a v :
  kind_of h a = None -> (forall y, a <> HInt y) -> m_bop BPlus h a (HInt v) = (drop2 h a (HInt v), None).
Proof.
  intros Hk Hn. destruct a as [|y|l0 d0|sid fs]; simpl in *; auto.
  - exfalso. eapply Hn; eauto.
  - rewrite Hk. reflexivity.
Qed.

(* ------------------------------------------------------------------ the five in-place-eligible statement forms, executed *)
Section Flat.
Variables (h : heap) (rs : list hval) (x : nat) (l : loc) (c : cell).
Hypothesis Hx : nth_error rs x = Some (HRef l None).
Hypothesis Hc : get_cell h l = Some c.
Hypothesis C1 : cnt c = 1.
Hypothesis K : ckind c = KList.
Hypothesis FL : Forall (fun kv => handles (snd kv) = []) (citems c).

Lemma mm_id : make_mut h l = (h, l).
Proof. apply make_mut_unique with c; auto. Qed.

Lemma item_scalar n e : nth_item n (citems c) = Some e -> handles e = [].
Proof. intro H. destruct (nth_item_Forall _ _ _ _ FL H) as [k Hk]. exact Hk. Qed.

(* x[z] = v *)
Lemma exec_set_flat z v st' ok :
  m_exec_s (mkst h rs) (SAssign x [PI z] (ELit (VInt v))) = (st', ok) ->
  uniq_flat st' x l /\ same_cost h (mheap st').
Proof.
  simpl. unfold m_assign_to. simpl. rewrite Hx. simpl. rewrite Hc, K. rewrite mm_id.
  destruct (norm_index (length (citems c)) z) as [n|].
  - destruct (nth_item n (citems c)) as [e|] eqn:Ne.
    + unfold m_set_here. rewrite (drop_val_scalar _ e (item_scalar n e Ne)).
      rewrite (put_put h l c n HNull (HInt v) Hc). intro E. inversion E; subst. split.
      * apply uniq_flat_set_items with c; auto. apply Forall_set_nth; auto.
      * simpl. apply same_cost_set_items.
    + intro E. inversion E; subst. unfold drop_opt. simpl. rewrite handles_int, drop_locs_nil. split.
      * rewrite set_root_same; auto. split; simpl; eauto 6.
      * apply same_cost_refl.
  - intro E. inversion E; subst. unfold drop_opt. simpl. rewrite handles_int, drop_locs_nil. split.
    + rewrite set_root_same; auto. split; simpl; eauto 6.
    + apply same_cost_refl.
Qed.

(* the heap after reading x (one more handle) *)
Definition h_read : heap := set_cell h l (mkcell 2 (ckind c) (citems c)).
Lemma read_x : m_read h (HRef l None) [] = (h_read, Some (HRef l None)).
Proof. unfold m_read. simpl. rewrite (clone_val_ref h l c Hc), C1. reflexivity. Qed.

Lemma get_h_read : get_cell h_read l = Some (mkcell 2 (ckind c) (citems c)).
Proof. unfold h_read. eapply get_cell_set_eq; eauto. Qed.

(* ... and after drop_lhs released the variable's handle again: the operator's argument is unique *)
Definition h_dropped : heap := set_cell h l (mkcell 1 (ckind c) (citems c)).
Lemma drop_x : drop_val h_read (HRef l None) = h_dropped.
Proof.
  rewrite (drop_val_shared h_read l _ get_h_read); [|simpl; lia]. simpl. unfold h_read, h_dropped. apply set_cell_twice.
Qed.
Lemma get_h_dropped : get_cell h_dropped l = Some (mkcell 1 (ckind c) (citems c)).
Proof. unfold h_dropped. eapply get_cell_set_eq; eauto. Qed.

Lemma same_cost_dropped : same_cost h h_dropped.
Proof. unfold h_dropped, same_cost. simpl. rewrite list_upd_length. auto. Qed.

(* x append= v   (opassign_drop_restores_uniqueness, flat: the list handed to `append` has count 1) *)
Lemma exec_append_flat v st' ok :
  m_exec_s (mkst h rs) (SOp x [] BAppend (ELit (VInt v))) = (st', ok) ->
  uniq_flat st' x l /\ same_cost h (mheap st') /\ ok = true.
Proof.
  simpl. rewrite Hx. unfold m_read. simpl. rewrite (clone_val_ref h l c Hc), C1. fold h_read. simpl.
  unfold m_opassign. simpl. unfold m_set_here. rewrite drop_x. simpl.
  rewrite get_h_dropped. simpl. rewrite K.
  rewrite (make_mut_unique h_dropped l _ get_h_dropped eq_refl).
  rewrite (items_of_eq _ _ _ get_h_dropped). simpl.
  rewrite (drop_val_scalar _ HNull handles_null).
  intro E. inversion E; subst. clear E. split; [|split; auto].
  - split; simpl.
    + eapply nth_error_set_root_eq; eauto.
    + rewrite (get_cell_set_items_eq _ _ _ _ get_h_dropped). simpl. eexists; split; [reflexivity|]. simpl.
      split; [auto|]. split; [auto|]. apply Forall_app. split; auto.
  - eapply same_cost_trans; [apply same_cost_dropped | apply same_cost_set_items].
Qed.

(* x[z] += v *)
Lemma exec_plus_flat z v st' ok :
  m_exec_s (mkst h rs) (SOp x [PI z] BPlus (ELit (VInt v))) = (st', ok) ->
  uniq_flat st' x l /\ same_cost h (mheap st').
Proof.
  simpl. rewrite Hx. unfold m_read. rewrite (clone_val_ref h l c Hc), C1. fold h_read.
  simpl. rewrite get_h_read. simpl. rewrite K.
  assert (KEEP : uniq_flat (mkst h_dropped rs) x l /\ same_cost h h_dropped).
  { split; [|apply same_cost_dropped]. split; simpl; auto. rewrite get_h_dropped. eexists; split; [reflexivity|]. simpl. auto. }
  destruct (norm_index (length (citems c)) z) as [n|] eqn:NI.
  2: { rewrite drop_x. intro E. inversion E; subst. exact KEEP. }
  destruct (nth_item n (citems c)) as [e|] eqn:Ne.
  2: { rewrite drop_x. intro E. inversion E; subst. exact KEEP. }
  pose proof (item_scalar n e Ne) as He.
  rewrite (clone_val_scalar _ e He). rewrite drop_x. simpl.
  (* drop_lhs: x[z] becomes null *)
  unfold m_opassign. simpl. rewrite get_h_dropped. simpl. rewrite K.
  rewrite (make_mut_unique h_dropped l _ get_h_dropped eq_refl). rewrite NI, Ne.
  unfold m_set_here. rewrite (drop_val_scalar _ e He). simpl.
  rewrite (put_put h_dropped l _ n HNull HNull get_h_dropped). simpl.
  set (h3 := set_items h_dropped l (set_nth n HNull (citems c))).
  assert (G3 : get_cell h3 l = Some (mkcell 1 (ckind c) (set_nth n HNull (citems c)))).
  { unfold h3. rewrite (get_cell_set_items_eq _ _ _ _ get_h_dropped). reflexivity. }
  assert (SC3 : same_cost h h3) by (eapply same_cost_trans; [apply same_cost_dropped | apply same_cost_set_items]).
  assert (F3 : Forall (fun kv => handles (snd kv) = []) (set_nth n HNull (citems c))).
  { apply Forall_set_nth; auto. }
  assert (U3 : uniq_flat (mkst h3 (set_root rs x (HRef l None))) x l).
  { split; simpl. eapply nth_error_set_root_eq; eauto. rewrite G3. eexists; split; [reflexivity|]. simpl. auto. }
  assert (NONNUM : kind_of h3 e = None -> (forall y, e <> HInt y) ->
            (let '(h4, cur', ok0) :=
               match m_bop BPlus h3 e (HInt v) with
               | (h2, Some r) => m_set false [PI z] (Some r) h2 (HRef l None)
               | (h2, None) => (h2, HRef l None, false)
               end in ({| mheap := h4; roots := set_root rs x cur' |}, ok0)) = (st', ok) ->
            uniq_flat st' x l /\ same_cost h (mheap st')).
  { intros Hk Hn. rewrite (bplus_non_num h3 e v Hk Hn). unfold drop2.
    rewrite (drop_val_scalar _ e He), (drop_val_scalar _ (HInt v) (handles_int v)).
    intro E. inversion E; subst. split; auto. }
  destruct e as [|y|l0 d0|sid fs].
  1: { apply NONNUM; [reflexivity | intros y0 Hy0; discriminate]. }
  2: { rewrite handles_ref in He. discriminate. }
  2: { apply NONNUM; [reflexivity | intros y0 Hy0; discriminate]. }
  (* int + int, then assign back *)
  simpl. rewrite G3. simpl. rewrite K.
  rewrite (make_mut_unique h3 l _ G3 eq_refl). simpl.
  assert (L3 : length (set_nth n HNull (citems c)) = length (citems c)).
  { clear. generalize (citems c). intro its. revert n. induction its as [|[k0 x0] its IH]; destruct n; simpl; auto. }
  rewrite L3, NI. rewrite (nth_item_set_nth _ _ _ _ Ne).
  unfold m_set_here. rewrite (drop_val_scalar _ HNull handles_null).
  rewrite (put_put h3 l _ n HNull (HInt (y + v)%Z) G3). simpl. rewrite set_nth_set_nth.
  intro E. inversion E; subst. clear E. split.
  - split; simpl.
    + eapply nth_error_set_root_eq; eauto.
    + rewrite (get_cell_set_items_eq _ _ _ _ G3). simpl. eexists; split; [reflexivity|]. simpl.
      split; [auto|]. split; [auto|]. apply Forall_set_nth; auto.
  - eapply same_cost_trans; [exact SC3 | apply same_cost_set_items].
Qed.

(* pop x *)
Lemma exec_pop_flat st' ok :
  m_exec_s (mkst h rs) (SMod None x (LPop [])) = (st', ok) ->
  uniq_flat st' x l /\ same_cost h (mheap st').
Proof.
  simpl. rewrite Hx. simpl. rewrite Hc, K. rewrite mm_id.
  destruct (nth_item (length (citems c) - 1) (citems c)) as [e|] eqn:Ne.
  - rewrite (drop_val_scalar _ e (item_scalar _ e Ne)). intro E. inversion E; subst. split.
    + apply uniq_flat_set_items with c; auto. rewrite removelast_del_nth.
      clear - FL. generalize (length (citems c) - 1). intro n. revert n. induction FL; destruct n; simpl; auto.
    + apply same_cost_set_items.
  - intro E. inversion E; subst. split; [|apply same_cost_refl].
    rewrite set_root_same; auto. split; simpl; eauto 6.
Qed.

(* remove x[z] *)
Lemma exec_remove_flat z st' ok :
  m_exec_s (mkst h rs) (SMod None x (LRemove [] (PI z))) = (st', ok) ->
  uniq_flat st' x l /\ same_cost h (mheap st').
Proof.
  simpl. rewrite Hx. simpl. rewrite Hc, K.
  assert (KEEP : uniq_flat (mkst h (set_root rs x (HRef l None))) x l /\ same_cost h h).
  { split; [|apply same_cost_refl]. rewrite set_root_same; auto. split; simpl; eauto 6. }
  destruct (norm_index (length (citems c)) z) as [n|]; [|intro E; inversion E; subst; exact KEEP].
  destruct (nth_item n (citems c)) as [e|] eqn:Ne; [|intro E; inversion E; subst; exact KEEP].
  rewrite mm_id. rewrite (drop_val_scalar _ e (item_scalar _ e Ne)). intro E. inversion E; subst. split.
  - apply uniq_flat_set_items with c; auto.
    clear - FL. revert n. induction FL; destruct n; simpl; auto.
  - apply same_cost_set_items.
Qed.
End Flat.

(* ------------------------------------------------------------------ unaliased_stays_unique (flat): the O(n + k) clause *)
Inductive noncopy (x : nat) : stmt -> Prop :=
| NC_set z v : noncopy x (Simple (SAssign x [PI z] (ELit (VInt v))))
| NC_append v : noncopy x (Simple (SOp x [] BAppend (ELit (VInt v))))
| NC_plus z v : noncopy x (Simple (SOp x [PI z] BPlus (ELit (VInt v))))
| NC_pop : noncopy x (Simple (SMod None x (LPop [])))
| NC_remove z : noncopy x (Simple (SMod None x (LRemove [] (PI z)))).

Lemma noncopy_step x l st s st' ok :
  uniq_flat st x l -> noncopy x s -> m_exec st s = (st', ok) ->
  uniq_flat st' x l /\ same_cost (mheap st) (mheap st').
Proof.
  intros [Hx [c [Hc [C1 [K FL]]]]] NC E. destruct st as [h rs]. simpl in *.
  destruct NC; unfold m_exec in E.
  - eapply exec_set_flat; eauto.
  - destruct (exec_append_flat h rs x l c Hx Hc C1 K FL v st' ok E) as [A [B _]]. auto.
  - eapply exec_plus_flat; eauto.
  - eapply exec_pop_flat; eauto.
  - eapply exec_remove_flat; eauto.
Qed.

Lemma noncopy_run x l ops : Forall (noncopy x) ops -> forall st,
  uniq_flat st x l ->
  uniq_flat (final_cow st ops) x l /\ same_cost (mheap st) (mheap (final_cow st ops)).
Proof.
  induction 1 as [|s ops NC _ IH]; intros st U.
  - simpl. split; auto. apply same_cost_refl.
  - unfold final_cow. simpl. fold (final_cow (fst (m_exec st s)) ops).
    destruct (m_exec st s) as [st1 ok] eqn:E. simpl.
    destruct (noncopy_step x l st s st1 ok U NC E) as [U1 SC1].
    destruct (IH st1 U1) as [U2 SC2]. split; auto. eapply same_cost_trans; eauto.
Qed.

(* Decl x lit: a fresh list literal of scalars in a variable that held null is unaliased *)
Lemma alloc_ints h zs :
  alloc_val h (VList (map VInt zs)) =
  (fst (alloc h KList (map (fun z => (nokey, HInt z)) zs)), HRef (length (cells h)) None).
Proof.
  unfold VList, unlabelled. simpl.
  assert (G : forall zs0 h0,
    (fix go (h : heap) (its : list (key * val)) {struct its} : heap * list (key * hval) :=
       match its with
       | [] => (h, [])
       | (ky, t1) :: tl => let '(h', e) := alloc_val h t1 in let '(h'', es) := go h' tl in (h'', (ky, e) :: es)
       end) h0 (map (fun v => (nokey, v)) (map VInt zs0)) = (h0, map (fun z => (nokey, HInt z)) zs0)).
  { induction zs0 as [|z zs0 IH]; intro h0; simpl; auto. rewrite IH. reflexivity. }
  rewrite G. reflexivity.
Qed.

Lemma decl_flat h rs x zs st' ok :
  nth_error rs x = Some HNull ->
  m_exec (mkst h rs) (Simple (SAssign x [] (ELit (VList (map VInt zs))))) = (st', ok) ->
  uniq_flat st' x (length (cells h)) /\ same_cost_st (mkst (fst (alloc h KList (map (fun z => (nokey, HInt z)) zs))) rs) st'.
Proof.
  intros Hx E. unfold m_exec, m_exec_s in E. cbn [m_eval mheap roots] in E. rewrite alloc_ints in E.
  unfold m_assign_to in E. cbn [mheap roots] in E. rewrite Hx in E. cbn [m_set] in E. unfold m_set_here in E.
  rewrite (drop_val_scalar _ HNull handles_null) in E. inversion E; subst. clear E. split.
  - split; simpl.
    + eapply nth_error_set_root_eq; eauto.
    + unfold get_cell. simpl. rewrite nth_error_app2; [|lia]. rewrite Nat.sub_diag. simpl.
      eexists; split; [reflexivity|]. simpl. repeat split; auto.
      induction zs; simpl; constructor; auto.
  - unfold same_cost_st. apply same_cost_refl.
Qed.

(* ------------------------------------------------------------------ copy_once_per_holder (flat) *)
(* x shares its list (count k >= 2) with other holders: the first slot assignment copies the list exactly once,
   x then holds the fresh unique copy, the other holders' cell keeps its items and loses one reference *)
Lemma copy_once_flat h rs x l c z v st' ok :
  nth_error rs x = Some (HRef l None) -> get_cell h l = Some c -> 2 <= cnt c -> ckind c = KList ->
  Forall (fun kv => handles (snd kv) = []) (citems c) ->
  m_exec (mkst h rs) (Simple (SAssign x [PI z] (ELit (VInt v)))) = (st', ok) ->
  let l' := length (cells h) in
  uniq_flat st' x l' /\
  copied (mheap st') = copied h + length (citems c) /\
  length (cells (mheap st')) = S (length (cells h)) /\
  (exists c', get_cell (mheap st') l = Some c' /\ cnt c' = cnt c - 1 /\ citems c' = citems c).
Proof.
  intros Hx Hc C2 K FL. simpl. unfold m_assign_to. simpl. rewrite Hx. simpl. rewrite Hc, K.
  assert (HI : handles_items (citems c) = []).
  { clear - FL. unfold handles_items. induction FL as [|[k e] its H _ IH]; simpl; auto. simpl in H. rewrite H, IH. reflexivity. }
  (* make_mut copies: the fresh cell *)
  unfold make_mut. rewrite Hc. destruct (cnt c =? 1) eqn:E1; [apply Nat.eqb_eq in E1; lia|].
  rewrite HI. simpl clone_locs. unfold decr. rewrite Hc. unfold alloc. simpl.
  set (h1 := add_copied _ _).
  assert (L1 : length (cells h1) = S (length (cells h))).
  { unfold h1, add_copied. simpl. rewrite app_length, list_upd_length. simpl. lia. }
  assert (G1 : get_cell h1 (length (cells h)) = Some (mkcell 1 (ckind c) (citems c))).
  { unfold h1, add_copied, get_cell. simpl. rewrite nth_error_app2; rewrite list_upd_length; [|lia].
    rewrite Nat.sub_diag. reflexivity. }
  assert (G1l : get_cell h1 l = Some (mkcell (cnt c - 1) (ckind c) (citems c))).
  { unfold h1, add_copied, get_cell. simpl. rewrite nth_error_app1; [|rewrite list_upd_length; eapply get_cell_lt; eauto].
    apply nth_error_list_upd_eq. eapply get_cell_lt; eauto. }
  assert (Nl : l <> length (cells h)) by (pose proof (get_cell_lt _ _ _ Hc); lia).
  assert (C1 : copied h1 = copied h + length (citems c)) by (unfold h1, add_copied; simpl; reflexivity).
  rewrite list_upd_length.
  assert (KEEP : forall hh, (forall m, get_cell hh m = get_cell h1 m) -> copied hh = copied h1 -> length (cells hh) = length (cells h1) ->
     uniq_flat (mkst hh (set_root rs x (HRef (length (cells h)) None))) x (length (cells h)) /\
     copied hh = copied h + length (citems c) /\ length (cells hh) = S (length (cells h)) /\
     (exists c', get_cell hh l = Some c' /\ cnt c' = cnt c - 1 /\ citems c' = citems c)).
  { intros hh G CC LL. split; [|split; [congruence|split; [congruence|rewrite G, G1l; eexists; split; [reflexivity|simpl; auto]]]].
    split; simpl. eapply nth_error_set_root_eq; eauto. rewrite G, G1. eexists; split; [reflexivity|]. simpl. auto. }
  destruct (norm_index (length (citems c)) z) as [n|].
  2: { unfold drop_opt. simpl. rewrite handles_int, drop_locs_nil. intro E. inversion E; subst. apply KEEP; auto. }
  destruct (nth_item n (citems c)) as [e|] eqn:Ne.
  2: { unfold drop_opt. simpl. rewrite handles_int, drop_locs_nil. intro E. inversion E; subst. apply KEEP; auto. }
  unfold m_set_here.
  assert (He : handles e = []) by (destruct (nth_item_Forall _ _ _ _ FL Ne) as [k Hk]; exact Hk).
  rewrite (drop_val_scalar _ e He).
  rewrite (put_put h1 _ _ n HNull (HInt v) G1). simpl.
  intro E. inversion E; subst. clear E. simpl.
  split; [|split; [|split]].
  - split; simpl. eapply nth_error_set_root_eq; eauto.
    rewrite (get_cell_set_items_eq _ _ _ _ G1). eexists; split; [reflexivity|]. simpl.
    repeat split; auto. apply Forall_set_nth; auto.
  - rewrite copied_set_items. auto.
  - rewrite length_set_items. auto.
  - rewrite get_cell_set_items_neq; auto. rewrite G1l. eexists; split; [reflexivity|simpl; auto].
Qed.

(* ------------------------------------------------------------------ opassign_drop_restores_uniqueness (flat) *)
(* `x f= e` with x unaliased: while the right-hand side is evaluated the list has two handles (the variable and the
   value read for the operator); drop_lhs releases the variable's, so the operator receives a list of count 1 and
   make_mut inside it is the identity.  Without drop_lhs the same make_mut would copy the whole list. *)
Lemma opassign_drop_restores_uniqueness_flat h l c :
  get_cell h l = Some c -> cnt c = 1 ->
  let h_read := clone_val h (HRef l None) in
  let h_dropped := drop_val h_read (HRef l None) in
  cnt_of h_read l = 2 /\ cnt_of h_dropped l = 1 /\
  make_mut h_dropped l = (h_dropped, l) /\
  copied (fst (make_mut h_read l)) = copied h + length (citems c).
Proof.
  intros Hc C1 hr hd.
  assert (Er : hr = set_cell h l (mkcell 2 (ckind c) (citems c))).
  { unfold hr. rewrite (clone_val_ref h l c Hc), C1. reflexivity. }
  assert (Gr : get_cell hr l = Some (mkcell 2 (ckind c) (citems c))) by (rewrite Er; eapply get_cell_set_eq; eauto).
  assert (Ed : hd = set_cell h l (mkcell 1 (ckind c) (citems c))).
  { unfold hd. rewrite (drop_val_shared hr l _ Gr); [|simpl; lia]. simpl. rewrite Er. apply set_cell_twice. }
  assert (Gd : get_cell hd l = Some (mkcell 1 (ckind c) (citems c))) by (rewrite Ed; eapply get_cell_set_eq; eauto).
  split; [rewrite (cnt_of_cell _ _ _ Gr); reflexivity|].
  split; [rewrite (cnt_of_cell _ _ _ Gd); reflexivity|].
  split; [apply make_mut_unique with (mkcell 1 (ckind c) (citems c)); auto|].
  destruct (make_mut hr l) as [h2 l2] eqn:MM.
  destruct (make_mut_cost hr l h2 l2 _ Gr MM) as [_ B]. simpl in B. destruct B as [B _]; [lia|].
  simpl. rewrite B. rewrite Er. reflexivity.
Qed.
