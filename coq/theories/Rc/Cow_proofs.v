(* Refinement proofs: the Rc machine of Rc/Cow.v against the value semantics of Rc/ValueSem.v.
   Every operation is specified as a Step (Rc/Heap_proofs.v): with the owned handles Rin and a
   frame F it leaves Inv with the owned handles Rout, keeps the abstraction of everything in the
   frame, mentions no old location that was not mentioned, and the handle values it returns
   stand for the trees the value semantics computes. *)
From Coq Require Import ZArith List Bool Arith Lia.
From NV Require Import Rc.ValueSem Rc.Heap Rc.Cow Rc.Heap_proofs.
Import ListNotations.
Local Open Scope nat_scope.

(* ------------------------------------------------------------------ item lists under repr *)
Lemma repr_items_length h es ts : repr_items h es ts -> length es = length ts.
Proof. induction 1; simpl; auto. Qed.

Lemma repr_items_nth h es ts n e :
  repr_items h es ts -> nth_item n es = Some e -> exists te, nth_item n ts = Some te /\ repr h e te.
Proof.
  intro H. revert n. induction H; intros n Hn; unfold nth_item in *.
  - destruct n; discriminate.
  - destruct n; simpl in *.
    + inversion Hn; subst. eauto.
    + apply IHrepr_items; auto.
Qed.

Lemma repr_items_nth_none h es ts n :
  repr_items h es ts -> nth_item n es = None -> nth_item n ts = None.
Proof.
  intro H. revert n. induction H; intros n Hn; unfold nth_item in *.
  - destruct n; reflexivity.
  - destruct n; simpl in *; [discriminate | apply IHrepr_items; auto].
Qed.

Lemma repr_items_set_nth h es ts n e te :
  repr_items h es ts -> repr h e te -> repr_items h (set_nth n e es) (set_nth n te ts).
Proof.
  intro H. revert n. induction H; intros n He; destruct n; simpl; constructor; auto.
Qed.

Lemma repr_items_find_key h es ts k : repr_items h es ts -> find_key k es = find_key k ts.
Proof. induction 1; simpl; auto. rewrite IHrepr_items. reflexivity. Qed.

Lemma repr_items_app h es ts es' ts' :
  repr_items h es ts -> repr_items h es' ts' -> repr_items h (es ++ es') (ts ++ ts').
Proof. induction 1; simpl; auto. intro. constructor; auto. Qed.

Lemma repr_list_nth h es ts n e :
  repr_list h es ts -> nth_error es n = Some e -> exists te, nth_error ts n = Some te /\ repr h e te.
Proof.
  intro H. revert n. induction H; intros n Hn.
  - destruct n; discriminate.
  - destruct n; simpl in *.
    + inversion Hn; subst. eauto.
    + apply IHrepr_list; auto.
Qed.
Lemma repr_list_nth_none h es ts n :
  repr_list h es ts -> nth_error es n = None -> nth_error ts n = None.
Proof.
  intro H. revert n. induction H; intros n Hn.
  - destruct n; reflexivity.
  - destruct n; simpl in *; [discriminate | apply IHrepr_list; auto].
Qed.

Lemma map_snd_label {A} (l : list A) : map snd (map (fun v => (nokey, v)) l) = l.
Proof. induction l; simpl; congruence. Qed.

Lemma repr_list_set_field h es ts f e te :
  repr_list h es ts -> repr h e te -> repr_list h (hset_field f e es) (set_field f te ts).
Proof.
  unfold hset_field, set_field, unlabelled. intro H. revert f.
  induction H; intros f He; destruct f; simpl; try (constructor; auto).
  rewrite !map_snd_label. auto.
Qed.

Lemma hset_field_twice f a b fs : hset_field f a (hset_field f b fs) = hset_field f a fs.
Proof.
  unfold hset_field. revert f. induction fs as [|y fs IH]; destruct f; simpl; auto.
  - rewrite !map_snd_label. reflexivity.
  - f_equal. apply IH.
Qed.
Lemma set_field_twice f a b fs : set_field f a (set_field f b fs) = set_field f a fs.
Proof.
  unfold set_field, unlabelled. revert f. induction fs as [|y fs IH]; destruct f; simpl; auto.
  - rewrite !map_snd_label. reflexivity.
  - f_equal. apply IH.
Qed.

Lemma handles_items_nth its n e : nth_item n its = Some e -> incl (handles e) (handles_items its).
Proof.
  unfold nth_item, handles_items. revert n. induction its as [|[k y] its IH]; destruct n; simpl; intros H; try discriminate.
  - inversion H; subst. apply incl_appl. apply incl_refl.
  - apply incl_appr. eapply IH; eauto.
Qed.

Lemma handles_list_nth fs n e : nth_error fs n = Some e -> incl (handles e) (handles_list fs).
Proof.
  unfold handles_list. revert n. induction fs as [|y fs IH]; destruct n; simpl; intros H; try discriminate.
  - inversion H; subst. apply incl_appl. apply incl_refl.
  - apply incl_appr. eapply IH; eauto.
Qed.

Lemma occ_list_set_field x fs f e old :
  nth_error fs f = Some old ->
  occ x (handles_list (hset_field f e fs)) + occ x (handles old) = occ x (handles_list fs) + occ x (handles e).
Proof.
  unfold hset_field, handles_list. revert f. induction fs as [|y fs IH]; destruct f; simpl; intros H; try discriminate.
  - inversion H; subst. rewrite !map_snd_label. rewrite !occ_app. lia.
  - rewrite !occ_app. specialize (IH f H). lia.
Qed.

Lemma put_item_eq h l c n e :
  get_cell h l = Some c -> put_item h l n e = set_items h l (set_nth n e (citems c)).
Proof. intro Hc. unfold put_item, set_items. rewrite Hc. reflexivity. Qed.

Lemma repr_null_inv h v : repr h v VNull -> v = HNull.
Proof. inversion 1; auto. Qed.

Lemma incl_occ_zero x (a b : list loc) : incl a b -> occ x b = 0 -> occ x a = 0.
Proof. intros I H. apply occ_notIn. apply occ_notIn in H. auto. Qed.

(* ------------------------------------------------------------------ frame consequences *)
Lemma Frame_repr h h' F w t : Frame h h' F -> incl (handles w) F -> repr h w t -> repr h' w t.
Proof. intros Fr I H. apply Fr; auto. Qed.

Lemma Step_frame_repr h Rin G F h' Rout w t :
  Step h Rin (G ++ F) h' Rout -> incl (handles w) (G ++ F) -> repr h w t -> repr h' w t.
Proof. intros S I H. eapply (st_frame _ _ _ _ _ S); eauto. Qed.

(* ------------------------------------------------------------------ more transfer lemmas *)
Lemma repr_items_frame h h' l' es ts :
  (forall l, l <> l' -> same_body h h' l) -> occ l' (handles_heap h) = 0 ->
  repr_items h es ts -> ~ In l' (handles_items es) -> repr_items h' es ts.
Proof. intros. eapply (proj1 (proj2 (repr_frame_all h h' l' H H0))); eauto. Qed.
Lemma repr_opt_frame h h' l' o t :
  (forall l, l <> l' -> same_body h h' l) -> occ l' (handles_heap h) = 0 ->
  repr_opt h o t -> ~ In l' (handles_opt o) -> repr_opt h' o t.
Proof. intros. eapply (proj2 (proj2 (proj2 (repr_frame_all h h' l' H H0)))); eauto. Qed.
Lemma repr_items_ext h h' es ts : (forall l, same_body h h' l) -> repr_items h es ts -> repr_items h' es ts.
Proof. intros. eapply (proj1 (proj2 (repr_ext_all h h' H))); eauto. Qed.
Lemma repr_opt_ext h h' o t : (forall l, same_body h h' l) -> repr_opt h o t -> repr_opt h' o t.
Proof. intros. eapply (proj2 (proj2 (proj2 (repr_ext_all h h' H)))); eauto. Qed.
Lemma repr_list_ext h h' es ts : (forall l, same_body h h' l) -> repr_list h es ts -> repr_list h' es ts.
Proof. intros. eapply (proj1 (proj2 (proj2 (repr_ext_all h h' H)))); eauto. Qed.

Lemma repr_items_nth_rev h es ts n t :
  repr_items h es ts -> nth_item n ts = Some t -> exists e, nth_item n es = Some e /\ repr h e t.
Proof.
  intro H. revert n. induction H; intros n Hn; unfold nth_item in *.
  - destruct n; discriminate.
  - destruct n; simpl in *.
    + inversion Hn; subst. eauto.
    + apply IHrepr_items; auto.
Qed.

Lemma set_nth_set_nth {A} (its : list (key * A)) n a b : set_nth n a (set_nth n b its) = set_nth n a its.
Proof. revert n. induction its as [|[k x] its IH]; destruct n; simpl; auto. rewrite IH. reflexivity. Qed.

Lemma nth_item_set_nth_same {A} (its : list (key * A)) n a old :
  nth_item n its = Some old -> nth_item n (set_nth n a its) = Some a.
Proof. apply nth_item_set_nth. Qed.

Lemma set_items_same_body_others h l its m : l <> m -> same_body h (set_items h l its) m.
Proof. intros N c H. exists c. rewrite get_cell_set_items_neq; auto. Qed.

Lemma repr_ref_inv h l d k its dv :
  repr h (HRef l d) (VSeq k its dv) ->
  exists c, get_cell h l = Some c /\ k = ckind c /\ repr_items h (citems c) its /\ repr_opt h d dv.
Proof. inversion 1; subst. eauto. Qed.

Lemma repr_ref_inv_gen h l d t :
  repr h (HRef l d) t ->
  exists c its dv, t = VSeq (ckind c) its dv /\ get_cell h l = Some c /\ repr_items h (citems c) its /\ repr_opt h d dv.
Proof. inversion 1; subst. eauto 8. Qed.

Lemma handles_opt_incl_ref l d : incl (handles_opt d) (handles (HRef l d)).
Proof. rewrite handles_ref. apply incl_tl. apply incl_refl. Qed.

(* after an operation that had l' in its frame and could not reach it, l' is still uniquely held *)
Lemma still_unique h2 Rin l' G h3 Rout :
  Step h2 Rin (l' :: G) h3 Rout -> Inv h2 (Rin ++ l' :: G) -> cnt_of h2 l' = 1 ->
  cnt_of h3 l' = 1 /\ occ l' (handles_heap h3) = 0 /\ occ l' Rout = 0 /\ occ l' G = 0.
Proof.
  intros S I C.
  assert (U : occ l' Rin = 0 /\ occ l' G = 0 /\ occ l' (handles_heap h2) = 0).
  { specialize (I l'). rewrite C in I. revert I. occ_tac. }
  destruct U as [U1 [U2 U3]].
  assert (Hl : l' < length (cells h2)).
  { destruct (cnt_of_pos_cell h2 l') as [c [Hc _]]; [lia|]. eapply get_cell_lt; eauto. }
  assert (N : ~ In l' (Rout ++ handles_heap h3)).
  { intro Hin. apply (st_nonew _ _ _ _ _ S) in Hin; auto. apply in_app_or in Hin.
    destruct Hin as [Hin|Hin]; apply occ_In in Hin; lia. }
  assert (N1 : occ l' Rout = 0) by (apply occ_notIn; intro; apply N; apply in_or_app; auto).
  assert (N2 : occ l' (handles_heap h3) = 0) by (apply occ_notIn; intro; apply N; apply in_or_app; auto).
  pose proof (st_inv _ _ _ _ _ S l') as I3. revert I3. occ_tac.
Qed.

(* ------------------------------------------------------------------ descending through a uniquely owned cell *)
(* make_mut on the handle to l, take item n out of the (now unique) cell *)
Lemma descend_open h l d c k its dv n e G h1 l' :
  Inv h ((l :: handles_opt d) ++ G) ->
  repr h (HRef l d) (VSeq k its dv) ->
  get_cell h l = Some c ->
  nth_item n (citems c) = Some e ->
  make_mut h l = (h1, l') ->
  let h2 := put_item h1 l' n HNull in
  exists te,
    nth_item n its = Some te /\ k = ckind c /\
    repr h2 e te /\
    repr h2 (HRef l' d) (VSeq k (set_nth n VNull its) dv) /\
    cnt_of h2 l' = 1 /\
    Step h (l :: handles_opt d) G h2 (handles e ++ l' :: handles_opt d) /\
    (l' = l \/ (l' = length (cells h) /\ cnt_of h l > 1)).
Proof.
  intros I Hr Hc Hn MM h2.
  destruct (repr_ref_inv _ _ _ _ _ _ Hr) as [c0 [Hc0 [Hk [Hits Hd]]]].
  rewrite Hc in Hc0. inversion Hc0; subst c0. clear Hc0.
  destruct (repr_items_nth _ _ _ _ _ Hits Hn) as [te [Hte Hre]].
  destruct (make_mut_step h (handles_opt d) G l h1 l' I MM) as [S1 [B1 [[c' [c1 [Hc' [Hc1 [K1 [I1 C1]]]]]] Hl']]].
  rewrite Hc in Hc'. inversion Hc'; subst c'. clear Hc'.
  assert (Inv1 : Inv h1 ((l' :: handles_opt d) ++ G)) by apply S1.
  destruct (owned_unique _ _ _ _ _ Inv1 Hc1 C1) as [U1 [U2 U3]].
  assert (Hn1 : nth_item n (citems c1) = Some e) by (rewrite I1; auto).
  assert (E2 : h2 = set_items h1 l' (set_nth n HNull (citems c1))) by (apply put_item_eq; auto).
  assert (S2 : Step h1 (l' :: handles_opt d) G h2 (l' :: handles e ++ handles_opt d)).
  { rewrite E2. eapply set_items_step; eauto. intro x.
    pose proof (occ_items_set_nth x (citems c1) n HNull e Hn1). rewrite handles_null in H. revert H. occ_tac. }
  assert (SBo : forall m, m <> l' -> same_body h1 h2 m).
  { intros m Hm. rewrite E2. apply set_items_same_body_others. auto. }
  assert (Nl'e : ~ In l' (handles_items (citems c1))).
  { intro Hin. apply occ_notIn in U3. apply U3. eapply In_handles_heap; eauto. }
  exists te. split; [auto|]. split; [auto|]. split; [|split; [|split; [|split]]].
  - apply repr_frame with (h := h1) (l' := l'); auto.
    + eapply repr_ext; eauto.
    + intro Hin. apply Nl'e. eapply handles_items_nth; eauto.
  - assert (Hc2 : get_cell h2 l' = Some (mkcell (cnt c1) (ckind c1) (set_nth n HNull (citems c1)))).
    { rewrite E2. apply get_cell_set_items_eq. auto. }
    rewrite Hk, <- K1.
    change (ckind c1) with (ckind (mkcell (cnt c1) (ckind c1) (set_nth n HNull (citems c1)))).
    apply R_ref; auto.
    + simpl. apply repr_items_set_nth; [|constructor].
      apply repr_items_frame with (h := h1) (l' := l'); auto.
      rewrite I1. eapply repr_items_ext; eauto.
    + apply repr_opt_frame with (h := h1) (l' := l'); auto.
      * eapply repr_opt_ext; eauto.
      * apply occ_notIn. auto.
  - rewrite E2. rewrite cnt_of_set_items. unfold cnt_of. rewrite Hc1. auto.
  - eapply Step_equiv; [| |eapply Step_trans; [exact S1 | exact S2]].
    + intro; tauto.
    + occ_tac.
  - exact Hl'.
Qed.

(* put the (possibly replaced) item back *)
Lemma descend_close h2 Rin l' d G h3 Rout k its0 dv n e' te' :
  Step h2 Rin (l' :: handles_opt d ++ G) h3 (handles e' ++ Rout) ->
  Inv h2 (Rin ++ l' :: handles_opt d ++ G) -> cnt_of h2 l' = 1 ->
  repr h2 (HRef l' d) (VSeq k its0 dv) ->
  nth_item n its0 = Some VNull ->
  repr h3 e' te' ->
  let h4 := put_item h3 l' n e' in
  repr h4 (HRef l' d) (VSeq k (set_nth n te' its0) dv) /\
  Step h3 (l' :: handles_opt d ++ handles e' ++ Rout) G h4 (l' :: handles_opt d ++ Rout) /\
  (forall w t, incl (handles w) (Rout ++ G) -> repr h3 w t -> repr h4 w t).
Proof.
  intros S I2 C2 Hr2 Hn0 Hre' h4.
  destruct (still_unique _ _ _ _ _ _ S I2 C2) as [C3 [U3 [U4 U5]]].
  assert (Hr3 : repr h3 (HRef l' d) (VSeq k its0 dv)).
  { eapply (st_frame _ _ _ _ _ S); eauto. rewrite handles_ref. intros x Hx. simpl in Hx.
    destruct Hx; [left; auto | right; apply in_or_app; auto]. }
  destruct (repr_ref_inv _ _ _ _ _ _ Hr3) as [c3 [Hc3 [Hk [Hits Hd]]]].
  assert (Cc3 : cnt c3 = 1) by (unfold cnt_of in C3; rewrite Hc3 in C3; auto).
  destruct (repr_items_nth_rev _ _ _ _ _ Hits Hn0) as [e0 [He0 Hre0]].
  apply repr_null_inv in Hre0. subst e0.
  assert (E4 : h4 = set_items h3 l' (set_nth n e' (citems c3))) by (apply put_item_eq; auto).
  assert (I3 : Inv h3 ((l' :: handles_opt d ++ handles e' ++ Rout) ++ G)).
  { eapply Inv_equiv; [|apply (st_inv _ _ _ _ _ S)]. occ_tac. }
  assert (S4 : Step h3 (l' :: handles_opt d ++ handles e' ++ Rout) G h4 (l' :: handles_opt d ++ Rout)).
  { rewrite E4. eapply set_items_step; eauto. intro x.
    pose proof (occ_items_set_nth x (citems c3) n e' HNull He0). rewrite handles_null in H. revert H. occ_tac. }
  assert (SBo : forall m, m <> l' -> same_body h3 h4 m).
  { intros m Hm. rewrite E4. apply set_items_same_body_others. auto. }
  assert (Ue' : occ l' (handles e') = 0 /\ occ l' Rout = 0) by (apply occ_zero_app; auto).
  destruct Ue' as [Ue' URout].
  assert (Ud : occ l' (handles_opt d) = 0) by (apply occ_zero_app in U5; tauto).
  assert (UG : occ l' G = 0) by (apply occ_zero_app in U5; tauto).
  split; [|split].
  - assert (Hc4 : get_cell h4 l' = Some (mkcell (cnt c3) (ckind c3) (set_nth n e' (citems c3)))).
    { rewrite E4. apply get_cell_set_items_eq. auto. }
    rewrite Hk.
    change (ckind c3) with (ckind (mkcell (cnt c3) (ckind c3) (set_nth n e' (citems c3)))).
    apply R_ref; auto.
    + simpl. apply repr_items_set_nth.
      * apply repr_items_frame with (h := h3) (l' := l'); auto.
        intro Hin. apply occ_notIn in U3. apply U3. eapply In_handles_heap; eauto.
      * apply repr_frame with (h := h3) (l' := l'); auto. apply occ_notIn; auto.
    + apply repr_opt_frame with (h := h3) (l' := l'); auto. apply occ_notIn; auto.
  - exact S4.
  - intros w t Iw Hw. apply repr_frame with (h := h3) (l' := l'); auto.
    intro Hin. apply Iw in Hin. apply in_app_or in Hin. destruct Hin as [Hin|Hin]; apply occ_In in Hin; lia.
Qed.

(* ------------------------------------------------------------------ small steps used by set_index *)
Lemma handles_new_or_null new : handles (new_or_null new) = handles_opt new.
Proof. destruct new; simpl; auto. Qed.

Lemma repr_new_or_null h new tnew :
  repr_opt h new tnew -> repr h (new_or_null new) (match tnew with Some w => w | None => VNull end).
Proof. inversion 1; subst; simpl; auto. constructor. Qed.

Lemma in_occ_equiv (a b : list loc) : (forall l, occ l a = occ l b) -> forall l, In l a <-> In l b.
Proof. intros E l. rewrite !occ_In. rewrite E. tauto. Qed.

Lemma drop_locs_keep h ws R F :
  Inv h ((ws ++ R) ++ F) ->
  Step h (ws ++ R) F (drop_locs h ws) R /\
  (forall w t, incl (handles w) (R ++ F) -> repr h w t -> repr (drop_locs h ws) w t) /\
  length (cells (drop_locs h ws)) = length (cells h).
Proof.
  intro I. destruct (drop_locs_step h ws [] (R ++ F)) as [S L].
  { eapply Inv_equiv; [|exact I]. occ_tac. }
  split; [|split; auto].
  - apply drop_locs_step; auto.
  - intros w t Iw Hw. eapply (st_frame _ _ _ _ _ S); eauto.
Qed.

Lemma drop_val_keep h v R F :
  Inv h ((handles v ++ R) ++ F) ->
  Step h (handles v ++ R) F (drop_val h v) R /\
  (forall w t, incl (handles w) (R ++ F) -> repr h w t -> repr (drop_val h v) w t).
Proof. intro I. destruct (drop_locs_keep h (handles v) R F I) as [S [K _]]. auto. Qed.

Lemma drop_opt_keep h o R F :
  Inv h ((handles_opt o ++ R) ++ F) ->
  Step h (handles_opt o ++ R) F (drop_opt h o) R /\
  (forall w t, incl (handles w) (R ++ F) -> repr h w t -> repr (drop_opt h o) w t).
Proof. intro I. destruct (drop_locs_keep h (handles_opt o) R F I) as [S [K _]]. auto. Qed.

(* a failing set_index: the value is dropped, the slot is what it was *)
Lemma set_fail h cur t new G :
  Inv h ((handles cur ++ handles_opt new) ++ G) -> repr h cur t ->
  repr (drop_opt h new) cur t /\ Step h (handles cur ++ handles_opt new) G (drop_opt h new) (handles cur).
Proof.
  intros I Hr.
  destruct (drop_opt_keep h new (handles cur) G) as [S K].
  { eapply Inv_equiv; [|exact I]. occ_tac. }
  split.
  - apply K; auto. apply incl_appl. apply incl_refl.
  - eapply Step_equiv; [| |exact S]; [|reflexivity]. apply in_occ_equiv. occ_tac.
Qed.

Lemma make_mut_repr h R F l d t h1 l' :
  Inv h ((l :: R) ++ F) -> repr h (HRef l d) t -> make_mut h l = (h1, l') -> repr h1 (HRef l' d) t.
Proof.
  intros I Hr MM.
  destruct (make_mut_step h R F l h1 l' I MM) as [S1 [B1 [[c [c1 [Hc [Hc1 [K1 [I1 C1]]]]]] _]]].
  inversion Hr; subst. rewrite Hc in H1. inversion H1; subst c0. rewrite <- K1.
  apply R_ref; auto.
  - rewrite I1. eapply repr_items_ext; eauto.
  - eapply repr_opt_ext; eauto.
Qed.

Lemma set_fail_mm h l d t new G h1 l' :
  Inv h ((handles (HRef l d) ++ handles_opt new) ++ G) -> repr h (HRef l d) t -> make_mut h l = (h1, l') ->
  repr (drop_opt h1 new) (HRef l' d) t /\
  Step h (handles (HRef l d) ++ handles_opt new) G (drop_opt h1 new) (handles (HRef l' d)).
Proof.
  intros I Hr MM. rewrite !handles_ref in *.
  assert (I' : Inv h ((l :: handles_opt d ++ handles_opt new) ++ G)) by (eapply Inv_equiv; [|exact I]; occ_tac).
  destruct (make_mut_step h _ G l h1 l' I' MM) as [S1 _].
  pose proof (make_mut_repr _ _ _ _ _ _ _ _ I' Hr MM) as Hr1.
  assert (I1 : Inv h1 ((handles (HRef l' d) ++ handles_opt new) ++ G)).
  { rewrite handles_ref. eapply Inv_equiv; [|apply S1]. occ_tac. }
  destruct (set_fail h1 (HRef l' d) t new G I1 Hr1) as [Hr2 S2]. rewrite handles_ref in S2.
  split; auto. eapply Step_trans; [|exact S2].
  eapply Step_equiv; [| |exact S1]. apply in_occ_equiv; occ_tac. occ_tac.
Qed.

Definition is_slice (pe : pelem) : bool := match pe with PSl _ _ => true | _ => false end.
Definition noslice (p : path) : bool := forallb (fun pe => negb (is_slice pe)) p.

(* ------------------------------------------------------------------ writing into a uniquely owned cell *)
Lemma inplace_update h l c A A' its' F :
  Inv h ((l :: A) ++ F) -> get_cell h l = Some c -> cnt c = 1 ->
  (forall x, occ x A + occ x (handles_items (citems c)) = occ x A' + occ x (handles_items its')) ->
  let h2 := set_items h l its' in
  Step h (l :: A) F h2 (l :: A') /\
  get_cell h2 l = Some (mkcell 1 (ckind c) its') /\
  (forall w t, ~ In l (handles w) -> repr h w t -> repr h2 w t) /\
  (forall es ts, ~ In l (handles_items es) -> repr_items h es ts -> repr_items h2 es ts) /\
  (forall o t, ~ In l (handles_opt o) -> repr_opt h o t -> repr_opt h2 o t) /\
  ~ In l (handles_items (citems c)) /\ occ l A = 0 /\ occ l F = 0.
Proof.
  intros I Hc C1 EX h2.
  destruct (owned_unique _ _ _ _ _ I Hc C1) as [U1 [U2 U3]].
  assert (SBo : forall m, m <> l -> same_body h h2 m) by (intros; apply set_items_same_body_others; auto).
  split; [eapply set_items_step; eauto|].
  split; [unfold h2; rewrite (get_cell_set_items_eq _ _ _ _ Hc), C1; reflexivity|].
  split; [intros; eapply repr_frame; eauto|].
  split; [intros; eapply repr_items_frame; eauto|].
  split; [intros; eapply repr_opt_frame; eauto|].
  split; [|auto].
  intro Hin. apply occ_notIn in U3. apply U3. eapply In_handles_heap; eauto.
Qed.

Lemma make_mut_facts h R F l d t h1 l' :
  Inv h ((l :: R) ++ F) -> repr h (HRef l d) t -> make_mut h l = (h1, l') ->
  exists c c1, get_cell h l = Some c /\ get_cell h1 l' = Some c1 /\ ckind c1 = ckind c /\ citems c1 = citems c /\
    cnt c1 = 1 /\ Inv h1 ((l' :: R) ++ F) /\ Step h (l :: R) F h1 (l' :: R) /\
    repr h1 (HRef l' d) t /\ (forall m, same_body h h1 m).
Proof.
  intros I Hr MM.
  destruct (make_mut_step h R F l h1 l' I MM) as [S1 [B1 [[c [c1 [Hc [Hc1 [K1 [I1 C1]]]]]] _]]].
  exists c, c1. split; [auto|]. split; [auto|]. split; [auto|]. split; [auto|]. split; [auto|].
  split; [apply S1|]. split; [auto|]. split; [eapply make_mut_repr; eauto | auto].
Qed.

Lemma handles_items_single k v : handles_items [(k, v)] = handles v.
Proof. unfold handles_items. simpl. apply app_nil_r. Qed.

(* make_mut, overwrite item n with the owned value v, drop what was there *)
Lemma replace_item_ok h l d c its dv n old v tv G h1 l' :
  Inv h ((l :: handles_opt d ++ handles v) ++ G) ->
  repr h (HRef l d) (VSeq (ckind c) its dv) -> repr h v tv ->
  get_cell h l = Some c -> nth_item n (citems c) = Some old -> make_mut h l = (h1, l') ->
  let h3 := drop_val (put_item h1 l' n v) old in
  repr h3 (HRef l' d) (VSeq (ckind c) (set_nth n tv its) dv) /\
  Step h (l :: handles_opt d ++ handles v) G h3 (l' :: handles_opt d).
Proof.
  intros I Hr Hv Hc Hn MM h3.
  destruct (make_mut_facts h _ G l d _ h1 l' I Hr MM) as [c0 [c1 [Hc0 [Hc1 [K1 [I1 [C1 [Inv1 [S1 [Hr1 B1]]]]]]]]]].
  rewrite Hc in Hc0. inversion Hc0; subst c0. clear Hc0.
  assert (Hn1 : nth_item n (citems c1) = Some old) by (rewrite I1; auto).
  assert (E2 : put_item h1 l' n v = set_items h1 l' (set_nth n v (citems c1))) by (apply put_item_eq; auto).
  destruct (inplace_update h1 l' c1 (handles_opt d ++ handles v) (handles old ++ handles_opt d)
              (set_nth n v (citems c1)) G Inv1 Hc1 C1) as [S2 [Hc2 [T1 [T2 [T3 [N1 [U1 U2]]]]]]].
  { intro x. pose proof (occ_items_set_nth x (citems c1) n v old Hn1). revert H. occ_tac. }
  rewrite <- E2 in *. set (h2 := put_item h1 l' n v) in *.
  destruct (repr_ref_inv _ _ _ _ _ _ Hr1) as [c1' [Hc1' [_ [Hits1 Hd1]]]].
  rewrite Hc1 in Hc1'. inversion Hc1'; subst c1'. clear Hc1'.
  apply occ_zero_app in U1. destruct U1 as [Ud Uv].
  assert (Hr2 : repr h2 (HRef l' d) (VSeq (ckind c) (set_nth n tv its) dv)).
  { rewrite <- K1. change (ckind c1) with (ckind (mkcell 1 (ckind c1) (set_nth n v (citems c1)))).
    apply R_ref; auto.
    - simpl. apply repr_items_set_nth.
      + apply T2; auto.
      + apply T1; [apply occ_notIn; auto|]. eapply repr_ext; eauto.
    - apply T3; auto. apply occ_notIn; auto. }
  assert (I2 : Inv h2 ((handles old ++ l' :: handles_opt d) ++ G)).
  { eapply Inv_equiv; [|apply S2]. occ_tac. }
  destruct (drop_val_keep h2 old (l' :: handles_opt d) G I2) as [S3 K3].
  split.
  - apply K3; auto. rewrite handles_ref. apply incl_appl, incl_refl.
  - eapply Step_trans; [exact S1|]. eapply Step_trans; [exact S2|].
    eapply Step_equiv; [| |exact S3]. apply in_occ_equiv; occ_tac. occ_tac.
Qed.

(* make_mut, add an item with the owned value v at the end *)
Lemma add_item_ok h l d c its dv k v tv G h1 l' :
  Inv h ((l :: handles_opt d ++ handles v) ++ G) ->
  repr h (HRef l d) (VSeq (ckind c) its dv) -> repr h v tv ->
  get_cell h l = Some c -> make_mut h l = (h1, l') ->
  let h2 := set_items h1 l' (citems c ++ [(k, v)]) in
  repr h2 (HRef l' d) (VSeq (ckind c) (its ++ [(k, tv)]) dv) /\
  Step h (l :: handles_opt d ++ handles v) G h2 (l' :: handles_opt d).
Proof.
  intros I Hr Hv Hc MM h2.
  destruct (make_mut_facts h _ G l d _ h1 l' I Hr MM) as [c0 [c1 [Hc0 [Hc1 [K1 [I1 [C1 [Inv1 [S1 [Hr1 B1]]]]]]]]]].
  rewrite Hc in Hc0. inversion Hc0; subst c0. clear Hc0.
  destruct (inplace_update h1 l' c1 (handles_opt d ++ handles v) (handles_opt d)
              (citems c ++ [(k, v)]) G Inv1 Hc1 C1) as [S2 [Hc2 [T1 [T2 [T3 [N1 [U1 U2]]]]]]].
  { intro x. rewrite I1, handles_items_app, handles_items_single. occ_tac. }
  fold h2 in S2, Hc2, T1, T2, T3.
  destruct (repr_ref_inv _ _ _ _ _ _ Hr1) as [c1' [Hc1' [_ [Hits1 Hd1]]]].
  rewrite Hc1 in Hc1'. inversion Hc1'; subst c1'. clear Hc1'.
  apply occ_zero_app in U1. destruct U1 as [Ud Uv].
  split.
  - rewrite <- K1. change (ckind c1) with (ckind (mkcell 1 (ckind c1) (citems c ++ [(k, v)]))).
    apply R_ref; auto.
    + simpl. apply repr_items_app.
      * rewrite <- I1. apply T2; auto.
      * constructor; [|constructor]. apply T1; [apply occ_notIn; auto|]. eapply repr_ext; eauto.
    + apply T3; auto. apply occ_notIn; auto.
  - eapply Step_trans; [exact S1|]. exact S2.
Qed.

(* ------------------------------------------------------------------ the recursive step of set_index *)
Definition set_spec (every : bool) (rest : path) : Prop :=
  forall new tnew h cur t G h' cur' ok,
  Inv h ((handles cur ++ handles_opt new) ++ G) -> repr h cur t -> repr_opt h new tnew ->
  m_set every rest new h cur = (h', cur', ok) ->
  exists t', v_set every rest tnew t = (t', ok) /\ repr h' cur' t' /\
             Step h (handles cur ++ handles_opt new) G h' (handles cur').

Lemma repr_opt_frame_step h Rin G F h' Rout o t :
  Step h Rin (G ++ F) h' Rout -> incl (handles_opt o) (G ++ F) -> repr_opt h o t -> repr_opt h' o t.
Proof.
  intros S I H. inversion H; subst; constructor. eapply Step_frame_repr; eauto.
Qed.

Lemma set_descend every rest : set_spec every rest ->
  forall new tnew h l d c its dv n e G h1 l' h3 e' ok,
  Inv h ((handles (HRef l d) ++ handles_opt new) ++ G) ->
  repr h (HRef l d) (VSeq (ckind c) its dv) -> repr_opt h new tnew ->
  get_cell h l = Some c -> nth_item n (citems c) = Some e -> make_mut h l = (h1, l') ->
  m_set every rest new (put_item h1 l' n HNull) e = (h3, e', ok) ->
  exists te te', nth_item n its = Some te /\ v_set every rest tnew te = (te', ok) /\
    repr (put_item h3 l' n e') (HRef l' d) (VSeq (ckind c) (set_nth n te' its) dv) /\
    Step h (handles (HRef l d) ++ handles_opt new) G (put_item h3 l' n e') (handles (HRef l' d)).
Proof.
  intros IHrest new tnew h l d c its dv n e G h1 l' h3 e' ok I Hr Hn Hc Hne MM ER.
  rewrite !handles_ref in *.
  assert (I0 : Inv h ((l :: handles_opt d) ++ handles_opt new ++ G)).
  { eapply Inv_equiv; [|exact I]. occ_tac. }
  destruct (descend_open h l d c (ckind c) its dv n e (handles_opt new ++ G) h1 l' I0 Hr Hc Hne MM)
    as [te [Hte [_ [Hre [Hr2 [C2 [Sopen _]]]]]]].
  set (h2 := put_item h1 l' n HNull) in *.
  assert (Hn2 : repr_opt h2 new tnew).
  { eapply repr_opt_frame_step; eauto. apply incl_appl, incl_refl. }
  assert (I2 : Inv h2 ((handles e ++ handles_opt new) ++ l' :: handles_opt d ++ G)).
  { eapply Inv_equiv; [|apply (st_inv _ _ _ _ _ Sopen)]. occ_tac. }
  destruct (IHrest new tnew h2 e te (l' :: handles_opt d ++ G) h3 e' ok I2 Hre Hn2 ER) as [te' [Ev [Hre' Srec]]].
  assert (Srec' : Step h2 (handles e ++ handles_opt new) (l' :: handles_opt d ++ G) h3 (handles e' ++ [])).
  { rewrite app_nil_r. exact Srec. }
  assert (Hn0 : nth_item n (set_nth n VNull its) = Some VNull) by (eapply nth_item_set_nth; eauto).
  destruct (descend_close h2 _ l' d G h3 [] (ckind c) (set_nth n VNull its) dv n e' te' Srec' I2 C2 Hr2 Hn0 Hre')
    as [Hr4 [Sclose _]].
  rewrite set_nth_set_nth in Hr4. rewrite !app_nil_r in Sclose.
  exists te, te'. split; [auto|]. split; [auto|]. split; [exact Hr4|].
  apply Step_frame in Sopen.
  assert (Srec2 : Step h2 (handles e ++ handles_opt new) ((l' :: handles_opt d) ++ G) h3 (handles e')) by exact Srec.
  apply Step_frame in Srec2.
  eapply Step_trans; [|eapply Step_trans; [|exact Sclose]].
  - eapply Step_equiv; [| |exact Sopen]; [intro; tauto|]. intro x. reflexivity.
  - eapply Step_equiv; [| |exact Srec2].
    + apply in_occ_equiv. occ_tac.
    + occ_tac.
Qed.

(* ------------------------------------------------------------------ element writes into vectors, bytes, strings *)
Lemma norm_index_lt len z n : norm_index len z = Some n -> n < len.
Proof.
  unfold norm_index. destruct ((0 <=? z)%Z && (z <? Z.of_nat len)%Z) eqn:E1.
  - intro H; inversion H; subst. apply andb_prop in E1. destruct E1 as [A B].
    apply Z.leb_le in A. apply Z.ltb_lt in B. lia.
  - destruct ((z <? 0)%Z && (0 <=? z + Z.of_nat len)%Z) eqn:E2; [|discriminate].
    intro H; inversion H; subst. apply andb_prop in E2. destruct E2 as [A B].
    apply Z.ltb_lt in A. apply Z.leb_le in B. lia.
Qed.

Lemma leaf_index_lt pe len n : leaf_index pe len = Some n -> n < len.
Proof. destruct pe; simpl; try discriminate. apply norm_index_lt. Qed.

Lemma nth_item_lt {A} (its : list (key * A)) n : n < length its -> exists a, nth_item n its = Some a.
Proof.
  unfold nth_item. intro H. destruct (nth_error its n) as [[k a]|] eqn:E; eauto.
  apply nth_error_None in E. lia.
Qed.

Lemma set_noop h cur new G :
  handles_opt new = [] -> Inv h ((handles cur ++ handles_opt new) ++ G) ->
  Step h (handles cur ++ handles_opt new) G h (handles cur).
Proof. intros E I. rewrite E in *. rewrite app_nil_r in *. apply Step_refl; auto. Qed.

Lemma set_leaf_num_ok (g : Z -> bool) h l d c its dv pe new tnew G h' cur' ok :
  Inv h ((handles (HRef l d) ++ handles_opt new) ++ G) ->
  repr h (HRef l d) (VSeq (ckind c) its dv) -> repr_opt h new tnew -> get_cell h l = Some c ->
  match new with
  | Some (HInt n) =>
    match leaf_index pe (length (citems c)) with
    | Some i =>
      match nth_item i (citems c) with
      | Some old => if g n then let '(h1, l') := make_mut h l in (drop_val (put_item h1 l' i (HInt n)) old, HRef l' d, true)
                    else (h, HRef l d, false)
      | None => (h, HRef l d, false)
      end
    | None => (h, HRef l d, false)
    end
  | Some w => (drop_val h w, HRef l d, false)
  | None => (h, HRef l d, true)
  end = (h', cur', ok) ->
  exists t',
    match tnew with
    | Some (VInt n) => match leaf_index pe (length its) with
                       | Some i => if g n then (VSeq (ckind c) (set_nth i (VInt n) its) dv, true)
                                   else (VSeq (ckind c) its dv, false)
                       | None => (VSeq (ckind c) its dv, false)
                       end
    | Some _ => (VSeq (ckind c) its dv, false)
    | None => (VSeq (ckind c) its dv, true)
    end = (t', ok) /\ repr h' cur' t' /\
    Step h (handles (HRef l d) ++ handles_opt new) G h' (handles cur').
Proof.
  intros I Hr Hn Hc E.
  destruct (repr_ref_inv _ _ _ _ _ _ Hr) as [c0 [Hc0 [_ [Hits Hd]]]].
  rewrite Hc in Hc0. inversion Hc0; subst c0. clear Hc0.
  pose proof (repr_items_length _ _ _ Hits) as Hlen.
  inversion Hn as [|w tw Hw]; subst.
  - (* drop_lhs: nothing to do *)
    inversion E; subst. eexists; split; [reflexivity|]. split; auto. apply set_noop; auto.
  - destruct w as [|n| |]; inversion Hw; subst;
      try (inversion E; subst; destruct (set_fail h (HRef l d) _ (Some _) G I Hr); eauto; fail).
    rewrite <- Hlen.
    destruct (leaf_index pe (length (citems c))) as [i|] eqn:LI.
    2: { inversion E; subst. eexists; split; [reflexivity|]. split; auto. apply set_noop; auto. }
    destruct (nth_item_lt (citems c) i (leaf_index_lt _ _ _ LI)) as [old Ho]. rewrite Ho in E.
    destruct (g n).
    2: { inversion E; subst. eexists; split; [reflexivity|]. split; auto. apply set_noop; auto. }
    destruct (make_mut h l) as [h1 l'] eqn:MM. inversion E; subst; clear E.
    assert (I' : Inv h ((l :: handles_opt d ++ handles (HInt n)) ++ G)).
    { rewrite handles_int. rewrite handles_ref in I. simpl in I. eapply Inv_equiv; [|exact I]. occ_tac. }
    destruct (replace_item_ok h l d c its dv i old (HInt n) (VInt n) G h1 l' I' Hr Hw Hc Ho MM) as [Hr3 S3].
    eexists; split; [reflexivity|]. split; [exact Hr3|].
    rewrite !handles_ref. rewrite handles_int in S3. simpl.
    eapply Step_equiv; [| |exact S3]. apply in_occ_equiv; occ_tac. occ_tac.
Qed.

Lemma hstr_repr h w tw :
  repr h w tw ->
  (is_hstr h w = false -> str1 tw = None) /\
  match hstr1 h w with
  | Some b => is_hstr h w = true /\ exists z, b = HInt z /\ str1 tw = Some (VInt z)
  | None => str1 tw = None
  end.
Proof.
  intro Hr. destruct w as [|z|l0 d0|sid fs]; inversion Hr; subst; simpl; auto.
  match goal with H : get_cell _ _ = Some _ |- _ => rewrite H end.
  match goal with H : repr_items _ (citems _) _ |- _ => rename H into Hits end.
  destruct (ckind c) eqn:K; simpl; auto.
  split; [discriminate|].
  destruct (citems c) as [|[k e] tl]; inversion Hits; subst; [reflexivity|].
  match goal with H : repr h e _ |- _ => rename H into He end.
  match goal with H : repr_items h tl _ |- _ => rename H into Htl end.
  destruct e; inversion He; subst; destruct tl; inversion Htl; subst; simpl; eauto.
Qed.

Lemma set_leaf_str_ok h l d c its dv pe new tnew G h' cur' ok :
  Inv h ((handles (HRef l d) ++ handles_opt new) ++ G) ->
  repr h (HRef l d) (VSeq (ckind c) its dv) -> repr_opt h new tnew -> get_cell h l = Some c ->
  match new with
  | Some w =>
    if is_hstr h w then
      let '(h1, l') := make_mut h l in
      match hstr1 h w with
      | Some b =>
        match leaf_index pe (length (citems c)) with
        | Some n =>
          match nth_item n (citems c) with
          | Some old => (drop_val (drop_val (put_item h1 l' n b) old) w, HRef l' d, true)
          | None => (drop_val h1 w, HRef l' d, false)
          end
        | None => (drop_val h1 w, HRef l' d, false)
        end
      | None => (drop_val h1 w, HRef l' d, false)
      end
    else (drop_val h w, HRef l d, false)
  | None => (h, HRef l d, true)
  end = (h', cur', ok) ->
  exists t',
    match tnew with
    | Some w =>
      match str1 w with
      | Some b => match leaf_index pe (length its) with
                  | Some n => (VSeq (ckind c) (set_nth n b its) dv, true)
                  | None => (VSeq (ckind c) its dv, false)
                  end
      | None => (VSeq (ckind c) its dv, false)
      end
    | None => (VSeq (ckind c) its dv, true)
    end = (t', ok) /\ repr h' cur' t' /\
    Step h (handles (HRef l d) ++ handles_opt new) G h' (handles cur').
Proof.
  intros I Hr Hn Hc E.
  destruct (repr_ref_inv _ _ _ _ _ _ Hr) as [c0 [Hc0 [_ [Hits Hd]]]].
  rewrite Hc in Hc0. inversion Hc0; subst c0. clear Hc0.
  pose proof (repr_items_length _ _ _ Hits) as Hlen.
  inversion Hn as [|w tw Hw]; subst.
  - inversion E; subst. eexists; split; [reflexivity|]. split; auto. apply set_noop; auto.
  - destruct (hstr_repr h w tw Hw) as [HS1 HS2].
    destruct (is_hstr h w) eqn:IS.
    2: { inversion E; subst. rewrite (HS1 eq_refl). destruct (set_fail h (HRef l d) _ (Some w) G I Hr); eauto. }
    destruct (make_mut h l) as [h1 l'] eqn:MM.
    assert (FMM : (h', cur', ok) = (drop_val h1 w, HRef l' d, false) ->
                  exists t', (VSeq (ckind c) its dv, false) = (t', ok) /\ repr h' cur' t' /\
                             Step h (handles (HRef l d) ++ handles_opt (Some w)) G h' (handles cur')).
    { intro E1. inversion E1; subst. destruct (set_fail_mm h l d _ (Some w) G h1 l' I Hr MM); eauto. }
    destruct (hstr1 h w) as [b|] eqn:H1.
    2: { rewrite HS2. apply FMM. auto. }
    destruct HS2 as [_ [z [Eb Es]]]. subst b. rewrite Es. rewrite <- Hlen.
    destruct (leaf_index pe (length (citems c))) as [n|] eqn:LI; [|apply FMM; auto].
    destruct (nth_item_lt (citems c) n (leaf_index_lt _ _ _ LI)) as [old Ho]. rewrite Ho in E.
    inversion E; subst; clear E. clear FMM.
    simpl handles_opt in *.
    assert (I' : Inv h ((l :: handles_opt d ++ handles (HInt z)) ++ handles w ++ G)).
    { rewrite handles_int. rewrite handles_ref in I. eapply Inv_equiv; [|exact I]. occ_tac. }
    assert (Hz : repr h (HInt z) (VInt z)) by constructor.
    destruct (replace_item_ok h l d c its dv n old (HInt z) (VInt z) (handles w ++ G) h1 l' I' Hr Hz Hc Ho MM) as [Hr3 S3].
    set (h3 := drop_val (put_item h1 l' n (HInt z)) old) in *.
    rewrite handles_int in S3.
    assert (I3 : Inv h3 ((handles w ++ l' :: handles_opt d) ++ G)).
    { eapply Inv_equiv; [|apply S3]. occ_tac. }
    destruct (drop_val_keep h3 w (l' :: handles_opt d) G I3) as [S4 K4].
    eexists; split; [reflexivity|]. split.
    + apply K4; auto. rewrite handles_ref. apply incl_appl, incl_refl.
    + rewrite !handles_ref. apply Step_frame in S3.
      eapply Step_trans; [|exact S4].
      eapply Step_equiv; [| |exact S3]. apply in_occ_equiv; occ_tac. occ_tac.
Qed.

(* ------------------------------------------------------------------ set_index refines v_set *)
Lemma m_set_ok every p : noslice p = true -> forall new tnew h cur t G h' cur' ok,
  Inv h ((handles cur ++ handles_opt new) ++ G) -> repr h cur t -> repr_opt h new tnew ->
  m_set every p new h cur = (h', cur', ok) ->
  exists t', v_set every p tnew t = (t', ok) /\ repr h' cur' t' /\
             Step h (handles cur ++ handles_opt new) G h' (handles cur').
Proof.
  induction p as [|pe rest IH]; intros NS new tnew h cur t G h' cur' ok I Hr Hn E.
  - (* the slot itself *)
    simpl in E. unfold m_set_here in E. inversion E; subst; clear E. simpl.
    destruct (drop_val_keep h cur (handles_opt new) G I) as [S K].
    eexists; split; [reflexivity|]. split.
    + apply K. rewrite handles_new_or_null. apply incl_appl, incl_refl.
      apply repr_new_or_null; auto.
    + rewrite handles_new_or_null. exact S.
  - simpl in NS. apply andb_prop in NS. destruct NS as [NS1 NS2].
    specialize (IH NS2).
    destruct cur as [| z | l d | sid fields].
    + (* null *) simpl in E. inversion E; subst; clear E. inversion Hr; subst. simpl.
      destruct (set_fail h HNull VNull new G I Hr). eauto.
    + simpl in E. inversion E; subst; clear E. inversion Hr; subst. simpl.
      destruct (set_fail h (HInt z) (VInt z) new G I Hr). eauto.
    + (* a handle to a payload *)
      destruct (repr_ref_inv_gen _ _ _ _ Hr) as [c [its [dv [Ht [Hc [Hits Hd]]]]]]. subst t.
      pose proof (repr_items_length _ _ _ Hits) as Hlen.
      assert (FAILMM : forall h1 l', make_mut h l = (h1, l') ->
                (h', cur', ok) = (drop_opt h1 new, HRef l' d, false) ->
                v_set every (pe :: rest) tnew (VSeq (ckind c) its dv) = (VSeq (ckind c) its dv, false) ->
                exists t', v_set every (pe :: rest) tnew (VSeq (ckind c) its dv) = (t', ok) /\ repr h' cur' t' /\
                           Step h (handles (HRef l d) ++ handles_opt new) G h' (handles cur')).
      { intros h1 l' MM E1 E2. inversion E1; subst; clear E1.
        destruct (set_fail_mm h l d _ new G h1 l' I Hr MM). eauto. }
      assert (FAIL : (h', cur', ok) = (drop_opt h new, HRef l d, false) ->
                v_set every (pe :: rest) tnew (VSeq (ckind c) its dv) = (VSeq (ckind c) its dv, false) ->
                exists t', v_set every (pe :: rest) tnew (VSeq (ckind c) its dv) = (t', ok) /\ repr h' cur' t' /\
                           Step h (handles (HRef l d) ++ handles_opt new) G h' (handles cur')).
      { intros E1 E2. inversion E1; subst; clear E1.
        destruct (set_fail h (HRef l d) _ new G I Hr). eauto. }
      simpl in E. rewrite Hc in E.
      destruct (ckind c) eqn:K.
      * (* list *)
        destruct pe as [z | bs | sid' f | lo hi]; [| | |simpl in NS1; discriminate].
        -- destruct (make_mut h l) as [h1 l'] eqn:MM.
           destruct (norm_index (length (citems c)) z) as [n|] eqn:NI.
           2: { eapply FAILMM; eauto. simpl. rewrite <- Hlen, NI. reflexivity. }
           destruct (nth_item n (citems c)) as [e|] eqn:Ne.
           2: { eapply FAILMM; eauto. simpl. rewrite <- Hlen, NI.
                rewrite (repr_items_nth_none _ _ _ _ Hits Ne). reflexivity. }
           destruct (m_set every rest new (put_item h1 l' n HNull) e) as [[h3 e'] ok1] eqn:ER.
           inversion E; subst; clear E.
           rewrite <- K in Hr.
           destruct (set_descend every rest IH new tnew h l d c its dv n e G h1 l' h3 e' ok I Hr Hn Hc Ne MM ER)
             as [te [te' [Hte [Ev [Hr4 S]]]]].
           rewrite K in Hr4.
           exists (VSeq KList (set_nth n te' its) dv). split; [|split; auto].
           simpl. rewrite <- Hlen, NI, Hte, Ev. reflexivity.
        -- destruct (make_mut h l) as [h1 l'] eqn:MM. eapply FAILMM; eauto.
        -- destruct (make_mut h l) as [h1 l'] eqn:MM. eapply FAILMM; eauto.
      * (* dict *)
        assert (I' : Inv h ((l :: handles_opt d ++ handles (new_or_null new)) ++ G)).
        { rewrite handles_new_or_null. rewrite handles_ref in I. eapply Inv_equiv; [|exact I]. occ_tac. }
        pose proof (repr_new_or_null _ _ _ Hn) as Hv.
        rewrite <- K in Hr.
        assert (DK : forall k, key_of_pelem pe = Some k -> is_slice pe = false ->
          (let '(h1, l') := make_mut h l in
              match rest with
              | [] =>
                match find_key k (citems c) with
                | Some n =>
                  match nth_item n (citems c) with
                  | Some old => (drop_val (put_item h1 l' n (new_or_null new)) old, HRef l' d, true)
                  | None => (drop_opt h1 new, HRef l' d, false)
                  end
                | None => (set_items h1 l' (citems c ++ [(k, new_or_null new)]), HRef l' d, true)
                end
              | _ =>
                match find_key k (citems c) with
                | Some n =>
                  match nth_item n (citems c) with
                  | Some e =>
                    let h2 := put_item h1 l' n HNull in
                    let '(h3, e', ok) := m_set every rest new h2 e in
                    (put_item h3 l' n e', HRef l' d, ok)
                  | None => (drop_opt h1 new, HRef l' d, false)
                  end
                | None => (drop_opt h1 new, HRef l' d, false)
                end
              end) = (h', cur', ok) ->
          exists t', v_set every (pe :: rest) tnew (VSeq KDict its dv) = (t', ok) /\ repr h' cur' t' /\
                     Step h (handles (HRef l d) ++ handles_opt new) G h' (handles cur')).
        { intros k Hk Hsl E1. destruct (make_mut h l) as [h1 l'] eqn:MM.
          assert (VS : v_set every (pe :: rest) tnew (VSeq KDict its dv) =
                       match rest with
                       | [] => (VSeq KDict (put_key k (match tnew with Some w => w | None => VNull end) its) dv, true)
                       | _ => match find_key k its with
                              | Some n => match nth_item n its with
                                          | Some e => let (e', ok) := v_set every rest tnew e in (VSeq KDict (set_nth n e' its) dv, ok)
                                          | None => (VSeq KDict its dv, false)
                                          end
                              | None => (VSeq KDict its dv, false)
                              end
                       end).
          { destruct pe; simpl in Hk, Hsl; try discriminate; inversion Hk; subst; simpl; reflexivity. }
          rewrite VS. rewrite <- (repr_items_find_key _ _ _ k Hits).
          destruct rest as [|pe2 rest2].
          - (* insert / replace at the last level *)
            unfold put_key. rewrite <- (repr_items_find_key _ _ _ k Hits).
            destruct (find_key k (citems c)) as [n|] eqn:FK.
            + destruct (nth_item n (citems c)) as [old|] eqn:No.
              * inversion E1; subst; clear E1.
                destruct (replace_item_ok h l d c its dv n old _ _ G h1 l' I' Hr Hv Hc No MM) as [Hr3 S3].
                rewrite K in Hr3. eexists; split; [reflexivity|]. split; [exact Hr3|].
                rewrite !handles_ref. rewrite handles_new_or_null in S3.
                eapply Step_equiv; [| |exact S3]. apply in_occ_equiv; occ_tac. occ_tac.
              * exfalso. clear - FK No. revert n FK No. induction (citems c) as [|[k0 x] tl IHl]; intros n FK No; simpl in FK.
                -- discriminate.
                -- destruct (key_eqb k k0). inversion FK; subst. discriminate.
                   destruct (find_key k tl) eqn:F2; [|discriminate]. inversion FK; subst. unfold nth_item in *. simpl in No.
                   eapply IHl; eauto.
            + inversion E1; subst; clear E1.
              destruct (add_item_ok h l d c its dv k _ _ G h1 l' I' Hr Hv Hc MM) as [Hr3 S3].
              rewrite K in Hr3. eexists; split; [reflexivity|]. split; [exact Hr3|].
              rewrite !handles_ref. rewrite handles_new_or_null in S3.
              eapply Step_equiv; [| |exact S3]. apply in_occ_equiv; occ_tac. occ_tac.
          - (* descend *)
            rewrite K in Hr.
            destruct (find_key k (citems c)) as [n|] eqn:FK.
            2: { inversion E1; subst; clear E1. destruct (set_fail_mm h l d _ new G h1 l' I Hr MM). eauto. }
            destruct (nth_item n (citems c)) as [e|] eqn:Ne.
            2: { inversion E1; subst; clear E1. rewrite (repr_items_nth_none _ _ _ _ Hits Ne).
                 destruct (set_fail_mm h l d _ new G h1 l' I Hr MM). eauto. }
            cbv zeta in E1.
            destruct (m_set every (pe2 :: rest2) new (put_item h1 l' n HNull) e) as [[h3 e'] ok1] eqn:ER.
            inversion E1; subst; clear E1.
            rewrite <- K in Hr.
            destruct (set_descend every (pe2 :: rest2) IH new tnew h l d c its dv n e G h1 l' h3 e' ok I Hr Hn Hc Ne MM ER)
              as [te [te' [Hte [Ev [Hr4 S]]]]].
            rewrite K in Hr4. rewrite Hte, Ev. eauto. }
        rewrite K in Hr.
        destruct pe as [z | bs | sid' f | lo hi]; [| | |simpl in NS1; discriminate].
        -- apply (DK (KI z)); auto.
        -- apply (DK (KB bs)); auto.
        -- apply FAIL; auto.
      * (* string *)
        rewrite <- K in Hr.
        destruct pe as [z | bs | sid' f | lo hi]; [| | |simpl in NS1; discriminate];
          (destruct rest as [|pe2 rest2]; [|rewrite K in Hr; apply FAIL; [symmetry; exact E | reflexivity]]);
          (match goal with |- context [v_set every [?PE] _ _] =>
             destruct (set_leaf_str_ok h l d c its dv PE new tnew G h' cur' ok I Hr Hn Hc E) as [t' [Ev [Hr' S]]]
           end; rewrite K in Ev; exists t'; split; [exact Ev | split; auto]).
      * (* vector *)
        rewrite <- K in Hr.
        destruct pe as [z | bs | sid' f | lo hi]; [| | |simpl in NS1; discriminate];
          (destruct rest as [|pe2 rest2]; [|rewrite K in Hr; apply FAIL; [symmetry; exact E | reflexivity]]);
          (match goal with |- context [v_set every [?PE] _ _] =>
             destruct (set_leaf_num_ok (fun _ => true) h l d c its dv PE new tnew G h' cur' ok I Hr Hn Hc E) as [t' [Ev [Hr' S]]]
           end; rewrite K in Ev; exists t'; split; [exact Ev | split; auto]).
      * (* bytes *)
        rewrite <- K in Hr.
        destruct pe as [z | bs | sid' f | lo hi]; [| | |simpl in NS1; discriminate];
          (destruct rest as [|pe2 rest2]; [|rewrite K in Hr; apply FAIL; [symmetry; exact E | reflexivity]]);
          (match goal with |- context [v_set every [?PE] _ _] =>
             destruct (set_leaf_num_ok is_byte h l d c its dv PE new tnew G h' cur' ok I Hr Hn Hc E) as [t' [Ev [Hr' S]]]
           end; rewrite K in Ev; exists t'; split; [exact Ev | split; auto]).
    + (* struct instance: fields are inline *)
      inversion Hr; subst. match goal with H : repr_list _ _ _ |- _ => rename H into Hfs end.
      assert (FAIL : m_set every (pe :: rest) new h (HInst sid fields) = (drop_opt h new, HInst sid fields, false) ->
                     v_set every (pe :: rest) tnew (VInst sid ts) = (VInst sid ts, false) ->
                     exists t', v_set every (pe :: rest) tnew (VInst sid ts) = (t', ok) /\ repr h' cur' t' /\
                                Step h (handles (HInst sid fields) ++ handles_opt new) G h' (handles cur')).
      { intros E1 E2. rewrite E1 in E. inversion E; subst; clear E.
        destruct (set_fail h (HInst sid fields) (VInst sid ts) new G I Hr). eauto. }
      destruct pe as [z | bs | sid' f | lo hi]; try (apply FAIL; reflexivity).
      destruct (Nat.eqb sid sid') eqn:Es; [|apply FAIL; simpl; rewrite Es; reflexivity].
      destruct (nth_error fields f) as [e|] eqn:Ef.
      2: { apply FAIL; simpl; rewrite Es; [rewrite Ef|rewrite (repr_list_nth_none _ _ _ _ Hfs Ef)]; reflexivity. }
      clear FAIL.
      destruct (repr_list_nth _ _ _ _ _ Hfs Ef) as [te [Hte Hre]].
      simpl in E. rewrite Es, Ef in E.
      destruct (m_set every rest new h e) as [[h1 e'] ok1] eqn:ER. inversion E; subst; clear E.
      set (others := handles_list (hset_field f HNull fields)).
      assert (OC : forall x, occ x (handles_list fields) = occ x (handles e) + occ x others).
      { intro x. pose proof (occ_list_set_field x fields f HNull e Ef). rewrite handles_null in H. unfold others. revert H. occ_tac. }
      rewrite handles_inst in I.
      assert (I0 : Inv h ((handles e ++ handles_opt new) ++ others ++ G)).
      { eapply Inv_equiv; [|exact I]. intro x. specialize (OC x). revert OC. occ_tac. }
      destruct (IH new tnew h e te (others ++ G) h' e' ok I0 Hre Hn ER) as [te' [Ev [Hre' S]]].
      exists (VInst sid (set_field f te' ts)). split; [|split].
      * simpl. rewrite Es, Hte, Ev. reflexivity.
      * constructor.
        assert (Ho : repr h (HInst sid (hset_field f HNull fields)) (VInst sid (set_field f VNull ts))).
        { constructor. apply repr_list_set_field; auto. constructor. }
        eapply (Step_frame_repr _ _ _ _ _ _ _ _ S) in Ho.
        2: { rewrite handles_inst. apply incl_appl, incl_refl. }
        inversion Ho; subst.
        match goal with H : repr_list h' _ _ |- _ => pose proof (repr_list_set_field _ _ _ f _ _ H Hre') as Hx end.
        rewrite hset_field_twice, set_field_twice in Hx. exact Hx.
      * rewrite !handles_inst.
        apply Step_frame in S.
        eapply Step_equiv; [| |exact S].
        -- apply in_occ_equiv. intro x. specialize (OC x). revert OC. occ_tac.
        -- intro x. pose proof (occ_list_set_field x fields f e' e Ef).
           specialize (OC x). revert H OC. occ_tac.
Qed.

(* ------------------------------------------------------------------ reading: index / slice *)
Lemma get_clone_drop h v e te R F :
  Inv h ((handles v ++ R) ++ F) -> incl (handles e) (handles v ++ handles_heap h) -> repr h e te ->
  let h' := drop_val (clone_val h e) v in
  repr h' e te /\ Step h (handles v ++ R) F h' (handles e ++ R) /\
  (forall w t, incl (handles w) (R ++ F) -> repr h w t -> repr h' w t).
Proof.
  intros I Ie He h'.
  destruct (clone_val_step h (handles v ++ R) F e I) as [S1 [B1 L1]].
  { intros x Hx. apply Ie in Hx. revert Hx. in_tac. }
  set (h1 := clone_val h e) in *.
  assert (I1 : Inv h1 ((handles v ++ handles e ++ R) ++ F)).
  { eapply Inv_equiv; [|apply S1]. occ_tac. }
  destruct (drop_val_keep h1 v (handles e ++ R) F I1) as [S2 K2].
  split; [|split].
  - apply K2. apply incl_appl, incl_appl, incl_refl. eapply repr_ext; eauto.
  - eapply Step_trans; [|exact S2]. eapply Step_equiv; [| |exact S1]. intro; tauto. occ_tac.
  - intros w t Iw Hw. apply K2. { intros x Hx. apply Iw in Hx. revert Hx. in_tac. } eapply repr_ext; eauto.
Qed.

Lemma alloc_repr h k its ts h' l' :
  alloc h k its = (h', l') -> repr_items h its ts -> repr h' (HRef l' None) (VSeq k ts None).
Proof.
  intros EA Hits. assert (Eh : h' = fst (alloc h k its)) by (rewrite EA; auto).
  assert (El : l' = length (cells h)) by (unfold alloc in EA; inversion EA; auto).
  change k with (ckind (mkcell 1 k its)). apply R_ref.
  - rewrite Eh, El. apply get_cell_alloc_new.
  - simpl. eapply repr_items_ext; [|exact Hits]. intro. rewrite Eh. apply same_body_alloc.
  - constructor.
Qed.

Lemma alloc_step' h R F k its h' l' :
  alloc h k its = (h', l') -> Inv h ((handles_items its ++ R) ++ F) ->
  Step h (handles_items its ++ R) F h' (l' :: R) /\ (forall m, same_body h h' m).
Proof.
  intros EA I. pose proof (alloc_step h R F k its I) as S. rewrite EA in S. simpl in S.
  split; auto. intro. assert (Eh : h' = fst (alloc h k its)) by (rewrite EA; auto). rewrite Eh. apply same_body_alloc.
Qed.

Lemma repr_items_firstn h es ts n : repr_items h es ts -> repr_items h (firstn n es) (firstn n ts).
Proof. intro H. revert n. induction H; destruct n; simpl; constructor; auto. Qed.
Lemma repr_items_skipn h es ts n : repr_items h es ts -> repr_items h (skipn n es) (skipn n ts).
Proof. intro H. revert n. induction H; destruct n; simpl; auto; constructor; auto. Qed.
Lemma repr_items_sub h es ts a b : repr_items h es ts -> repr_items h (sub_items es a b) (sub_items ts a b).
Proof. intro. unfold sub_items. apply repr_items_firstn. apply repr_items_skipn. auto. Qed.

Lemma handles_items_firstn its n : incl (handles_items (firstn n its)) (handles_items its).
Proof.
  unfold handles_items. revert n. induction its as [|[k y] its IH]; destruct n; simpl; try apply incl_nil_l.
  apply incl_app; [apply incl_appl, incl_refl | apply incl_appr; auto].
Qed.
Lemma handles_items_skipn its n : incl (handles_items (skipn n its)) (handles_items its).
Proof.
  unfold handles_items. revert n. induction its as [|[k y] its IH]; destruct n; simpl; try apply incl_refl.
  apply incl_appr; auto.
Qed.
Lemma handles_items_sub its a b : incl (handles_items (sub_items its a b)) (handles_items its).
Proof. unfold sub_items. eapply incl_tran; [apply handles_items_firstn | apply handles_items_skipn]. Qed.

Lemma get_alloc_drop h v k its' ts' R F h2 l' :
  Inv h ((handles v ++ R) ++ F) -> incl (handles_items its') (handles v ++ handles_heap h) ->
  repr_items h its' ts' ->
  alloc (clone_locs h (handles_items its')) k its' = (h2, l') ->
  let h' := drop_val h2 v in
  repr h' (HRef l' None) (VSeq k ts' None) /\ Step h (handles v ++ R) F h' (handles (HRef l' None) ++ R) /\
  (forall w t, incl (handles w) (R ++ F) -> repr h w t -> repr h' w t).
Proof.
  intros I Ii Hits EA h'.
  destruct (clone_locs_step (handles_items its') h (handles v ++ R) F I) as [S1 [B1 L1]].
  { intros x Hx. apply Ii in Hx. revert Hx. in_tac. }
  set (h1 := clone_locs h (handles_items its')) in *.
  assert (I1 : Inv h1 ((handles_items its' ++ handles v ++ R) ++ F)) by apply S1.
  destruct (alloc_step' h1 (handles v ++ R) F k its' h2 l' EA I1) as [S2 B2].
  assert (Hr2 : repr h2 (HRef l' None) (VSeq k ts' None)).
  { eapply alloc_repr; eauto. eapply repr_items_ext; eauto. }
  assert (I2 : Inv h2 ((handles v ++ l' :: R) ++ F)).
  { eapply Inv_equiv; [|apply S2]. occ_tac. }
  destruct (drop_val_keep h2 v (l' :: R) F I2) as [S3 K3].
  rewrite handles_ref. simpl.
  split; [|split].
  - apply K3; auto. rewrite handles_ref. simpl. intros x Hx. simpl in Hx. destruct Hx; [left; auto|contradiction].
  - eapply Step_trans; [exact S1|]. eapply Step_trans; [exact S2|].
    eapply Step_equiv; [| |exact S3]. apply in_occ_equiv; occ_tac. occ_tac.
  - intros w t Iw Hw. apply K3. { intros x Hx. apply Iw in Hx. revert Hx. simpl. in_tac. }
    eapply repr_ext; [exact B2|]. eapply repr_ext; eauto.
Qed.

Definition get1_post (h : heap) (v : hval) (R F : list loc) (tt : val) (pe : pelem) (h' : heap) (r : option hval) : Prop :=
  match r with
  | Some e => exists te, v_get1 tt pe = Some te /\ repr h' e te /\ Step h (handles v ++ R) F h' (handles e ++ R)
  | None => v_get1 tt pe = None /\ Step h (handles v ++ R) F h' R
  end /\ (forall w t, incl (handles w) (R ++ F) -> repr h w t -> repr h' w t).

Lemma m_get1_ok h v t pe R F h' r :
  Inv h ((handles v ++ R) ++ F) -> repr h v t -> m_get1 h v pe = (h', r) -> get1_post h v R F t pe h' r.
Proof.
  intros I Hr E. unfold get1_post.
  assert (FAIL : forall tt, (h', r) = (drop_val h v, None) -> v_get1 tt pe = None -> get1_post h v R F tt pe h' r).
  { intros tt E1 E2. inversion E1; subst. destruct (drop_val_keep h v R F I). split; auto. }
  assert (OKC : forall tt e te, (h', r) = (drop_val (clone_val h e) v, Some e) ->
                 incl (handles e) (handles v ++ handles_heap h) -> repr h e te -> v_get1 tt pe = Some te ->
                 get1_post h v R F tt pe h' r).
  { intros tt e te E1 Ie He E2. inversion E1; subst.
    destruct (get_clone_drop h v e te R F I Ie He) as [A [B C]]. split; eauto. }
  fold (get1_post h v R F t pe h' r).
  destruct v as [| z | l d | sid fs].
  - simpl in E. inversion E; subst. inversion Hr; subst. split; auto. simpl. split; auto.
    rewrite handles_null. simpl. apply Step_refl. rewrite handles_null in I. auto.
  - simpl in E. inversion E; subst. inversion Hr; subst. split; auto. simpl. split; auto.
    rewrite handles_int. simpl. apply Step_refl. rewrite handles_int in I. auto.
  - destruct (repr_ref_inv_gen _ _ _ _ Hr) as [c [its [dv [Ht [Hc [Hits Hd]]]]]]. subst t.
    pose proof (repr_items_length _ _ _ Hits) as Hlen.
    simpl in E. rewrite Hc in E.
    assert (ITEM : forall n e, nth_item n (citems c) = Some e -> incl (handles e) (handles (HRef l d) ++ handles_heap h)).
    { intros n e Hn. apply incl_appr. intros x Hx. eapply In_handles_heap; eauto. eapply handles_items_nth; eauto. }
    assert (SEQ : forall k, ckind c = k -> k <> KDict ->
      match pe with
      | PI z =>
        match norm_index (length (citems c)) z with
        | Some n =>
          match nth_item n (citems c) with
          | Some e =>
            match k with
            | KStr => let '(h1, l') := alloc (clone_val h e) KStr [(nokey, e)] in (drop_val h1 (HRef l d), Some (HRef l' None))
            | _ => (drop_val (clone_val h e) (HRef l d), Some e)
            end
          | None => (drop_val h (HRef l d), None)
          end
        | None => (drop_val h (HRef l d), None)
        end
      | PSl lo hi =>
        let '(a, b) := slice_bounds (length (citems c)) lo hi in
        let its := sub_items (citems c) a b in
        let h1 := clone_locs h (handles_items its) in
        let '(h2, l') := alloc h1 k its in
        (drop_val h2 (HRef l d), Some (HRef l' None))
      | _ => (drop_val h (HRef l d), None)
      end = (h', r) -> get1_post h (HRef l d) R F (VSeq k its dv) pe h' r).
    { intros k _ NK E1.
      assert (VG : v_get1 (VSeq k its dv) pe =
                   match pe with
                   | PI z => match norm_index (length its) z with
                             | Some n => match nth_item n its with
                                         | Some e => Some (match k with KStr => VSeq KStr [(nokey, e)] None | _ => e end)
                                         | None => None
                                         end
                             | None => None
                             end
                   | PSl lo hi => let (a, b) := slice_bounds (length its) lo hi in Some (VSeq k (sub_items its a b) None)
                   | _ => None
                   end).
      { destruct k; try congruence; reflexivity. }
      destruct pe as [z | bs | sid' f | lo hi].
      - rewrite <- Hlen in VG. destruct (norm_index (length (citems c)) z) as [n|] eqn:NI.
        2: { apply FAIL; auto. }
        destruct (nth_item n (citems c)) as [e|] eqn:Ne.
        2: { apply FAIL; auto. rewrite VG. rewrite (repr_items_nth_none _ _ _ _ Hits Ne). reflexivity. }
        destruct (repr_items_nth _ _ _ _ _ Hits Ne) as [te [Hte Hre]]. rewrite Hte in VG.
        destruct (kind_eqb k KStr) eqn:KS.
        + assert (k = KStr) by (destruct k; simpl in KS; congruence). subst k.
          destruct (alloc (clone_val h e) KStr [(nokey, e)]) as [h1 l'] eqn:EA. inversion E1; subst; clear E1.
          assert (EA' : alloc (clone_locs h (handles_items [(nokey, e)])) KStr [(nokey, e)] = (h1, l')).
          { rewrite handles_items_single. exact EA. }
          destruct (get_alloc_drop h (HRef l d) KStr [(nokey, e)] [(nokey, te)] R F h1 l' I) as [Hr' [S' K']]; auto.
          { rewrite handles_items_single. eapply ITEM; eauto. }
          { constructor; auto. constructor. }
          unfold get1_post. rewrite VG. eauto.
        + assert (E2 : (h', r) = (drop_val (clone_val h e) (HRef l d), Some e)).
          { destruct k; simpl in KS; try discriminate; auto. }
          eapply OKC; eauto. rewrite VG. destruct k; simpl in KS; try discriminate; auto.
      - apply FAIL; auto.
      - apply FAIL; auto.
      - rewrite <- Hlen in VG. destruct (slice_bounds (length (citems c)) lo hi) as [a b].
        cbv zeta in E1.
        destruct (alloc (clone_locs h (handles_items (sub_items (citems c) a b))) k (sub_items (citems c) a b)) as [h2 l'] eqn:EA.
        inversion E1; subst; clear E1.
        destruct (get_alloc_drop h (HRef l d) k (sub_items (citems c) a b) (sub_items its a b) R F h2 l' I) as [Hr' [S' K']]; auto.
        { apply incl_appr. intros x Hx. eapply In_handles_heap; eauto. eapply handles_items_sub; eauto. }
        { apply repr_items_sub; auto. }
        unfold get1_post. rewrite VG. eauto. }
    destruct (ckind c) eqn:K.
    + apply (SEQ KList); auto. discriminate.
    + (* dict *)
      assert (VG : v_get1 (VSeq KDict its dv) pe =
                   match key_of_pelem pe with
                   | Some k => match find_key k its with
                               | Some n => nth_item n its
                               | None => dv
                               end
                   | None => None
                   end) by reflexivity.
      destruct (key_of_pelem pe) as [k|] eqn:KP; [|apply FAIL; auto].
      rewrite <- (repr_items_find_key _ _ _ k Hits) in VG.
      destruct (find_key k (citems c)) as [n|] eqn:FK.
      * destruct (nth_item n (citems c)) as [e|] eqn:Ne.
        -- destruct (repr_items_nth _ _ _ _ _ Hits Ne) as [te [Hte Hre]]. eapply OKC; eauto. rewrite VG. auto.
        -- apply FAIL; auto. rewrite VG. eapply repr_items_nth_none; eauto.
      * inversion Hd; subst.
        -- apply FAIL; auto.
        -- eapply OKC; eauto. apply incl_appl. rewrite handles_ref. apply incl_tl. apply incl_refl.
    + apply (SEQ KStr); auto. discriminate.
    + apply (SEQ KVec); auto. discriminate.
    + apply (SEQ KBytes); auto. discriminate.
  - (* instance *)
    inversion Hr; subst. match goal with H : repr_list _ _ _ |- _ => rename H into Hfs end.
    simpl in E.
    destruct pe as [z | bs | sid' f | lo hi]; try (apply FAIL; auto; fail).
    destruct (Nat.eqb sid sid') eqn:Es; [|apply FAIL; auto; simpl; rewrite Es; auto].
    destruct (nth_error fs f) as [e|] eqn:Ef.
    + destruct (repr_list_nth _ _ _ _ _ Hfs Ef) as [te [Hte Hre]].
      eapply OKC; eauto.
      * apply incl_appl. rewrite handles_inst. eapply handles_list_nth; eauto.
      * simpl. rewrite Es. auto.
    + apply FAIL; auto. simpl. rewrite Es. eapply repr_list_nth_none; eauto.
Qed.

Lemma m_get_ok p : forall h v t R F h' r,
  Inv h ((handles v ++ R) ++ F) -> repr h v t -> m_get h v p = (h', r) ->
  match r with
  | Some e => exists te, v_get t p = Some te /\ repr h' e te /\ Step h (handles v ++ R) F h' (handles e ++ R)
  | None => v_get t p = None /\ Step h (handles v ++ R) F h' R
  end /\ (forall w tt, incl (handles w) (R ++ F) -> repr h w tt -> repr h' w tt).
Proof.
  induction p as [|pe rest IH]; intros h v t R F h' r I Hr E.
  - simpl in E. inversion E; subst. split; auto. simpl. exists t. split; [auto|]. split; [auto|]. apply Step_refl; auto.
  - simpl in E. destruct (m_get1 h v pe) as [h1 [e|]] eqn:E1.
    + destruct (m_get1_ok h v t pe R F h1 (Some e) I Hr E1) as [[te [Hg [Hre S1]]] K1].
      assert (I1 : Inv h1 ((handles e ++ R) ++ F)) by apply S1.
      destruct (IH h1 e te R F h' r I1 Hre E) as [A K2].
      split; [|intros; apply K2; auto].
      simpl. rewrite Hg. destruct r as [e2|].
      * destruct A as [te2 [Hg2 [Hre2 S2]]]. exists te2. split; [auto|]. split; [auto|]. eapply Step_trans; eauto.
      * destruct A as [Hg2 S2]. split; auto. eapply Step_trans; eauto.
    + destruct (m_get1_ok h v t pe R F h1 None I Hr E1) as [[Hg S1] K1]. inversion E; subst.
      split; auto. simpl. rewrite Hg. auto.
Qed.

(* x[p] read from the content v of a variable (v itself stays where it is, among R) *)
Lemma m_read_ok h v t p R F h' r :
  Inv h (R ++ F) -> incl (handles v) (R ++ handles_heap h) -> repr h v t -> m_read h v p = (h', r) ->
  match r with
  | Some e => exists te, v_get t p = Some te /\ repr h' e te /\ Step h R F h' (handles e ++ R)
  | None => v_get t p = None /\ Step h R F h' R
  end /\ (forall w tt, incl (handles w) (R ++ F) -> repr h w tt -> repr h' w tt).
Proof.
  intros I Iv Hr E. unfold m_read in E.
  destruct (clone_val_step h R F v I Iv) as [S1 [B1 L1]].
  set (h1 := clone_val h v) in *.
  assert (I1 : Inv h1 ((handles v ++ R) ++ F)) by apply S1.
  assert (Hr1 : repr h1 v t) by (eapply repr_ext; eauto).
  destruct (m_get_ok p h1 v t R F h' r I1 Hr1 E) as [A K].
  split.
  - destruct r as [e|].
    + destruct A as [te [Hg [Hre S2]]]. exists te. split; [auto|]. split; [auto|]. eapply Step_trans; eauto.
    + destruct A as [Hg S2]. split; auto. eapply Step_trans; eauto.
  - intros w tt Iw Hw. apply K; auto. eapply repr_ext; eauto.
Qed.

(* ------------------------------------------------------------------ literals *)
Section ValInd.
  Variable P : val -> Prop.
  Hypothesis Hnull : P VNull.
  Hypothesis Hint : forall z, P (VInt z).
  Definition optP (d : option val) : Prop := match d with Some t => P t | None => True end.
  Hypothesis Hseq : forall k its d, Forall (fun kv => P (snd kv)) its -> optP d -> P (VSeq k its d).
  Hypothesis Hinst : forall sid fs, Forall P fs -> P (VInst sid fs).
  Fixpoint val_ind' (t : val) : P t :=
    match t with
    | VNull => Hnull
    | VInt z => Hint z
    | VSeq k its d =>
      Hseq k its d
        ((fix go (l : list (key * val)) : Forall (fun kv => P (snd kv)) l :=
            match l with
            | [] => Forall_nil _
            | kv :: tl => Forall_cons kv (val_ind' (snd kv)) (go tl)
            end) its)
        (match d as d0 return optP d0 with
         | Some t0 => val_ind' t0
         | None => I
         end)
    | VInst sid fs =>
      Hinst sid fs
        ((fix go (l : list val) : Forall P l :=
            match l with
            | [] => Forall_nil _
            | x :: tl => Forall_cons x (val_ind' x) (go tl)
            end) fs)
    end.
End ValInd.

Definition alloc_spec (t : val) : Prop :=
  forall h R F h' v, Inv h (R ++ F) -> alloc_val h t = (h', v) ->
  repr h' v t /\ Step h R F h' (handles v ++ R) /\ (forall m, same_body h h' m).

Opaque alloc.
Lemma alloc_val_ok t : alloc_spec t.
Proof.
  induction t using val_ind'; unfold alloc_spec; intros h R F h' v I E.
  - simpl in E. inversion E; subst. rewrite handles_null. simpl.
    split; [constructor | split; [apply Step_refl; auto | intro; apply same_body_refl]].
  - simpl in E. inversion E; subst. rewrite handles_int. simpl.
    split; [constructor | split; [apply Step_refl; auto | intro; apply same_body_refl]].
  - simpl in E.
    (* the items *)
    assert (ITEMS : forall its0, Forall (fun kv => alloc_spec (snd kv)) its0 ->
      forall h R F h1 es, Inv h (R ++ F) ->
      (fix go (h : heap) (its : list (key * val)) {struct its} : heap * list (key * hval) :=
         match its with
         | [] => (h, [])
         | (ky, t1) :: tl => let '(h', e) := alloc_val h t1 in let '(h'', es) := go h' tl in (h'', (ky, e) :: es)
         end) h its0 = (h1, es) ->
      repr_items h1 es its0 /\ Step h R F h1 (handles_items es ++ R) /\ (forall m, same_body h h1 m)).
    { induction its0 as [|[ky t1] tl IHl]; intros Hall h0 R0 F0 h1 es I0 E0.
      - inversion E0; subst. simpl.
        split; [constructor | split; [apply Step_refl; auto | intro; apply same_body_refl]].
      - inversion Hall; subst. simpl in H3.
        destruct (alloc_val h0 t1) as [h0' e] eqn:E1.
        destruct ((fix go (h : heap) (its : list (key * val)) {struct its} : heap * list (key * hval) :=
                     match its with
                     | [] => (h, [])
                     | (ky, t1) :: tl => let '(h', e) := alloc_val h t1 in let '(h'', es) := go h' tl in (h'', (ky, e) :: es)
                     end) h0' tl) as [h0'' es'] eqn:E2.
        inversion E0; subst; clear E0.
        destruct (H3 h0 R0 F0 h0' e I0 E1) as [Hre [S1 B1]].
        assert (I1 : Inv h0' ((handles e ++ R0) ++ F0)) by apply S1.
        destruct (IHl H4 h0' (handles e ++ R0) F0 h1 es' I1 E2) as [Hres [S2 B2]].
        split; [|split].
        + constructor; auto. eapply repr_ext; eauto.
        + eapply Step_trans; [exact S1|]. eapply Step_equiv; [| |exact S2]. intro; tauto.
          unfold handles_items. simpl. fold (handles_items es'). occ_tac.
        + intro m. eapply same_body_trans; eauto. }
    destruct ((fix go (h : heap) (its : list (key * val)) {struct its} : heap * list (key * hval) :=
                 match its with
                 | [] => (h, [])
                 | (ky, t1) :: tl => let '(h', e) := alloc_val h t1 in let '(h'', es) := go h' tl in (h'', (ky, e) :: es)
                 end) h its) as [h1 es] eqn:E1.
    destruct (ITEMS its H h R F h1 es I E1) as [Hes [S1 B1]].
    assert (I1 : Inv h1 ((handles_items es ++ R) ++ F)) by apply S1.
    (* the default *)
    assert (DFL : exists h2 dv, (match d with
                                 | Some dt => let '(h', e) := alloc_val h1 dt in (h', Some e)
                                 | None => (h1, None)
                                 end) = (h2, dv) /\
                  repr_opt h2 dv d /\ Step h1 (handles_items es ++ R) F h2 (handles_opt dv ++ handles_items es ++ R) /\
                  (forall m, same_body h1 h2 m)).
    { destruct d as [dt|].
      - destruct (alloc_val h1 dt) as [h2 e] eqn:E2. exists h2, (Some e). split; auto.
        destruct (H0 h1 (handles_items es ++ R) F h2 e I1 E2) as [Hre [S2 B2]].
        split; [constructor; auto | split; auto].
      - exists h1, None. split; auto.
        split; [constructor | split; [simpl; apply Step_refl; auto | intro; apply same_body_refl]]. }
    destruct DFL as [h2 [dv [E2 [Hdv [S2 B2]]]]]. rewrite E2 in E.
    destruct (alloc h2 k es) as [h3 l] eqn:E3. inversion E; subst; clear E.
    assert (I2 : Inv h2 ((handles_items es ++ handles_opt dv ++ R) ++ F)).
    { eapply Inv_equiv; [|apply S2]. occ_tac. }
    destruct (alloc_step' h2 (handles_opt dv ++ R) F k es h' l E3 I2) as [S3 B3].
    split; [|split].
    + Transparent alloc.
      assert (Eh : h' = fst (alloc h2 k es)) by (rewrite E3; auto).
      assert (El : l = length (cells h2)) by (unfold alloc in E3; inversion E3; auto).
      Opaque alloc.
      change k with (ckind (mkcell 1 k es)). apply R_ref.
      * rewrite Eh, El. apply get_cell_alloc_new.
      * simpl. eapply repr_items_ext; [exact B3|]. eapply repr_items_ext; eauto.
      * eapply repr_opt_ext; eauto.
    + rewrite handles_ref. eapply Step_trans; [exact S1|]. eapply Step_trans; [exact S2|].
      eapply Step_equiv; [| |exact S3]. apply in_occ_equiv; occ_tac. occ_tac.
    + intro m. eapply same_body_trans; [apply B1|]. eapply same_body_trans; [apply B2|]. apply B3.
  - simpl in E.
    assert (FIELDS : forall fs0, Forall alloc_spec fs0 ->
      forall h R F h1 es, Inv h (R ++ F) ->
      (fix go (h : heap) (fs : list val) {struct fs} : heap * list hval :=
         match fs with
         | [] => (h, [])
         | t1 :: tl => let '(h', e) := alloc_val h t1 in let '(h'', es) := go h' tl in (h'', e :: es)
         end) h fs0 = (h1, es) ->
      repr_list h1 es fs0 /\ Step h R F h1 (handles_list es ++ R) /\ (forall m, same_body h h1 m)).
    { induction fs0 as [|t1 tl IHl]; intros Hall h0 R0 F0 h1 es I0 E0.
      - inversion E0; subst. simpl.
        split; [constructor | split; [apply Step_refl; auto | intro; apply same_body_refl]].
      - inversion Hall; subst.
        destruct (alloc_val h0 t1) as [h0' e] eqn:E1.
        destruct ((fix go (h : heap) (fs : list val) {struct fs} : heap * list hval :=
                     match fs with
                     | [] => (h, [])
                     | t1 :: tl => let '(h', e) := alloc_val h t1 in let '(h'', es) := go h' tl in (h'', e :: es)
                     end) h0' tl) as [h0'' es'] eqn:E2.
        inversion E0; subst; clear E0.
        destruct (H2 h0 R0 F0 h0' e I0 E1) as [Hre [S1 B1]].
        assert (I1 : Inv h0' ((handles e ++ R0) ++ F0)) by apply S1.
        destruct (IHl H3 h0' (handles e ++ R0) F0 h1 es' I1 E2) as [Hres [S2 B2]].
        split; [|split].
        + constructor; auto. eapply repr_ext; eauto.
        + eapply Step_trans; [exact S1|]. eapply Step_equiv; [| |exact S2]. intro; tauto.
          unfold handles_list. simpl. fold (handles_list es'). occ_tac.
        + intro m. eapply same_body_trans; eauto. }
    destruct ((fix go (h : heap) (fs : list val) {struct fs} : heap * list hval :=
                 match fs with
                 | [] => (h, [])
                 | t1 :: tl => let '(h', e) := alloc_val h t1 in let '(h'', es) := go h' tl in (h'', e :: es)
                 end) h fs) as [h1 es] eqn:E1.
    inversion E; subst; clear E.
    destruct (FIELDS fs H h R F h' es I E1) as [Hes [S1 B1]].
    rewrite handles_inst. split; [constructor; auto | split; auto].
Qed.
Transparent alloc.

(* ------------------------------------------------------------------ expressions *)
Fixpoint evals (st : state) (es : list expr) : option (list val) :=
  match es with
  | [] => Some []
  | e1 :: tl => match eval st e1 with
                | Some v => match evals st tl with Some r => Some (v :: r) | None => None end
                | None => None
                end
  end.

Lemma eval_EList st es :
  eval st (EList es) = match evals st es with Some vs => Some (VList vs) | None => None end.
Proof.
  simpl. assert (E : (fix go (l : list expr) : option (list val) :=
             match l with
             | [] => Some []
             | e1 :: tl => match eval st e1 with
                           | Some v => match go tl with Some r => Some (v :: r) | None => None end
                           | None => None
                           end
             end) es = evals st es).
  { induction es; simpl; auto. rewrite IHes. reflexivity. }
  rewrite E. reflexivity.
Qed.

Fixpoint m_evals (rs : list hval) (h : heap) (l : list expr) : heap * option (list (key * hval)) :=
  match l with
  | [] => (h, Some [])
  | e1 :: tl =>
    match m_eval rs h e1 with
    | (h1, Some v) =>
      match m_evals rs h1 tl with
      | (h2, Some r) => (h2, Some ((nokey, v) :: r))
      | (h2, None) => (drop_val h2 v, None)
      end
    | (h1, None) => (h1, None)
    end
  end.

Lemma m_eval_EList rs h es :
  m_eval rs h (EList es) =
  let '(h1, r) := m_evals rs h es in
  match r with
  | Some its => let '(h2, l) := alloc h1 KList its in (h2, Some (HRef l None))
  | None => (h1, None)
  end.
Proof.
  simpl. assert (E : forall h, (fix go (h : heap) (l : list expr) {struct l} : heap * option (list (key * hval)) :=
         match l with
         | [] => (h, Some [])
         | e1 :: tl =>
           match m_eval rs h e1 with
           | (h1, Some v) =>
             match go h1 tl with
             | (h2, Some r) => (h2, Some ((nokey, v) :: r))
             | (h2, None) => (drop_val h2 v, None)
             end
           | (h1, None) => (h1, None)
           end
         end) h es = m_evals rs h es).
  { induction es; intro h0; simpl; auto. destruct (m_eval rs h0 a) as [h1 [v|]]; auto. rewrite IHes. reflexivity. }
  rewrite E. reflexivity.
Qed.

(* the expression forms covered by the proof so far *)
Fixpoint efrag (e : expr) : bool :=
  match e with
  | ELit _ | ERead _ _ | EGet _ => true
  | EList es => (fix go (l : list expr) : bool := match l with [] => true | x :: tl => efrag x && go tl end) es
  | EUpd _ _ _ | ECall _ _ => false
  end.

Definition eval_post (rs : list hval) (h : heap) (F : list loc) (st : state) (e : expr) (h' : heap) (r : option hval) : Prop :=
  match r with
  | Some w => exists tw, eval st e = Some tw /\ repr h' w tw /\
                         Step h (handles_list rs) F h' (handles w ++ handles_list rs)
  | None => eval st e = None /\ Step h (handles_list rs) F h' (handles_list rs)
  end /\ (forall w t, incl (handles w) (handles_list rs ++ F) -> repr h w t -> repr h' w t).

Section ExprInd.
  Variable P : expr -> Prop.
  Hypothesis Hlit : forall v, P (ELit v).
  Hypothesis Hread : forall x p, P (ERead x p).
  Hypothesis Hget : forall x, P (EGet x).
  Hypothesis Hlist : forall es, Forall P es -> P (EList es).
  Hypothesis Hupd : forall e k e2, P e -> P e2 -> P (EUpd e k e2).
  Hypothesis Hcall : forall m e, P e -> P (ECall m e).
  Fixpoint expr_ind' (e : expr) : P e :=
    match e with
    | ELit v => Hlit v
    | ERead x p => Hread x p
    | EGet x => Hget x
    | EList es => Hlist es ((fix go (l : list expr) : Forall P l :=
                               match l with
                               | [] => Forall_nil _
                               | x :: tl => Forall_cons x (expr_ind' x) (go tl)
                               end) es)
    | EUpd e k e2 => Hupd e k e2 (expr_ind' e) (expr_ind' e2)
    | ECall m e => Hcall m e (expr_ind' e)
    end.
End ExprInd.

Lemma m_eval_ok e : efrag e = true -> forall rs h F st h' r,
  Inv h (handles_list rs ++ F) -> repr_list h rs st -> m_eval rs h e = (h', r) ->
  eval_post rs h F st e h' r.
Proof.
  induction e using expr_ind'; intros FR rs h F st h' r I Hrs E; unfold eval_post.
  - (* literal *)
    simpl in E. destruct (alloc_val h v) as [h1 w] eqn:EA. inversion E; subst.
    destruct (alloc_val_ok v h (handles_list rs) F h' w I EA) as [Hw [S B]].
    split; [exists v; auto|]. intros; eapply repr_ext; eauto.
  - (* x[p] *)
    simpl in E. simpl. destruct (nth_error rs x) as [v|] eqn:Ex.
    + destruct (repr_list_nth _ _ _ _ _ Hrs Ex) as [tv [Htv Hv]]. rewrite Htv.
      apply (m_read_ok h v tv p (handles_list rs) F h' r I); auto.
      apply incl_appl. eapply handles_list_nth; eauto.
    + inversion E; subst. rewrite (repr_list_nth_none _ _ _ _ Hrs Ex).
      split; auto. split; auto. apply Step_refl; auto.
  - (* getter closure *)
    simpl in E. simpl. destruct (nth_error rs x) as [v|] eqn:Ex.
    + destruct (repr_list_nth _ _ _ _ _ Hrs Ex) as [tv [Htv Hv]]. rewrite Htv. inversion E; subst.
      destruct (clone_val_step h (handles_list rs) F v I) as [S [B L]].
      { apply incl_appl. eapply handles_list_nth; eauto. }
      split; [|intros; eapply repr_ext; eauto].
      exists tv. split; auto. split; auto. eapply repr_ext; eauto.
    + inversion E; subst. rewrite (repr_list_nth_none _ _ _ _ Hrs Ex).
      split; auto. split; auto. apply Step_refl; auto.
  - (* [e1, ..., en] *)
    rewrite m_eval_EList in E. rewrite eval_EList.
    assert (LIST : forall es0, Forall (fun e => efrag e = true -> forall rs h F st h' r,
                     Inv h (handles_list rs ++ F) -> repr_list h rs st -> m_eval rs h e = (h', r) ->
                     eval_post rs h F st e h' r) es0 ->
                   (fix go (l : list expr) : bool := match l with [] => true | x :: tl => efrag x && go tl end) es0 = true ->
                   forall h F h1 r1, Inv h (handles_list rs ++ F) -> repr_list h rs st -> m_evals rs h es0 = (h1, r1) ->
                   match r1 with
                   | Some its => exists ts, evals st es0 = Some ts /\ repr_items h1 its (unlabelled ts) /\
                                            Step h (handles_list rs) F h1 (handles_items its ++ handles_list rs)
                   | None => evals st es0 = None /\ Step h (handles_list rs) F h1 (handles_list rs)
                   end /\ (forall w t, incl (handles w) (handles_list rs ++ F) -> repr h w t -> repr h1 w t)).
    { induction es0 as [|e1 tl IHl]; intros Hall Hfr h0 F0 h1 r1 I0 Hrs0 E0.
      - simpl in E0. inversion E0; subst. split; auto. exists []. split; auto. split; [constructor|].
        simpl. apply Step_refl; auto.
      - inversion Hall; subst. apply andb_prop in Hfr. destruct Hfr as [Hf1 Hf2].
        simpl in E0. destruct (m_eval rs h0 e1) as [h2 [v|]] eqn:E1.
        + destruct (H2 Hf1 rs h0 F0 st h2 (Some v) I0 Hrs0 E1) as [[tv [Ev [Hv S1]]] K1].
          assert (Hrs2 : repr_list h2 rs st).
          { assert (Hx : repr h2 (HInst 0 rs) (VInst 0 st)).
            { apply K1. rewrite handles_inst. apply incl_appl, incl_refl. constructor; auto. }
            inversion Hx; auto. }
          assert (I2 : Inv h2 (handles_list rs ++ handles v ++ F0)).
          { eapply Inv_equiv; [|apply S1]. occ_tac. }
          destruct (m_evals rs h2 tl) as [h3 [rr|]] eqn:E2.
          * destruct (IHl H3 Hf2 h2 (handles v ++ F0) h3 (Some rr) I2 Hrs2 E2) as [[ts [Evs [Hr S2]]] K2].
            inversion E0; subst; clear E0. split.
            -- exists (tv :: ts). simpl. rewrite Ev, Evs. split; auto. split.
               ++ constructor; auto. apply K2; auto. apply incl_appr, incl_appl, incl_refl.
               ++ apply Step_frame in S2. eapply Step_trans; [|eapply Step_equiv; [| |exact S2]].
                  ** eapply Step_equiv; [| |exact S1]. intro; tauto. intro; reflexivity.
                  ** apply in_occ_equiv. occ_tac.
                  ** unfold handles_items. simpl. fold (handles_items rr). occ_tac.
            -- intros w t Iw Hw. apply K2. { intros x Hx. apply Iw in Hx. revert Hx. in_tac. } apply K1; auto.
          * destruct (IHl H3 Hf2 h2 (handles v ++ F0) h3 None I2 Hrs2 E2) as [[Evs S2] K2].
            inversion E0; subst; clear E0.
            assert (I3 : Inv h3 ((handles v ++ handles_list rs) ++ F0)).
            { eapply Inv_equiv; [|apply S2]. occ_tac. }
            destruct (drop_val_keep h3 v (handles_list rs) F0 I3) as [S3 K3].
            split.
            -- simpl. rewrite Ev, Evs. split; auto.
               apply Step_frame in S2.
               eapply Step_trans; [exact S1|]. eapply Step_trans; [|exact S3].
               eapply Step_equiv; [| |exact S2]. apply in_occ_equiv; occ_tac. occ_tac.
            -- intros w t Iw Hw. apply K3; auto. apply K2. { intros x Hx. apply Iw in Hx. revert Hx. in_tac. } apply K1; auto.
        + destruct (H2 Hf1 rs h0 F0 st h2 None I0 Hrs0 E1) as [[Ev S1] K1].
          inversion E0; subst; clear E0. split; auto. simpl. rewrite Ev. auto. }
    simpl in FR.
    destruct (m_evals rs h es) as [h1 [its|]] eqn:E1.
    + destruct (LIST es H FR h F h1 (Some its) I Hrs E1) as [[ts [Evs [Hits S1]]] K1].
      destruct (alloc h1 KList its) as [h2 l] eqn:EA. inversion E; subst; clear E.
      assert (I1 : Inv h1 ((handles_items its ++ handles_list rs) ++ F)) by apply S1.
      destruct (alloc_step' h1 (handles_list rs) F KList its h' l EA I1) as [S2 B2].
      rewrite Evs. split.
      * exists (VList ts). split; auto. split.
        -- unfold VList. eapply alloc_repr; eauto.
        -- rewrite handles_ref. simpl. eapply Step_trans; eauto.
      * intros w t Iw Hw. eapply repr_ext; [exact B2|]. apply K1; auto.
    + destruct (LIST es H FR h F h1 None I Hrs E1) as [[Evs S1] K1].
      inversion E; subst; clear E. rewrite Evs. split; auto.
  - simpl in FR. discriminate.
  - simpl in FR. discriminate.
Qed.

(* ------------------------------------------------------------------ statements *)
Definition StInv (st : mstate) : Prop := Inv (mheap st) (handles_list (roots st)).
Definition Sim (st : mstate) (sg : state) : Prop := repr_list (mheap st) (roots st) sg.

Lemma repr_list_as_inst h rs sg : repr_list h rs sg <-> repr h (HInst 0 rs) (VInst 0 sg).
Proof. split; intro H; [constructor; auto | inversion H; auto]. Qed.

(* take the content of variable x out of the roots: the rest of the roots is the frame *)
Lemma roots_split x rs cur :
  nth_error rs x = Some cur ->
  forall l, occ l (handles_list rs) = occ l (handles cur) + occ l (handles_list (set_root rs x HNull)).
Proof.
  intros Hx l. pose proof (occ_list_set_field l rs x HNull cur Hx). rewrite handles_null in H.
  unfold set_root. revert H. occ_tac.
Qed.

Lemma roots_put x rs cur cur' :
  nth_error rs x = Some cur ->
  forall l, occ l (handles_list (set_root rs x cur')) = occ l (handles cur') + occ l (handles_list (set_root rs x HNull)).
Proof.
  intros Hx l. pose proof (occ_list_set_field l rs x HNull cur Hx). pose proof (occ_list_set_field l rs x cur' cur Hx).
  rewrite handles_null in H. unfold set_root. revert H H0. occ_tac.
Qed.

Lemma m_assign_to_ok h rs sg every x p w tw st' ok :
  noslice p = true ->
  Inv h (handles w ++ handles_list rs) -> repr_list h rs sg -> repr h w tw ->
  m_assign_to (mkst h rs) every x p w = (st', ok) ->
  exists sg', assign_to sg every x p tw = (sg', ok) /\ StInv st' /\ Sim st' sg'.
Proof.
  intros NS I Hrs Hw E. unfold m_assign_to in E. simpl in E. unfold assign_to.
  destruct (nth_error rs x) as [cur|] eqn:Ex.
  - destruct (repr_list_nth _ _ _ _ _ Hrs Ex) as [tcur [Htc Hcur]]. rewrite Htc.
    destruct (m_set every p (Some w) h cur) as [[h1 cur'] ok1] eqn:ES. inversion E; subst; clear E.
    set (others := handles_list (set_root rs x HNull)).
    assert (I0 : Inv h ((handles cur ++ handles_opt (Some w)) ++ others)).
    { eapply Inv_equiv; [|exact I]. intro l. pose proof (roots_split x rs cur Ex l). simpl. fold others in H. revert H. occ_tac. }
    destruct (m_set_ok every p NS (Some w) (Some tw) h cur tcur others h1 cur' ok I0 Hcur (RO_some _ _ _ Hw) ES)
      as [t' [Ev [Hr' S]]].
    rewrite Ev. eexists; split; [reflexivity|]. split.
    + unfold StInv. simpl. eapply Inv_equiv; [|apply (st_inv _ _ _ _ _ S)].
      intro l. pose proof (roots_put x rs cur cur' Ex l). fold others in H. revert H. occ_tac.
    + unfold Sim. simpl.
      assert (Ho : repr h (HInst 0 (set_root rs x HNull)) (VInst 0 (set_field x VNull sg))).
      { constructor. apply repr_list_set_field; auto. constructor. }
      apply (st_frame _ _ _ _ _ S) in Ho; [|rewrite handles_inst; apply incl_refl].
      inversion Ho; subst.
      match goal with H : repr_list h1 _ _ |- _ => pose proof (repr_list_set_field _ _ _ x _ _ H Hr') as Hx end.
      unfold set_root in Hx. rewrite hset_field_twice, set_field_twice in Hx. exact Hx.
  - inversion E; subst; clear E. rewrite (repr_list_nth_none _ _ _ _ Hrs Ex).
    destruct (drop_val_keep h w (handles_list rs) [] ) as [S K].
    { rewrite app_nil_r. auto. }
    eexists; split; [reflexivity|]. split.
    + unfold StInv. simpl. pose proof (st_inv _ _ _ _ _ S) as I1. rewrite app_nil_r in I1. auto.
    + unfold Sim. simpl. apply repr_list_as_inst. apply K.
      * rewrite handles_inst, app_nil_r. apply incl_refl.
      * apply repr_list_as_inst. auto.
Qed.

Definition sfrag (s : sstmt) : bool :=
  match s with
  | SAssign x p e => noslice p && efrag e
  | _ => false
  end.

Lemma m_exec_s_ok s : sfrag s = true -> forall st sg st' ok,
  StInv st -> Sim st sg -> m_exec_s st s = (st', ok) ->
  exists sg', exec_s sg s = (sg', ok) /\ StInv st' /\ Sim st' sg'.
Proof.
  intros FR st sg st' ok I Hs E. destruct st as [h rs]. unfold StInv, Sim in *. simpl in I, Hs.
  destruct s; simpl in FR; try discriminate.
  - (* x[p] = e *)
    apply andb_prop in FR. destruct FR as [NS FE].
    simpl in E. simpl.
    assert (I0 : Inv h (handles_list rs ++ [])) by (rewrite app_nil_r; auto).
    destruct (m_eval rs h e) as [h1 [w|]] eqn:EE.
    + destruct (m_eval_ok e FE rs h [] sg h1 (Some w) I0 Hs EE) as [[tw [Ev [Hw S]]] K].
      rewrite Ev.
      assert (Hrs1 : repr_list h1 rs sg).
      { apply repr_list_as_inst. apply K. rewrite handles_inst. apply incl_appl, incl_refl. apply repr_list_as_inst; auto. }
      assert (I1 : Inv h1 (handles w ++ handles_list rs)).
      { pose proof (st_inv _ _ _ _ _ S) as I1. rewrite app_nil_r in I1. auto. }
      eapply m_assign_to_ok; eauto.
    + destruct (m_eval_ok e FE rs h [] sg h1 None I0 Hs EE) as [[Ev S] K].
      rewrite Ev. inversion E; subst; clear E. eexists; split; [reflexivity|]. split.
      * unfold StInv. simpl. pose proof (st_inv _ _ _ _ _ S) as I1. rewrite app_nil_r in I1. auto.
      * unfold Sim. simpl. apply repr_list_as_inst. apply K.
        rewrite handles_inst. apply incl_appl, incl_refl. apply repr_list_as_inst; auto.
Qed.

Definition frag (s : stmt) : bool := match s with Simple s => sfrag s | SFor _ _ _ => false end.

Lemma m_exec_ok s : frag s = true -> forall st sg st' ok,
  StInv st -> Sim st sg -> m_exec st s = (st', ok) ->
  exists sg', exec sg s = (sg', ok) /\ StInv st' /\ Sim st' sg'.
Proof. destruct s; simpl; intros FR; [apply m_exec_s_ok; auto | discriminate]. Qed.

(* the trace of the machine and the trace of the value semantics agree, statement by statement *)
Inductive traces_agree : list (mstate * bool) -> list (state * bool) -> Prop :=
| TA_nil : traces_agree [] []
| TA_cons st ok sg tl tl' : StInv st -> Sim st sg -> traces_agree tl tl' ->
                            traces_agree ((st, ok) :: tl) ((sg, ok) :: tl').

Lemma run_refines ops : forallb frag ops = true -> forall st sg,
  StInv st -> Sim st sg -> traces_agree (run_cow st ops) (run_value sg ops).
Proof.
  induction ops as [|s ops IH]; intros FR st sg I Hs; simpl.
  - constructor.
  - simpl in FR. apply andb_prop in FR. destruct FR as [F1 F2].
    destruct (m_exec st s) as [st1 ok] eqn:E.
    destruct (m_exec_ok s F1 st sg st1 ok I Hs E) as [sg1 [Ev [I1 Hs1]]].
    rewrite Ev. simpl. constructor; auto.
Qed.

Lemma init_ok n : StInv (init_state n) /\ Sim (init_state n) (repeat VNull n).
Proof.
  unfold StInv, Sim, init_state. simpl. split.
  - intro l. unfold cnt_of, get_cell, empty_heap, handles_heap. simpl.
    assert (handles_list (repeat HNull n) = []) by (induction n; simpl; auto).
    rewrite H. destruct l; reflexivity.
  - induction n; simpl; constructor; auto. constructor.
Qed.
