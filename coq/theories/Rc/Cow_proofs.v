(* Refinement proofs: the Rc machine of Rc/Cow.v against the value semantics of Rc/ValueSem.v.
   Every operation is specified as a Step (Rc/Heap_proofs.v): with the owned handles Rin and a
   frame F it leaves Inv with the owned handles Rout, keeps the abstraction of everything in the
   frame, mentions no old location that was not mentioned, and the handle values it returns
   stand for the trees the value semantics computes. *)
From Coq Require Import ZArith List Bool Arith Lia.
From NV Require Import Rc.ValueSem Rc.Heap Rc.Cow Rc.Heap_proofs.
Import ListNotations.
Local Open Scope nat_scope.

(* ------------------------------------------------------------------ item lists under repr *)
Lemma repr_items_length h es ts : repr_items h es ts -> length es = length ts.
Proof. induction 1; simpl; auto. Qed.

Lemma repr_items_nth h es ts n e :
  repr_items h es ts -> nth_item n es = Some e -> exists te, nth_item n ts = Some te /\ repr h e te.
Proof.
  intro H. revert n. induction H; intros n Hn; unfold nth_item in *.
  - destruct n; discriminate.
  - destruct n; simpl in *.
    + inversion Hn; subst. eauto.
    + apply IHrepr_items; auto.
Qed.

Lemma repr_items_nth_none h es ts n :
  repr_items h es ts -> nth_item n es = None -> nth_item n ts = None.
Proof.
  intro H. revert n. induction H; intros n Hn; unfold nth_item in *.
  - destruct n; reflexivity.
  - destruct n; simpl in *; [discriminate | apply IHrepr_items; auto].
Qed.

Lemma repr_items_set_nth h es ts n e te :
  repr_items h es ts -> repr h e te -> repr_items h (set_nth n e es) (set_nth n te ts).
Proof.
  intro H. revert n. induction H; intros n He; destruct n; simpl; constructor; auto.
Qed.

Lemma repr_items_find_key h es ts k : repr_items h es ts -> find_key k es = find_key k ts.
Proof. induction 1; simpl; auto. rewrite IHrepr_items. reflexivity. Qed.

Lemma repr_items_app h es ts es' ts' :
  repr_items h es ts -> repr_items h es' ts' -> repr_items h (es ++ es') (ts ++ ts').
Proof. induction 1; simpl; auto. intro. constructor; auto. Qed.

Lemma repr_list_nth h es ts n e :
  repr_list h es ts -> nth_error es n = Some e -> exists te, nth_error ts n = Some te /\ repr h e te.
Proof.
  intro H. revert n. induction H; intros n Hn.
  - destruct n; discriminate.
  - destruct n; simpl in *.
    + inversion Hn; subst. eauto.
    + apply IHrepr_list; auto.
Qed.
Lemma repr_list_nth_none h es ts n :
  repr_list h es ts -> nth_error es n = None -> nth_error ts n = None.
Proof.
  intro H. revert n. induction H; intros n Hn.
  - destruct n; reflexivity.
  - destruct n; simpl in *; [discriminate | apply IHrepr_list; auto].
Qed.

Lemma map_snd_label {A} (l : list A) : map snd (map (fun v => (nokey, v)) l) = l.
Proof. induction l; simpl; congruence. Qed.

Lemma repr_list_set_field h es ts f e te :
  repr_list h es ts -> repr h e te -> repr_list h (hset_field f e es) (set_field f te ts).
Proof.
  unfold hset_field, set_field, unlabelled. intro H. revert f.
  induction H; intros f He; destruct f; simpl; try (constructor; auto).
  rewrite !map_snd_label. auto.
Qed.

Lemma hset_field_twice f a b fs : hset_field f a (hset_field f b fs) = hset_field f a fs.
Proof.
  unfold hset_field. revert f. induction fs as [|y fs IH]; destruct f; simpl; auto.
  - rewrite !map_snd_label. reflexivity.
  - f_equal. apply IH.
Qed.
Lemma set_field_twice f a b fs : set_field f a (set_field f b fs) = set_field f a fs.
Proof.
  unfold set_field, unlabelled. revert f. induction fs as [|y fs IH]; destruct f; simpl; auto.
  - rewrite !map_snd_label. reflexivity.
  - f_equal. apply IH.
Qed.

Lemma handles_items_nth its n e : nth_item n its = Some e -> incl (handles e) (handles_items its).
Proof.
  unfold nth_item, handles_items. revert n. induction its as [|[k y] its IH]; destruct n; simpl; intros H; try discriminate.
  - inversion H; subst. apply incl_appl. apply incl_refl.
  - apply incl_appr. eapply IH; eauto.
Qed.

Lemma handles_list_nth fs n e : nth_error fs n = Some e -> incl (handles e) (handles_list fs).
Proof.
  unfold handles_list. revert n. induction fs as [|y fs IH]; destruct n; simpl; intros H; try discriminate.
  - inversion H; subst. apply incl_appl. apply incl_refl.
  - apply incl_appr. eapply IH; eauto.
Qed.

Lemma occ_list_set_field x fs f e old :
  nth_error fs f = Some old ->
  occ x (handles_list (hset_field f e fs)) + occ x (handles old) = occ x (handles_list fs) + occ x (handles e).
Proof.
  unfold hset_field, handles_list. revert f. induction fs as [|y fs IH]; destruct f; simpl; intros H; try discriminate.
  - inversion H; subst. rewrite !map_snd_label. rewrite !occ_app. lia.
  - rewrite !occ_app. specialize (IH f H). lia.
Qed.

Lemma put_item_eq h l c n e :
  get_cell h l = Some c -> put_item h l n e = set_items h l (set_nth n e (citems c)).
Proof. intro Hc. unfold put_item, set_items. rewrite Hc. reflexivity. Qed.

Lemma items_of_eq h l c : get_cell h l = Some c -> items_of h l = citems c.
Proof. intro H. unfold items_of. rewrite H. reflexivity. Qed.

Lemma cnt_of_cell h l c : get_cell h l = Some c -> cnt_of h l = cnt c.
Proof. intro H. unfold cnt_of. rewrite H. reflexivity. Qed.

Lemma make_mut_unique h l c : get_cell h l = Some c -> cnt c = 1 -> make_mut h l = (h, l).
Proof. intros Hc C. unfold make_mut. rewrite Hc, C. reflexivity. Qed.

Lemma cnt_of_incr_neq h l m : l <> m -> cnt_of (incr h l) m = cnt_of h m.
Proof. intro N. unfold incr. destruct (get_cell h l); auto. apply cnt_of_set_neq; auto. Qed.

Lemma cnt_of_clone_locs_notin ls : forall h m, ~ In m ls -> cnt_of (clone_locs h ls) m = cnt_of h m.
Proof.
  induction ls as [|a ls IH]; intros h m N; simpl; auto.
  rewrite IH; [|intro; apply N; right; auto]. apply cnt_of_incr_neq. intro; subst; apply N; left; auto.
Qed.

Lemma repr_null_inv h v : repr h v VNull -> v = HNull.
Proof. inversion 1; auto. Qed.

Lemma incl_occ_zero x (a b : list loc) : incl a b -> occ x b = 0 -> occ x a = 0.
Proof. intros I H. apply occ_notIn. apply occ_notIn in H. auto. Qed.

(* ------------------------------------------------------------------ frame consequences *)
Lemma Frame_repr h h' F w t : Frame h h' F -> incl (handles w) F -> repr h w t -> repr h' w t.
Proof. intros Fr I H. apply Fr; auto. Qed.

Lemma Step_frame_repr h Rin G F h' Rout w t :
  Step h Rin (G ++ F) h' Rout -> incl (handles w) (G ++ F) -> repr h w t -> repr h' w t.
Proof. intros S I H. eapply (st_frame _ _ _ _ _ S); eauto. Qed.

(* ------------------------------------------------------------------ more transfer lemmas *)
Lemma repr_items_frame h h' l' es ts :
  (forall l, l <> l' -> same_body h h' l) -> occ l' (handles_heap h) = 0 ->
  repr_items h es ts -> ~ In l' (handles_items es) -> repr_items h' es ts.
Proof. intros. eapply (proj1 (proj2 (repr_frame_all h h' l' H H0))); eauto. Qed.
Lemma repr_opt_frame h h' l' o t :
  (forall l, l <> l' -> same_body h h' l) -> occ l' (handles_heap h) = 0 ->
  repr_opt h o t -> ~ In l' (handles_opt o) -> repr_opt h' o t.
Proof. intros. eapply (proj2 (proj2 (proj2 (repr_frame_all h h' l' H H0)))); eauto. Qed.
Lemma repr_items_ext h h' es ts : (forall l, same_body h h' l) -> repr_items h es ts -> repr_items h' es ts.
Proof. intros. eapply (proj1 (proj2 (repr_ext_all h h' H))); eauto. Qed.
Lemma repr_opt_ext h h' o t : (forall l, same_body h h' l) -> repr_opt h o t -> repr_opt h' o t.
Proof. intros. eapply (proj2 (proj2 (proj2 (repr_ext_all h h' H)))); eauto. Qed.
Lemma repr_list_ext h h' es ts : (forall l, same_body h h' l) -> repr_list h es ts -> repr_list h' es ts.
Proof. intros. eapply (proj1 (proj2 (proj2 (repr_ext_all h h' H)))); eauto. Qed.

Lemma repr_items_nth_rev h es ts n t :
  repr_items h es ts -> nth_item n ts = Some t -> exists e, nth_item n es = Some e /\ repr h e t.
Proof.
  intro H. revert n. induction H; intros n Hn; unfold nth_item in *.
  - destruct n; discriminate.
  - destruct n; simpl in *.
    + inversion Hn; subst. eauto.
    + apply IHrepr_items; auto.
Qed.

Lemma set_nth_set_nth {A} (its : list (key * A)) n a b : set_nth n a (set_nth n b its) = set_nth n a its.
Proof. revert n. induction its as [|[k x] its IH]; destruct n; simpl; auto. rewrite IH. reflexivity. Qed.

Lemma nth_item_set_nth_same {A} (its : list (key * A)) n a old :
  nth_item n its = Some old -> nth_item n (set_nth n a its) = Some a.
Proof. apply nth_item_set_nth. Qed.

Lemma set_items_same_body_others h l its m : l <> m -> same_body h (set_items h l its) m.
Proof. intros N c H. exists c. rewrite get_cell_set_items_neq; auto. Qed.

Lemma repr_ref_inv h l d k its dv :
  repr h (HRef l d) (VSeq k its dv) ->
  exists c, get_cell h l = Some c /\ k = ckind c /\ repr_items h (citems c) its /\ repr_opt h d dv.
Proof. inversion 1; subst. eauto. Qed.

Lemma repr_ref_inv_gen h l d t :
  repr h (HRef l d) t ->
  exists c its dv, t = VSeq (ckind c) its dv /\ get_cell h l = Some c /\ repr_items h (citems c) its /\ repr_opt h d dv.
Proof. inversion 1; subst. eauto 8. Qed.

Lemma handles_opt_incl_ref l d : incl (handles_opt d) (handles (HRef l d)).
Proof. rewrite handles_ref. apply incl_tl. apply incl_refl. Qed.

(* after an operation that had l' in its frame and could not reach it, l' is still uniquely held *)
Lemma still_unique h2 Rin l' G h3 Rout :
  Step h2 Rin (l' :: G) h3 Rout -> Inv h2 (Rin ++ l' :: G) -> cnt_of h2 l' = 1 ->
  cnt_of h3 l' = 1 /\ occ l' (handles_heap h3) = 0 /\ occ l' Rout = 0 /\ occ l' G = 0.
Proof.
  intros S I C.
  assert (U : occ l' Rin = 0 /\ occ l' G = 0 /\ occ l' (handles_heap h2) = 0).
  { specialize (I l'). rewrite C in I. revert I. occ_tac. }
  destruct U as [U1 [U2 U3]].
  assert (Hl : l' < length (cells h2)).
  { destruct (cnt_of_pos_cell h2 l') as [c [Hc _]]; [lia|]. eapply get_cell_lt; eauto. }
  assert (N : ~ In l' (Rout ++ handles_heap h3)).
  { intro Hin. apply (st_nonew _ _ _ _ _ S) in Hin; auto. apply in_app_or in Hin.
    destruct Hin as [Hin|Hin]; apply occ_In in Hin; lia. }
  assert (N1 : occ l' Rout = 0) by (apply occ_notIn; intro; apply N; apply in_or_app; auto).
  assert (N2 : occ l' (handles_heap h3) = 0) by (apply occ_notIn; intro; apply N; apply in_or_app; auto).
  pose proof (st_inv _ _ _ _ _ S l') as I3. revert I3. occ_tac.
Qed.

(* ------------------------------------------------------------------ descending through a uniquely owned cell *)
(* make_mut on the handle to l, take item n out of the (now unique) cell *)
Lemma descend_open h l d c k its dv n e G h1 l' :
  Inv h ((l :: handles_opt d) ++ G) ->
  repr h (HRef l d) (VSeq k its dv) ->
  get_cell h l = Some c ->
  nth_item n (citems c) = Some e ->
  make_mut h l = (h1, l') ->
  let h2 := put_item h1 l' n HNull in
  exists te,
    nth_item n its = Some te /\ k = ckind c /\
    repr h2 e te /\
    repr h2 (HRef l' d) (VSeq k (set_nth n VNull its) dv) /\
    cnt_of h2 l' = 1 /\
    Step h (l :: handles_opt d) G h2 (handles e ++ l' :: handles_opt d) /\
    (l' = l \/ (l' = length (cells h) /\ cnt_of h l > 1)).
Proof.
  intros I Hr Hc Hn MM h2.
  destruct (repr_ref_inv _ _ _ _ _ _ Hr) as [c0 [Hc0 [Hk [Hits Hd]]]].
  rewrite Hc in Hc0. inversion Hc0; subst c0. clear Hc0.
  destruct (repr_items_nth _ _ _ _ _ Hits Hn) as [te [Hte Hre]].
  destruct (make_mut_step h (handles_opt d) G l h1 l' I MM) as [S1 [B1 [[c' [c1 [Hc' [Hc1 [K1 [I1 C1]]]]]] Hl']]].
  rewrite Hc in Hc'. inversion Hc'; subst c'. clear Hc'.
  assert (Inv1 : Inv h1 ((l' :: handles_opt d) ++ G)) by apply S1.
  destruct (owned_unique _ _ _ _ _ Inv1 Hc1 C1) as [U1 [U2 U3]].
  assert (Hn1 : nth_item n (citems c1) = Some e) by (rewrite I1; auto).
  assert (E2 : h2 = set_items h1 l' (set_nth n HNull (citems c1))) by (apply put_item_eq; auto).
  assert (S2 : Step h1 (l' :: handles_opt d) G h2 (l' :: handles e ++ handles_opt d)).
  { rewrite E2. eapply set_items_step; eauto. intro x.
    pose proof (occ_items_set_nth x (citems c1) n HNull e Hn1). rewrite handles_null in H. revert H. occ_tac. }
  assert (SBo : forall m, m <> l' -> same_body h1 h2 m).
  { intros m Hm. rewrite E2. apply set_items_same_body_others. auto. }
  assert (Nl'e : ~ In l' (handles_items (citems c1))).
  { intro Hin. apply occ_notIn in U3. apply U3. eapply In_handles_heap; eauto. }
  exists te. split; [auto|]. split; [auto|]. split; [|split; [|split; [|split]]].
  - apply repr_frame with (h := h1) (l' := l'); auto.
    + eapply repr_ext; eauto.
    + intro Hin. apply Nl'e. eapply handles_items_nth; eauto.
  - assert (Hc2 : get_cell h2 l' = Some (mkcell (cnt c1) (ckind c1) (set_nth n HNull (citems c1)))).
    { rewrite E2. apply get_cell_set_items_eq. auto. }
    rewrite Hk, <- K1.
    change (ckind c1) with (ckind (mkcell (cnt c1) (ckind c1) (set_nth n HNull (citems c1)))).
    apply R_ref; auto.
    + simpl. apply repr_items_set_nth; [|constructor].
      apply repr_items_frame with (h := h1) (l' := l'); auto.
      rewrite I1. eapply repr_items_ext; eauto.
    + apply repr_opt_frame with (h := h1) (l' := l'); auto.
      * eapply repr_opt_ext; eauto.
      * apply occ_notIn. auto.
  - rewrite E2. rewrite cnt_of_set_items. unfold cnt_of. rewrite Hc1. auto.
  - eapply Step_equiv; [| |eapply Step_trans; [exact S1 | exact S2]].
    + intro; tauto.
    + occ_tac.
  - exact Hl'.
Qed.

(* put the (possibly replaced) item back *)
Lemma descend_close h2 Rin l' d G h3 Rout k its0 dv n e' te' :
  Step h2 Rin (l' :: handles_opt d ++ G) h3 (handles e' ++ Rout) ->
  Inv h2 (Rin ++ l' :: handles_opt d ++ G) -> cnt_of h2 l' = 1 ->
  repr h2 (HRef l' d) (VSeq k its0 dv) ->
  nth_item n its0 = Some VNull ->
  repr h3 e' te' ->
  let h4 := put_item h3 l' n e' in
  repr h4 (HRef l' d) (VSeq k (set_nth n te' its0) dv) /\
  Step h3 (l' :: handles_opt d ++ handles e' ++ Rout) G h4 (l' :: handles_opt d ++ Rout) /\
  (forall w t, incl (handles w) (Rout ++ G) -> repr h3 w t -> repr h4 w t).
Proof.
  intros S I2 C2 Hr2 Hn0 Hre' h4.
  destruct (still_unique _ _ _ _ _ _ S I2 C2) as [C3 [U3 [U4 U5]]].
  assert (Hr3 : repr h3 (HRef l' d) (VSeq k its0 dv)).
  { eapply (st_frame _ _ _ _ _ S); eauto. rewrite handles_ref. intros x Hx. simpl in Hx.
    destruct Hx; [left; auto | right; apply in_or_app; auto]. }
  destruct (repr_ref_inv _ _ _ _ _ _ Hr3) as [c3 [Hc3 [Hk [Hits Hd]]]].
  assert (Cc3 : cnt c3 = 1) by (unfold cnt_of in C3; rewrite Hc3 in C3; auto).
  destruct (repr_items_nth_rev _ _ _ _ _ Hits Hn0) as [e0 [He0 Hre0]].
  apply repr_null_inv in Hre0. subst e0.
  assert (E4 : h4 = set_items h3 l' (set_nth n e' (citems c3))) by (apply put_item_eq; auto).
  assert (I3 : Inv h3 ((l' :: handles_opt d ++ handles e' ++ Rout) ++ G)).
  { eapply Inv_equiv; [|apply (st_inv _ _ _ _ _ S)]. occ_tac. }
  assert (S4 : Step h3 (l' :: handles_opt d ++ handles e' ++ Rout) G h4 (l' :: handles_opt d ++ Rout)).
  { rewrite E4. eapply set_items_step; eauto. intro x.
    pose proof (occ_items_set_nth x (citems c3) n e' HNull He0). rewrite handles_null in H. revert H. occ_tac. }
  assert (SBo : forall m, m <> l' -> same_body h3 h4 m).
  { intros m Hm. rewrite E4. apply set_items_same_body_others. auto. }
  assert (Ue' : occ l' (handles e') = 0 /\ occ l' Rout = 0) by (apply occ_zero_app; auto).
  destruct Ue' as [Ue' URout].
  assert (Ud : occ l' (handles_opt d) = 0) by (apply occ_zero_app in U5; tauto).
  assert (UG : occ l' G = 0) by (apply occ_zero_app in U5; tauto).
  split; [|split].
  - assert (Hc4 : get_cell h4 l' = Some (mkcell (cnt c3) (ckind c3) (set_nth n e' (citems c3)))).
    { rewrite E4. apply get_cell_set_items_eq. auto. }
    rewrite Hk.
    change (ckind c3) with (ckind (mkcell (cnt c3) (ckind c3) (set_nth n e' (citems c3)))).
    apply R_ref; auto.
    + simpl. apply repr_items_set_nth.
      * apply repr_items_frame with (h := h3) (l' := l'); auto.
        intro Hin. apply occ_notIn in U3. apply U3. eapply In_handles_heap; eauto.
      * apply repr_frame with (h := h3) (l' := l'); auto. apply occ_notIn; auto.
    + apply repr_opt_frame with (h := h3) (l' := l'); auto. apply occ_notIn; auto.
  - exact S4.
  - intros w t Iw Hw. apply repr_frame with (h := h3) (l' := l'); auto.
    intro Hin. apply Iw in Hin. apply in_app_or in Hin. destruct Hin as [Hin|Hin]; apply occ_In in Hin; lia.
Qed.

(* ------------------------------------------------------------------ small steps used by set_index *)
Lemma handles_new_or_null new : handles (new_or_null new) = handles_opt new.
Proof. destruct new; simpl; auto. Qed.

Lemma repr_new_or_null h new tnew :
  repr_opt h new tnew -> repr h (new_or_null new) (match tnew with Some w => w | None => VNull end).
Proof. inversion 1; subst; simpl; auto. constructor. Qed.

Lemma in_occ_equiv (a b : list loc) : (forall l, occ l a = occ l b) -> forall l, In l a <-> In l b.
Proof. intros E l. rewrite !occ_In. rewrite E. tauto. Qed.

Lemma drop_locs_keep h ws R F :
  Inv h ((ws ++ R) ++ F) ->
  Step h (ws ++ R) F (drop_locs h ws) R /\
  (forall w t, incl (handles w) (R ++ F) -> repr h w t -> repr (drop_locs h ws) w t) /\
  length (cells (drop_locs h ws)) = length (cells h).
Proof.
  intro I. destruct (drop_locs_step h ws [] (R ++ F)) as [S L].
  { eapply Inv_equiv; [|exact I]. occ_tac. }
  split; [|split; auto].
  - apply drop_locs_step; auto.
  - intros w t Iw Hw. eapply (st_frame _ _ _ _ _ S); eauto.
Qed.

Lemma drop_val_keep h v R F :
  Inv h ((handles v ++ R) ++ F) ->
  Step h (handles v ++ R) F (drop_val h v) R /\
  (forall w t, incl (handles w) (R ++ F) -> repr h w t -> repr (drop_val h v) w t).
Proof. intro I. destruct (drop_locs_keep h (handles v) R F I) as [S [K _]]. auto. Qed.

Lemma drop_opt_keep h o R F :
  Inv h ((handles_opt o ++ R) ++ F) ->
  Step h (handles_opt o ++ R) F (drop_opt h o) R /\
  (forall w t, incl (handles w) (R ++ F) -> repr h w t -> repr (drop_opt h o) w t).
Proof. intro I. destruct (drop_locs_keep h (handles_opt o) R F I) as [S [K _]]. auto. Qed.

(* a failing set_index: the value is dropped, the slot is what it was *)
Lemma set_fail h cur t new G :
  Inv h ((handles cur ++ handles_opt new) ++ G) -> repr h cur t ->
  repr (drop_opt h new) cur t /\ Step h (handles cur ++ handles_opt new) G (drop_opt h new) (handles cur).
Proof.
  intros I Hr.
  destruct (drop_opt_keep h new (handles cur) G) as [S K].
  { eapply Inv_equiv; [|exact I]. occ_tac. }
  split.
  - apply K; auto. apply incl_appl. apply incl_refl.
  - eapply Step_equiv; [| |exact S]; [|reflexivity]. apply in_occ_equiv. occ_tac.
Qed.

Lemma make_mut_repr h R F l d t h1 l' :
  Inv h ((l :: R) ++ F) -> repr h (HRef l d) t -> make_mut h l = (h1, l') -> repr h1 (HRef l' d) t.
Proof.
  intros I Hr MM.
  destruct (make_mut_step h R F l h1 l' I MM) as [S1 [B1 [[c [c1 [Hc [Hc1 [K1 [I1 C1]]]]]] _]]].
  inversion Hr; subst. rewrite Hc in H1. inversion H1; subst c0. rewrite <- K1.
  apply R_ref; auto.
  - rewrite I1. eapply repr_items_ext; eauto.
  - eapply repr_opt_ext; eauto.
Qed.

Lemma set_fail_mm h l d t new G h1 l' :
  Inv h ((handles (HRef l d) ++ handles_opt new) ++ G) -> repr h (HRef l d) t -> make_mut h l = (h1, l') ->
  repr (drop_opt h1 new) (HRef l' d) t /\
  Step h (handles (HRef l d) ++ handles_opt new) G (drop_opt h1 new) (handles (HRef l' d)).
Proof.
  intros I Hr MM. rewrite !handles_ref in *.
  assert (I' : Inv h ((l :: handles_opt d ++ handles_opt new) ++ G)) by (eapply Inv_equiv; [|exact I]; occ_tac).
  destruct (make_mut_step h _ G l h1 l' I' MM) as [S1 _].
  pose proof (make_mut_repr _ _ _ _ _ _ _ _ I' Hr MM) as Hr1.
  assert (I1 : Inv h1 ((handles (HRef l' d) ++ handles_opt new) ++ G)).
  { rewrite handles_ref. eapply Inv_equiv; [|apply S1]. occ_tac. }
  destruct (set_fail h1 (HRef l' d) t new G I1 Hr1) as [Hr2 S2]. rewrite handles_ref in S2.
  split; auto. eapply Step_trans; [|exact S2].
  eapply Step_equiv; [| |exact S1]. apply in_occ_equiv; occ_tac. occ_tac.
Qed.

Definition is_slice (pe : pelem) : bool := match pe with PSl _ _ => true | _ => false end.
Definition noslice (p : path) : bool := forallb (fun pe => negb (is_slice pe)) p.

(* ------------------------------------------------------------------ writing into a uniquely owned cell *)
Lemma inplace_update h l c A A' its' F :
  Inv h ((l :: A) ++ F) -> get_cell h l = Some c -> cnt c = 1 ->
  (forall x, occ x A + occ x (handles_items (citems c)) = occ x A' + occ x (handles_items its')) ->
  let h2 := set_items h l its' in
  Step h (l :: A) F h2 (l :: A') /\
  get_cell h2 l = Some (mkcell 1 (ckind c) its') /\
  (forall w t, ~ In l (handles w) -> repr h w t -> repr h2 w t) /\
  (forall es ts, ~ In l (handles_items es) -> repr_items h es ts -> repr_items h2 es ts) /\
  (forall o t, ~ In l (handles_opt o) -> repr_opt h o t -> repr_opt h2 o t) /\
  ~ In l (handles_items (citems c)) /\ occ l A = 0 /\ occ l F = 0.
Proof.
  intros I Hc C1 EX h2.
  destruct (owned_unique _ _ _ _ _ I Hc C1) as [U1 [U2 U3]].
  assert (SBo : forall m, m <> l -> same_body h h2 m) by (intros; apply set_items_same_body_others; auto).
  split; [eapply set_items_step; eauto|].
  split; [unfold h2; rewrite (get_cell_set_items_eq _ _ _ _ Hc), C1; reflexivity|].
  split; [intros; eapply repr_frame; eauto|].
  split; [intros; eapply repr_items_frame; eauto|].
  split; [intros; eapply repr_opt_frame; eauto|].
  split; [|auto].
  intro Hin. apply occ_notIn in U3. apply U3. eapply In_handles_heap; eauto.
Qed.

Lemma make_mut_facts h R F l d t h1 l' :
  Inv h ((l :: R) ++ F) -> repr h (HRef l d) t -> make_mut h l = (h1, l') ->
  exists c c1, get_cell h l = Some c /\ get_cell h1 l' = Some c1 /\ ckind c1 = ckind c /\ citems c1 = citems c /\
    cnt c1 = 1 /\ Inv h1 ((l' :: R) ++ F) /\ Step h (l :: R) F h1 (l' :: R) /\
    repr h1 (HRef l' d) t /\ (forall m, same_body h h1 m).
Proof.
  intros I Hr MM.
  destruct (make_mut_step h R F l h1 l' I MM) as [S1 [B1 [[c [c1 [Hc [Hc1 [K1 [I1 C1]]]]]] _]]].
  exists c, c1. split; [auto|]. split; [auto|]. split; [auto|]. split; [auto|]. split; [auto|].
  split; [apply S1|]. split; [auto|]. split; [eapply make_mut_repr; eauto | auto].
Qed.

Lemma handles_items_single k v : handles_items [(k, v)] = handles v.
Proof. unfold handles_items. simpl. apply app_nil_r. Qed.

(* make_mut, overwrite item n with the owned value v, drop what was there *)
Lemma replace_item_ok h l d c its dv n old v tv G h1 l' :
  Inv h ((l :: handles_opt d ++ handles v) ++ G) ->
  repr h (HRef l d) (VSeq (ckind c) its dv) -> repr h v tv ->
  get_cell h l = Some c -> nth_item n (citems c) = Some old -> make_mut h l = (h1, l') ->
  let h3 := drop_val (put_item h1 l' n v) old in
  repr h3 (HRef l' d) (VSeq (ckind c) (set_nth n tv its) dv) /\
  Step h (l :: handles_opt d ++ handles v) G h3 (l' :: handles_opt d).
Proof.
  intros I Hr Hv Hc Hn MM h3.
  destruct (make_mut_facts h _ G l d _ h1 l' I Hr MM) as [c0 [c1 [Hc0 [Hc1 [K1 [I1 [C1 [Inv1 [S1 [Hr1 B1]]]]]]]]]].
  rewrite Hc in Hc0. inversion Hc0; subst c0. clear Hc0.
  assert (Hn1 : nth_item n (citems c1) = Some old) by (rewrite I1; auto).
  assert (E2 : put_item h1 l' n v = set_items h1 l' (set_nth n v (citems c1))) by (apply put_item_eq; auto).
  destruct (inplace_update h1 l' c1 (handles_opt d ++ handles v) (handles old ++ handles_opt d)
              (set_nth n v (citems c1)) G Inv1 Hc1 C1) as [S2 [Hc2 [T1 [T2 [T3 [N1 [U1 U2]]]]]]].
  { intro x. pose proof (occ_items_set_nth x (citems c1) n v old Hn1). revert H. occ_tac. }
  rewrite <- E2 in *. set (h2 := put_item h1 l' n v) in *.
  destruct (repr_ref_inv _ _ _ _ _ _ Hr1) as [c1' [Hc1' [_ [Hits1 Hd1]]]].
  rewrite Hc1 in Hc1'. inversion Hc1'; subst c1'. clear Hc1'.
  apply occ_zero_app in U1. destruct U1 as [Ud Uv].
  assert (Hr2 : repr h2 (HRef l' d) (VSeq (ckind c) (set_nth n tv its) dv)).
  { rewrite <- K1. change (ckind c1) with (ckind (mkcell 1 (ckind c1) (set_nth n v (citems c1)))).
    apply R_ref; auto.
    - simpl. apply repr_items_set_nth.
      + apply T2; auto.
      + apply T1; [apply occ_notIn; auto|]. eapply repr_ext; eauto.
    - apply T3; auto. apply occ_notIn; auto. }
  assert (I2 : Inv h2 ((handles old ++ l' :: handles_opt d) ++ G)).
  { eapply Inv_equiv; [|apply S2]. occ_tac. }
  destruct (drop_val_keep h2 old (l' :: handles_opt d) G I2) as [S3 K3].
  split.
  - apply K3; auto. rewrite handles_ref. apply incl_appl, incl_refl.
  - eapply Step_trans; [exact S1|]. eapply Step_trans; [exact S2|].
    eapply Step_equiv; [| |exact S3]. apply in_occ_equiv; occ_tac. occ_tac.
Qed.

(* make_mut, add an item with the owned value v at the end *)
Lemma add_item_ok h l d c its dv k v tv G h1 l' :
  Inv h ((l :: handles_opt d ++ handles v) ++ G) ->
  repr h (HRef l d) (VSeq (ckind c) its dv) -> repr h v tv ->
  get_cell h l = Some c -> make_mut h l = (h1, l') ->
  let h2 := set_items h1 l' (citems c ++ [(k, v)]) in
  repr h2 (HRef l' d) (VSeq (ckind c) (its ++ [(k, tv)]) dv) /\
  Step h (l :: handles_opt d ++ handles v) G h2 (l' :: handles_opt d).
Proof.
  intros I Hr Hv Hc MM h2.
  destruct (make_mut_facts h _ G l d _ h1 l' I Hr MM) as [c0 [c1 [Hc0 [Hc1 [K1 [I1 [C1 [Inv1 [S1 [Hr1 B1]]]]]]]]]].
  rewrite Hc in Hc0. inversion Hc0; subst c0. clear Hc0.
  destruct (inplace_update h1 l' c1 (handles_opt d ++ handles v) (handles_opt d)
              (citems c ++ [(k, v)]) G Inv1 Hc1 C1) as [S2 [Hc2 [T1 [T2 [T3 [N1 [U1 U2]]]]]]].
  { intro x. rewrite I1, handles_items_app, handles_items_single. occ_tac. }
  fold h2 in S2, Hc2, T1, T2, T3.
  destruct (repr_ref_inv _ _ _ _ _ _ Hr1) as [c1' [Hc1' [_ [Hits1 Hd1]]]].
  rewrite Hc1 in Hc1'. inversion Hc1'; subst c1'. clear Hc1'.
  apply occ_zero_app in U1. destruct U1 as [Ud Uv].
  split.
  - rewrite <- K1. change (ckind c1) with (ckind (mkcell 1 (ckind c1) (citems c ++ [(k, v)]))).
    apply R_ref; auto.
    + simpl. apply repr_items_app.
      * rewrite <- I1. apply T2; auto.
      * constructor; [|constructor]. apply T1; [apply occ_notIn; auto|]. eapply repr_ext; eauto.
    + apply T3; auto. apply occ_notIn; auto.
  - eapply Step_trans; [exact S1|]. exact S2.
Qed.

(* ------------------------------------------------------------------ the recursive step of set_index *)
Definition set_spec (every : bool) (rest : path) : Prop :=
  forall new tnew h cur t G h' cur' ok,
  Inv h ((handles cur ++ handles_opt new) ++ G) -> repr h cur t -> repr_opt h new tnew ->
  m_set every rest new h cur = (h', cur', ok) ->
  exists t', v_set every rest tnew t = (t', ok) /\ repr h' cur' t' /\
             Step h (handles cur ++ handles_opt new) G h' (handles cur').

Lemma repr_opt_frame_step h Rin G F h' Rout o t :
  Step h Rin (G ++ F) h' Rout -> incl (handles_opt o) (G ++ F) -> repr_opt h o t -> repr_opt h' o t.
Proof.
  intros S I H. inversion H; subst; constructor. eapply Step_frame_repr; eauto.
Qed.

Lemma set_descend every rest : set_spec every rest ->
  forall new tnew h l d c its dv n e G h1 l' h3 e' ok,
  Inv h ((handles (HRef l d) ++ handles_opt new) ++ G) ->
  repr h (HRef l d) (VSeq (ckind c) its dv) -> repr_opt h new tnew ->
  get_cell h l = Some c -> nth_item n (citems c) = Some e -> make_mut h l = (h1, l') ->
  m_set every rest new (put_item h1 l' n HNull) e = (h3, e', ok) ->
  exists te te', nth_item n its = Some te /\ v_set every rest tnew te = (te', ok) /\
    repr (put_item h3 l' n e') (HRef l' d) (VSeq (ckind c) (set_nth n te' its) dv) /\
    Step h (handles (HRef l d) ++ handles_opt new) G (put_item h3 l' n e') (handles (HRef l' d)).
Proof.
  intros IHrest new tnew h l d c its dv n e G h1 l' h3 e' ok I Hr Hn Hc Hne MM ER.
  rewrite !handles_ref in *.
  assert (I0 : Inv h ((l :: handles_opt d) ++ handles_opt new ++ G)).
  { eapply Inv_equiv; [|exact I]. occ_tac. }
  destruct (descend_open h l d c (ckind c) its dv n e (handles_opt new ++ G) h1 l' I0 Hr Hc Hne MM)
    as [te [Hte [_ [Hre [Hr2 [C2 [Sopen _]]]]]]].
  set (h2 := put_item h1 l' n HNull) in *.
  assert (Hn2 : repr_opt h2 new tnew).
  { eapply repr_opt_frame_step; eauto. apply incl_appl, incl_refl. }
  assert (I2 : Inv h2 ((handles e ++ handles_opt new) ++ l' :: handles_opt d ++ G)).
  { eapply Inv_equiv; [|apply (st_inv _ _ _ _ _ Sopen)]. occ_tac. }
  destruct (IHrest new tnew h2 e te (l' :: handles_opt d ++ G) h3 e' ok I2 Hre Hn2 ER) as [te' [Ev [Hre' Srec]]].
  assert (Srec' : Step h2 (handles e ++ handles_opt new) (l' :: handles_opt d ++ G) h3 (handles e' ++ [])).
  { rewrite app_nil_r. exact Srec. }
  assert (Hn0 : nth_item n (set_nth n VNull its) = Some VNull) by (eapply nth_item_set_nth; eauto).
  destruct (descend_close h2 _ l' d G h3 [] (ckind c) (set_nth n VNull its) dv n e' te' Srec' I2 C2 Hr2 Hn0 Hre')
    as [Hr4 [Sclose _]].
  rewrite set_nth_set_nth in Hr4. rewrite !app_nil_r in Sclose.
  exists te, te'. split; [auto|]. split; [auto|]. split; [exact Hr4|].
  apply Step_frame in Sopen.
  assert (Srec2 : Step h2 (handles e ++ handles_opt new) ((l' :: handles_opt d) ++ G) h3 (handles e')) by exact Srec.
  apply Step_frame in Srec2.
  eapply Step_trans; [|eapply Step_trans; [|exact Sclose]].
  - eapply Step_equiv; [| |exact Sopen]; [intro; tauto|]. intro x. reflexivity.
  - eapply Step_equiv; [| |exact Srec2].
    + apply in_occ_equiv. occ_tac.
    + occ_tac.
Qed.

(* ------------------------------------------------------------------ `every` over a slice: the same step, item by item *)
Lemma upd_range_zero {A} (g : A -> A * bool) its i : upd_range g its i 0 = (its, true).
Proof.
  revert i. induction its as [|[k a] tl IH]; intro i; simpl; auto.
  destruct i; auto. rewrite IH. reflexivity.
Qed.

Lemma upd_range_step {A} (g : A -> A * bool) its i c :
  upd_range g its i (S c) =
  match nth_item i its with
  | None => (its, true)
  | Some a => let (a', ok) := g a in
              if ok then upd_range g (set_nth i a' its) (S i) c else (set_nth i a' its, false)
  end.
Proof.
  revert i. induction its as [|[k a] tl IH]; intro i.
  - destruct i; reflexivity.
  - destruct i.
    + simpl. unfold nth_item. simpl. destruct (g a) as [a' ok]. destruct ok; auto.
    + simpl. rewrite IH. unfold nth_item. simpl. destruct (nth_error tl i) as [[k0 a0]|]; auto.
      destruct (g a0) as [a' ok]. destruct ok; auto.
Qed.

Lemma m_range_ok every rest : set_spec every rest ->
  forall new tnew cnt i h l d k its dv G h' ok,
  Inv h ((l :: handles_opt d ++ handles_opt new) ++ G) ->
  repr h (HRef l d) (VSeq k its dv) -> repr_opt h new tnew -> cnt_of h l = 1 ->
  m_range (fun h e => m_set every rest new (clone_locs h (handles_opt new)) e) h l i cnt = (h', ok) ->
  exists its', upd_range (v_set every rest tnew) its i cnt = (its', ok) /\
    repr h' (HRef l d) (VSeq k its' dv) /\
    Step h (l :: handles_opt d ++ handles_opt new) G h' (l :: handles_opt d ++ handles_opt new) /\
    cnt_of h' l = 1 /\ repr_opt h' new tnew.
Proof.
  intros IHrest new tnew cnt. induction cnt as [|c IHc]; intros i h l d k its dv G h' ok I Hr Hn C1 E.
  - simpl in E. inversion E; subst. exists its. rewrite upd_range_zero. split; auto. split; auto. split; auto.
    apply Step_refl; auto.
  - simpl in E. rewrite upd_range_step.
    destruct (repr_ref_inv _ _ _ _ _ _ Hr) as [c0 [Hc0 [Kc0 [Hits Hd]]]]. subst k.
    rewrite (items_of_eq _ _ _ Hc0) in E.
    destruct (nth_item i (citems c0)) as [e|] eqn:Ne.
    2: { inversion E; subst. rewrite (repr_items_nth_none _ _ _ _ Hits Ne). exists its. split; auto. split; auto.
         split; auto. apply Step_refl; auto. }
    assert (Cc0 : cnt c0 = 1) by (rewrite (cnt_of_cell _ _ _ Hc0) in C1; auto).
    pose proof (make_mut_unique h l c0 Hc0 Cc0) as MM.
    assert (I0 : Inv h ((l :: handles_opt d) ++ handles_opt new ++ G)) by (eapply Inv_equiv; [|exact I]; occ_tac).
    destruct (descend_open h l d c0 (ckind c0) its dv i e (handles_opt new ++ G) h l I0 Hr Hc0 Ne MM)
      as [te [Hte [_ [Hre [Hr1 [C1' [Sopen _]]]]]]].
    set (h1 := put_item h l i HNull) in *.
    assert (Hn1 : repr_opt h1 new tnew) by (eapply repr_opt_frame_step; eauto; apply incl_appl, incl_refl).
    (* value.clone() for this element *)
    assert (I1 : Inv h1 ((handles e ++ handles_opt new) ++ l :: handles_opt d ++ G)).
    { eapply Inv_equiv; [|apply (st_inv _ _ _ _ _ Sopen)]. occ_tac. }
    destruct (clone_locs_step (handles_opt new) h1 (handles e ++ handles_opt new) (l :: handles_opt d ++ G) I1) as [S2 [B2 L2]].
    { intros x Hx. apply in_or_app. left. apply in_or_app. auto. }
    set (h1c := clone_locs h1 (handles_opt new)) in *.
    assert (U1 : occ l (handles_opt new) = 0).
    { destruct (repr_ref_inv _ _ _ _ _ _ Hr1) as [c1 [Hc1 _]].
      assert (Cc1 : cnt c1 = 1) by (rewrite (cnt_of_cell _ _ _ Hc1) in C1'; auto).
      assert (Ix : Inv h1 ((l :: handles e ++ handles_opt new ++ handles_opt d) ++ G)).
      { eapply Inv_equiv; [|exact I1]. occ_tac. }
      destruct (owned_unique _ _ _ _ _ Ix Hc1 Cc1) as [U _]. apply occ_zero_app in U. destruct U as [_ U].
      apply occ_zero_app in U. tauto. }
    assert (C1c : cnt_of h1c l = 1).
    { unfold h1c. rewrite cnt_of_clone_locs_notin; auto. apply occ_notIn; auto. }
    fold h1 in E. fold h1c in E.
    destruct (m_set every rest new h1c e) as [[h2 e'] ok1] eqn:ER.
    assert (I1c : Inv h1c ((handles e ++ handles_opt new) ++ l :: handles_opt d ++ handles_opt new ++ G)).
    { eapply Inv_equiv; [|apply S2]. occ_tac. }
    assert (Hre_c : repr h1c e te) by (eapply repr_ext; eauto).
    assert (Hn1c : repr_opt h1c new tnew) by (eapply repr_opt_ext; eauto).
    destruct (IHrest new tnew h1c e te _ h2 e' ok1 I1c Hre_c Hn1c ER) as [te' [Ev [Hre' Srec]]].
    rewrite Hte, Ev.
    assert (Srec' : Step h1c (handles e ++ handles_opt new) (l :: handles_opt d ++ handles_opt new ++ G) h2 (handles e' ++ [])).
    { rewrite app_nil_r. exact Srec. }
    assert (Hr1c : repr h1c (HRef l d) (VSeq (ckind c0) (set_nth i VNull its) dv)) by (eapply repr_ext; eauto).
    assert (Hn0 : nth_item i (set_nth i VNull its) = Some VNull) by (eapply nth_item_set_nth; eauto).
    destruct (descend_close h1c _ l d (handles_opt new ++ G) h2 [] (ckind c0) (set_nth i VNull its) dv i e' te' Srec' I1c C1c Hr1c Hn0 Hre')
      as [Hr3 [Sclose K3]].
    rewrite set_nth_set_nth in Hr3. rewrite !app_nil_r in Sclose.
    set (h3 := put_item h2 l i e') in *.
    destruct (still_unique _ _ _ _ _ _ Srec' I1c C1c) as [C2 _].
    assert (C3 : cnt_of h3 l = 1).
    { unfold h3, put_item. destruct (get_cell h2 l) as [c2|] eqn:Hc2; auto.
      rewrite (cnt_of_cell _ _ _ Hc2) in C2. erewrite cnt_of_set_eq; eauto. }
    assert (Hn3 : repr_opt h3 new tnew).
    { inversion Hn1c; subst; constructor. apply K3. { simpl. apply incl_appl, incl_refl. }
      eapply (st_frame _ _ _ _ _ Srec); eauto. apply incl_tl. apply incl_appr, incl_appl, incl_refl. }
    (* the step as a whole *)
    assert (S13 : Step h (l :: handles_opt d ++ handles_opt new) G h3 (l :: handles_opt d ++ handles_opt new)).
    { apply Step_frame in Sopen.
      assert (S2' : Step h1 (handles e ++ handles_opt new) ((l :: handles_opt d) ++ G) h1c (handles_opt new ++ handles e ++ handles_opt new)) by exact S2.
      apply Step_frame in S2'.
      assert (Srec2 : Step h1c (handles e ++ handles_opt new) ((l :: handles_opt d ++ handles_opt new) ++ G) h2 (handles e')).
      { simpl. rewrite <- app_assoc. exact Srec. }
      apply Step_frame in Srec2.
      apply Step_frame in Sclose.
      eapply Step_trans; [eapply Step_equiv; [| |exact Sopen]|]. apply in_occ_equiv; occ_tac. intro; reflexivity.
      eapply Step_trans; [eapply Step_equiv; [| |exact S2']|]. apply in_occ_equiv; occ_tac. intro; reflexivity.
      eapply Step_trans; [eapply Step_equiv; [| |exact Srec2]|]. apply in_occ_equiv; occ_tac. intro; reflexivity.
      eapply Step_equiv; [| |exact Sclose]. apply in_occ_equiv; occ_tac. occ_tac. }
    destruct ok1.
    + assert (I3 : Inv h3 ((l :: handles_opt d ++ handles_opt new) ++ G)) by apply S13.
      destruct (IHc (S i) h3 l d (ckind c0) (set_nth i te' its) dv G h' ok I3 Hr3 Hn3 C3 E) as [its' [Eu [Hr' [S' [C' Hn']]]]].
      exists its'. split; auto. split; auto. split; auto. eapply Step_trans; eauto.
    + inversion E; subst; clear E. exists (set_nth i te' its). split; auto.
Qed.

(* ------------------------------------------------------------------ element writes into vectors, bytes, strings *)
Lemma norm_index_lt len z n : norm_index len z = Some n -> n < len.
Proof.
  unfold norm_index. destruct ((0 <=? z)%Z && (z <? Z.of_nat len)%Z) eqn:E1.
  - intro H; inversion H; subst. apply andb_prop in E1. destruct E1 as [A B].
    apply Z.leb_le in A. apply Z.ltb_lt in B. lia.
  - destruct ((z <? 0)%Z && (0 <=? z + Z.of_nat len)%Z) eqn:E2; [|discriminate].
    intro H; inversion H; subst. apply andb_prop in E2. destruct E2 as [A B].
    apply Z.ltb_lt in A. apply Z.leb_le in B. lia.
Qed.

Lemma leaf_index_lt pe len n : leaf_index pe len = Some n -> n < len.
Proof. destruct pe; simpl; try discriminate. apply norm_index_lt. Qed.

Lemma nth_item_lt {A} (its : list (key * A)) n : n < length its -> exists a, nth_item n its = Some a.
Proof.
  unfold nth_item. intro H. destruct (nth_error its n) as [[k a]|] eqn:E; eauto.
  apply nth_error_None in E. lia.
Qed.

Lemma set_noop h cur new G :
  handles_opt new = [] -> Inv h ((handles cur ++ handles_opt new) ++ G) ->
  Step h (handles cur ++ handles_opt new) G h (handles cur).
Proof. intros E I. rewrite E in *. rewrite app_nil_r in *. apply Step_refl; auto. Qed.

Lemma set_leaf_num_ok (g : Z -> bool) h l d c its dv pe new tnew G h' cur' ok :
  Inv h ((handles (HRef l d) ++ handles_opt new) ++ G) ->
  repr h (HRef l d) (VSeq (ckind c) its dv) -> repr_opt h new tnew -> get_cell h l = Some c ->
  match new with
  | Some (HInt n) =>
    match leaf_index pe (length (citems c)) with
    | Some i =>
      match nth_item i (citems c) with
      | Some old => if g n then let '(h1, l') := make_mut h l in (drop_val (put_item h1 l' i (HInt n)) old, HRef l' d, true)
                    else (h, HRef l d, false)
      | None => (h, HRef l d, false)
      end
    | None => (h, HRef l d, false)
    end
  | Some w => (drop_val h w, HRef l d, false)
  | None => (h, HRef l d, true)
  end = (h', cur', ok) ->
  exists t',
    match tnew with
    | Some (VInt n) => match leaf_index pe (length its) with
                       | Some i => if g n then (VSeq (ckind c) (set_nth i (VInt n) its) dv, true)
                                   else (VSeq (ckind c) its dv, false)
                       | None => (VSeq (ckind c) its dv, false)
                       end
    | Some _ => (VSeq (ckind c) its dv, false)
    | None => (VSeq (ckind c) its dv, true)
    end = (t', ok) /\ repr h' cur' t' /\
    Step h (handles (HRef l d) ++ handles_opt new) G h' (handles cur').
Proof.
  intros I Hr Hn Hc E.
  destruct (repr_ref_inv _ _ _ _ _ _ Hr) as [c0 [Hc0 [_ [Hits Hd]]]].
  rewrite Hc in Hc0. inversion Hc0; subst c0. clear Hc0.
  pose proof (repr_items_length _ _ _ Hits) as Hlen.
  inversion Hn as [|w tw Hw]; subst.
  - (* drop_lhs: nothing to do *)
    inversion E; subst. eexists; split; [reflexivity|]. split; auto. apply set_noop; auto.
  - destruct w as [|n| |]; inversion Hw; subst;
      try (inversion E; subst; destruct (set_fail h (HRef l d) _ (Some _) G I Hr); eauto; fail).
    rewrite <- Hlen.
    destruct (leaf_index pe (length (citems c))) as [i|] eqn:LI.
    2: { inversion E; subst. eexists; split; [reflexivity|]. split; auto. apply set_noop; auto. }
    destruct (nth_item_lt (citems c) i (leaf_index_lt _ _ _ LI)) as [old Ho]. rewrite Ho in E.
    destruct (g n).
    2: { inversion E; subst. eexists; split; [reflexivity|]. split; auto. apply set_noop; auto. }
    destruct (make_mut h l) as [h1 l'] eqn:MM. inversion E; subst; clear E.
    assert (I' : Inv h ((l :: handles_opt d ++ handles (HInt n)) ++ G)).
    { rewrite handles_int. rewrite handles_ref in I. simpl in I. eapply Inv_equiv; [|exact I]. occ_tac. }
    destruct (replace_item_ok h l d c its dv i old (HInt n) (VInt n) G h1 l' I' Hr Hw Hc Ho MM) as [Hr3 S3].
    eexists; split; [reflexivity|]. split; [exact Hr3|].
    rewrite !handles_ref. rewrite handles_int in S3. simpl.
    eapply Step_equiv; [| |exact S3]. apply in_occ_equiv; occ_tac. occ_tac.
Qed.

Lemma hstr_repr h w tw :
  repr h w tw ->
  (is_hstr h w = false -> str1 tw = None) /\
  match hstr1 h w with
  | Some b => is_hstr h w = true /\ exists z, b = HInt z /\ str1 tw = Some (VInt z)
  | None => str1 tw = None
  end.
Proof.
  intro Hr. destruct w as [|z|l0 d0|sid fs]; inversion Hr; subst; simpl; auto.
  match goal with H : get_cell _ _ = Some _ |- _ => rewrite H end.
  match goal with H : repr_items _ (citems _) _ |- _ => rename H into Hits end.
  destruct (ckind c) eqn:K; simpl; auto.
  split; [discriminate|].
  destruct (citems c) as [|[k e] tl]; inversion Hits; subst; [reflexivity|].
  match goal with H : repr h e _ |- _ => rename H into He end.
  match goal with H : repr_items h tl _ |- _ => rename H into Htl end.
  destruct e; inversion He; subst; destruct tl; inversion Htl; subst; simpl; eauto.
Qed.

Lemma set_leaf_str_ok h l d c its dv pe new tnew G h' cur' ok :
  Inv h ((handles (HRef l d) ++ handles_opt new) ++ G) ->
  repr h (HRef l d) (VSeq (ckind c) its dv) -> repr_opt h new tnew -> get_cell h l = Some c ->
  match new with
  | Some w =>
    if is_hstr h w then
      let '(h1, l') := make_mut h l in
      match hstr1 h w with
      | Some b =>
        match leaf_index pe (length (citems c)) with
        | Some n =>
          match nth_item n (citems c) with
          | Some old => (drop_val (drop_val (put_item h1 l' n b) old) w, HRef l' d, true)
          | None => (drop_val h1 w, HRef l' d, false)
          end
        | None => (drop_val h1 w, HRef l' d, false)
        end
      | None => (drop_val h1 w, HRef l' d, false)
      end
    else (drop_val h w, HRef l d, false)
  | None => (h, HRef l d, true)
  end = (h', cur', ok) ->
  exists t',
    match tnew with
    | Some w =>
      match str1 w with
      | Some b => match leaf_index pe (length its) with
                  | Some n => (VSeq (ckind c) (set_nth n b its) dv, true)
                  | None => (VSeq (ckind c) its dv, false)
                  end
      | None => (VSeq (ckind c) its dv, false)
      end
    | None => (VSeq (ckind c) its dv, true)
    end = (t', ok) /\ repr h' cur' t' /\
    Step h (handles (HRef l d) ++ handles_opt new) G h' (handles cur').
Proof.
  intros I Hr Hn Hc E.
  destruct (repr_ref_inv _ _ _ _ _ _ Hr) as [c0 [Hc0 [_ [Hits Hd]]]].
  rewrite Hc in Hc0. inversion Hc0; subst c0. clear Hc0.
  pose proof (repr_items_length _ _ _ Hits) as Hlen.
  inversion Hn as [|w tw Hw]; subst.
  - inversion E; subst. eexists; split; [reflexivity|]. split; auto. apply set_noop; auto.
  - destruct (hstr_repr h w tw Hw) as [HS1 HS2].
    destruct (is_hstr h w) eqn:IS.
    2: { inversion E; subst. rewrite (HS1 eq_refl). destruct (set_fail h (HRef l d) _ (Some w) G I Hr); eauto. }
    destruct (make_mut h l) as [h1 l'] eqn:MM.
    assert (FMM : (h', cur', ok) = (drop_val h1 w, HRef l' d, false) ->
                  exists t', (VSeq (ckind c) its dv, false) = (t', ok) /\ repr h' cur' t' /\
                             Step h (handles (HRef l d) ++ handles_opt (Some w)) G h' (handles cur')).
    { intro E1. inversion E1; subst. destruct (set_fail_mm h l d _ (Some w) G h1 l' I Hr MM); eauto. }
    destruct (hstr1 h w) as [b|] eqn:H1.
    2: { rewrite HS2. apply FMM. auto. }
    destruct HS2 as [_ [z [Eb Es]]]. subst b. rewrite Es. rewrite <- Hlen.
    destruct (leaf_index pe (length (citems c))) as [n|] eqn:LI; [|apply FMM; auto].
    destruct (nth_item_lt (citems c) n (leaf_index_lt _ _ _ LI)) as [old Ho]. rewrite Ho in E.
    inversion E; subst; clear E. clear FMM.
    simpl handles_opt in *.
    assert (I' : Inv h ((l :: handles_opt d ++ handles (HInt z)) ++ handles w ++ G)).
    { rewrite handles_int. rewrite handles_ref in I. eapply Inv_equiv; [|exact I]. occ_tac. }
    assert (Hz : repr h (HInt z) (VInt z)) by constructor.
    destruct (replace_item_ok h l d c its dv n old (HInt z) (VInt z) (handles w ++ G) h1 l' I' Hr Hz Hc Ho MM) as [Hr3 S3].
    set (h3 := drop_val (put_item h1 l' n (HInt z)) old) in *.
    rewrite handles_int in S3.
    assert (I3 : Inv h3 ((handles w ++ l' :: handles_opt d) ++ G)).
    { eapply Inv_equiv; [|apply S3]. occ_tac. }
    destruct (drop_val_keep h3 w (l' :: handles_opt d) G I3) as [S4 K4].
    eexists; split; [reflexivity|]. split.
    + apply K4; auto. rewrite handles_ref. apply incl_appl, incl_refl.
    + rewrite !handles_ref. apply Step_frame in S3.
      eapply Step_trans; [|exact S4].
      eapply Step_equiv; [| |exact S3]. apply in_occ_equiv; occ_tac. occ_tac.
Qed.

(* ------------------------------------------------------------------ set_index refines v_set *)
Lemma set_spec_nil every : set_spec every [].
Proof.
  intros new tnew h cur t G h' cur' ok I Hr Hn E.
  simpl in E. unfold m_set_here in E. inversion E; subst; clear E. simpl.
  destruct (drop_val_keep h cur (handles_opt new) G I) as [S K].
  eexists; split; [reflexivity|]. split.
  - apply K. rewrite handles_new_or_null. apply incl_appl, incl_refl.
    apply repr_new_or_null; auto.
  - rewrite handles_new_or_null. exact S.
Qed.

Lemma upd_range_all {A} (w : A) its :
  upd_range (fun _ => (w, true)) its 0 (length its) = (map (fun kv => (fst kv, w)) its, true).
Proof.
  induction its as [|[k a] tl IH]; simpl; auto. rewrite IH. reflexivity.
Qed.

Opaque slice_bounds.
Lemma m_set_ok_all every p : forall new tnew h cur t G h' cur' ok,
  Inv h ((handles cur ++ handles_opt new) ++ G) -> repr h cur t -> repr_opt h new tnew ->
  m_set every p new h cur = (h', cur', ok) ->
  exists t', v_set every p tnew t = (t', ok) /\ repr h' cur' t' /\
             Step h (handles cur ++ handles_opt new) G h' (handles cur').
Proof.
  induction p as [|pe rest IH]; intros new tnew h cur t G h' cur' ok I Hr Hn E.
  - (* the slot itself *)
    simpl in E. unfold m_set_here in E. inversion E; subst; clear E. simpl.
    destruct (drop_val_keep h cur (handles_opt new) G I) as [S K].
    eexists; split; [reflexivity|]. split.
    + apply K. rewrite handles_new_or_null. apply incl_appl, incl_refl.
      apply repr_new_or_null; auto.
    + rewrite handles_new_or_null. exact S.
  - destruct cur as [| z | l d | sid fields].
    + (* null *) simpl in E. inversion E; subst; clear E. inversion Hr; subst. simpl.
      destruct (set_fail h HNull VNull new G I Hr). eauto.
    + simpl in E. inversion E; subst; clear E. inversion Hr; subst. simpl.
      destruct (set_fail h (HInt z) (VInt z) new G I Hr). eauto.
    + (* a handle to a payload *)
      destruct (repr_ref_inv_gen _ _ _ _ Hr) as [c [its [dv [Ht [Hc [Hits Hd]]]]]]. subst t.
      pose proof (repr_items_length _ _ _ Hits) as Hlen.
      assert (FAILMM : forall h1 l', make_mut h l = (h1, l') ->
                (h', cur', ok) = (drop_opt h1 new, HRef l' d, false) ->
                v_set every (pe :: rest) tnew (VSeq (ckind c) its dv) = (VSeq (ckind c) its dv, false) ->
                exists t', v_set every (pe :: rest) tnew (VSeq (ckind c) its dv) = (t', ok) /\ repr h' cur' t' /\
                           Step h (handles (HRef l d) ++ handles_opt new) G h' (handles cur')).
      { intros h1 l' MM E1 E2. inversion E1; subst; clear E1.
        destruct (set_fail_mm h l d _ new G h1 l' I Hr MM). eauto. }
      assert (FAIL : (h', cur', ok) = (drop_opt h new, HRef l d, false) ->
                v_set every (pe :: rest) tnew (VSeq (ckind c) its dv) = (VSeq (ckind c) its dv, false) ->
                exists t', v_set every (pe :: rest) tnew (VSeq (ckind c) its dv) = (t', ok) /\ repr h' cur' t' /\
                           Step h (handles (HRef l d) ++ handles_opt new) G h' (handles cur')).
      { intros E1 E2. inversion E1; subst; clear E1.
        destruct (set_fail h (HRef l d) _ new G I Hr). eauto. }
      simpl in E. rewrite Hc in E.
      destruct (ckind c) eqn:K.
      * (* list *)
        destruct pe as [z | bs | sid' f | lo hi].
        4: { (* every x[lo:hi]... = v *)
          assert (VS : v_set every (PSl lo hi :: rest) tnew (VSeq KList its dv) =
                       if every then
                         let (a, b) := slice_bounds (length its) lo hi in
                         let (items', ok) := upd_range (v_set every rest tnew) its a (b - a) in (VSeq KList items' dv, ok)
                       else (VSeq KList its dv, false)) by reflexivity.
          destruct every.
          2: { apply FAIL; [symmetry; exact E | reflexivity]. }
          rewrite VS. clear VS.
          destruct (make_mut h l) as [h1 l'] eqn:MM. rewrite <- Hlen.
          destruct (slice_bounds (length (citems c)) lo hi) as [a b].
          destruct (m_range (fun h e => m_set true rest new (clone_locs h (handles_opt new)) e) h1 l' a (b - a)) as [h2 ok2] eqn:EM.
          inversion E; subst; clear E.
          rewrite handles_ref in I.
          assert (I' : Inv h ((l :: handles_opt d ++ handles_opt new) ++ G)) by (eapply Inv_equiv; [|exact I]; occ_tac).
          destruct (make_mut_facts h _ G l d _ h1 l' I' Hr MM) as [c0 [c1 [Hc0 [Hc1 [K1 [I1 [C1 [Inv1 [S1 [Hr1 B1]]]]]]]]]].
          assert (Hn1 : repr_opt h1 new tnew) by (eapply repr_opt_ext; eauto).
          assert (Cl' : cnt_of h1 l' = 1) by (rewrite (cnt_of_cell _ _ _ Hc1); auto).
          destruct (m_range_ok true rest IH new tnew (b - a) a h1 l' d KList its dv G h2 ok Inv1 Hr1 Hn1 Cl' EM)
            as [its' [Eu [Hr2 [S2 [C2 Hn2]]]]].
          rewrite Eu.
          assert (I2 : Inv h2 ((handles_opt new ++ l' :: handles_opt d) ++ G)).
          { eapply Inv_equiv; [|apply S2]. occ_tac. }
          destruct (drop_opt_keep h2 new (l' :: handles_opt d) G I2) as [S3 K3].
          eexists; split; [reflexivity|]. split.
          - apply K3; auto. rewrite handles_ref. apply incl_appl, incl_refl.
          - rewrite !handles_ref.
            eapply Step_trans; [eapply Step_equiv; [| |exact S1]|]. apply in_occ_equiv; occ_tac. intro; reflexivity.
            eapply Step_trans; [exact S2|].
            eapply Step_equiv; [| |exact S3]. apply in_occ_equiv; occ_tac. occ_tac. }
        -- destruct (make_mut h l) as [h1 l'] eqn:MM.
           destruct (norm_index (length (citems c)) z) as [n|] eqn:NI.
           2: { eapply FAILMM; eauto. simpl. rewrite <- Hlen, NI. reflexivity. }
           destruct (nth_item n (citems c)) as [e|] eqn:Ne.
           2: { eapply FAILMM; eauto. simpl. rewrite <- Hlen, NI.
                rewrite (repr_items_nth_none _ _ _ _ Hits Ne). reflexivity. }
           destruct (m_set every rest new (put_item h1 l' n HNull) e) as [[h3 e'] ok1] eqn:ER.
           inversion E; subst; clear E.
           rewrite <- K in Hr.
           destruct (set_descend every rest IH new tnew h l d c its dv n e G h1 l' h3 e' ok I Hr Hn Hc Ne MM ER)
             as [te [te' [Hte [Ev [Hr4 S]]]]].
           rewrite K in Hr4.
           exists (VSeq KList (set_nth n te' its) dv). split; [|split; auto].
           simpl. rewrite <- Hlen, NI, Hte, Ev. reflexivity.
        -- destruct (make_mut h l) as [h1 l'] eqn:MM. eapply FAILMM; eauto.
        -- destruct (make_mut h l) as [h1 l'] eqn:MM. eapply FAILMM; eauto.
      * (* dict *)
        assert (I' : Inv h ((l :: handles_opt d ++ handles (new_or_null new)) ++ G)).
        { rewrite handles_new_or_null. rewrite handles_ref in I. eapply Inv_equiv; [|exact I]. occ_tac. }
        pose proof (repr_new_or_null _ _ _ Hn) as Hv.
        rewrite <- K in Hr.
        assert (DK : forall k, key_of_pelem pe = Some k -> is_slice pe = false ->
          (let '(h1, l') := make_mut h l in
              match rest with
              | [] =>
                match find_key k (citems c) with
                | Some n =>
                  match nth_item n (citems c) with
                  | Some old => (drop_val (put_item h1 l' n (new_or_null new)) old, HRef l' d, true)
                  | None => (drop_opt h1 new, HRef l' d, false)
                  end
                | None => (set_items h1 l' (citems c ++ [(k, new_or_null new)]), HRef l' d, true)
                end
              | _ =>
                match find_key k (citems c) with
                | Some n =>
                  match nth_item n (citems c) with
                  | Some e =>
                    let h2 := put_item h1 l' n HNull in
                    let '(h3, e', ok) := m_set every rest new h2 e in
                    (put_item h3 l' n e', HRef l' d, ok)
                  | None => (drop_opt h1 new, HRef l' d, false)
                  end
                | None => (drop_opt h1 new, HRef l' d, false)
                end
              end) = (h', cur', ok) ->
          exists t', v_set every (pe :: rest) tnew (VSeq KDict its dv) = (t', ok) /\ repr h' cur' t' /\
                     Step h (handles (HRef l d) ++ handles_opt new) G h' (handles cur')).
        { intros k Hk Hsl E1. destruct (make_mut h l) as [h1 l'] eqn:MM.
          assert (VS : v_set every (pe :: rest) tnew (VSeq KDict its dv) =
                       match rest with
                       | [] => (VSeq KDict (put_key k (match tnew with Some w => w | None => VNull end) its) dv, true)
                       | _ => match find_key k its with
                              | Some n => match nth_item n its with
                                          | Some e => let (e', ok) := v_set every rest tnew e in (VSeq KDict (set_nth n e' its) dv, ok)
                                          | None => (VSeq KDict its dv, false)
                                          end
                              | None => (VSeq KDict its dv, false)
                              end
                       end).
          { destruct pe; simpl in Hk, Hsl; try discriminate; inversion Hk; subst; simpl; reflexivity. }
          rewrite VS. rewrite <- (repr_items_find_key _ _ _ k Hits).
          destruct rest as [|pe2 rest2].
          - (* insert / replace at the last level *)
            unfold put_key. rewrite <- (repr_items_find_key _ _ _ k Hits).
            destruct (find_key k (citems c)) as [n|] eqn:FK.
            + destruct (nth_item n (citems c)) as [old|] eqn:No.
              * inversion E1; subst; clear E1.
                destruct (replace_item_ok h l d c its dv n old _ _ G h1 l' I' Hr Hv Hc No MM) as [Hr3 S3].
                rewrite K in Hr3. eexists; split; [reflexivity|]. split; [exact Hr3|].
                rewrite !handles_ref. rewrite handles_new_or_null in S3.
                eapply Step_equiv; [| |exact S3]. apply in_occ_equiv; occ_tac. occ_tac.
              * exfalso. clear - FK No. revert n FK No. induction (citems c) as [|[k0 x] tl IHl]; intros n FK No; simpl in FK.
                -- discriminate.
                -- destruct (key_eqb k k0). inversion FK; subst. discriminate.
                   destruct (find_key k tl) eqn:F2; [|discriminate]. inversion FK; subst. unfold nth_item in *. simpl in No.
                   eapply IHl; eauto.
            + inversion E1; subst; clear E1.
              destruct (add_item_ok h l d c its dv k _ _ G h1 l' I' Hr Hv Hc MM) as [Hr3 S3].
              rewrite K in Hr3. eexists; split; [reflexivity|]. split; [exact Hr3|].
              rewrite !handles_ref. rewrite handles_new_or_null in S3.
              eapply Step_equiv; [| |exact S3]. apply in_occ_equiv; occ_tac. occ_tac.
          - (* descend *)
            rewrite K in Hr.
            destruct (find_key k (citems c)) as [n|] eqn:FK.
            2: { inversion E1; subst; clear E1. destruct (set_fail_mm h l d _ new G h1 l' I Hr MM). eauto. }
            destruct (nth_item n (citems c)) as [e|] eqn:Ne.
            2: { inversion E1; subst; clear E1. rewrite (repr_items_nth_none _ _ _ _ Hits Ne).
                 destruct (set_fail_mm h l d _ new G h1 l' I Hr MM). eauto. }
            cbv zeta in E1.
            destruct (m_set every (pe2 :: rest2) new (put_item h1 l' n HNull) e) as [[h3 e'] ok1] eqn:ER.
            inversion E1; subst; clear E1.
            rewrite <- K in Hr.
            destruct (set_descend every (pe2 :: rest2) IH new tnew h l d c its dv n e G h1 l' h3 e' ok I Hr Hn Hc Ne MM ER)
              as [te [te' [Hte [Ev [Hr4 S]]]]].
            rewrite K in Hr4. rewrite Hte, Ev. eauto. }
        rewrite K in Hr.
        destruct pe as [z | bs | sid' f | lo hi].
        -- apply (DK (KI z)); auto.
        -- apply (DK (KB bs)); auto.
        -- apply FAIL; auto.
        -- (* every d[:] = v *)
           destruct lo; [apply FAIL; [symmetry; exact E | reflexivity]|].
           destruct hi; [apply FAIL; [symmetry; exact E | reflexivity]|].
           destruct rest as [|pe2 rest2]; [|apply FAIL; [symmetry; exact E | reflexivity]].
           destruct (make_mut h l) as [h1 l'] eqn:MM.
           destruct every.
           2: { eapply FAILMM; [reflexivity | symmetry; exact E | reflexivity]. }
           assert (VS : v_set true [PSl None None] tnew (VSeq KDict its dv) =
                        (VSeq KDict (map (fun kv => (fst kv, match tnew with Some w => w | None => VNull end)) its) dv, true)) by reflexivity.
           rewrite VS. clear VS.
           destruct (m_range (fun h e => m_set_here new (clone_locs h (handles_opt new)) e) h1 l' 0 (length (citems c))) as [h2 ok2] eqn:EM.
           inversion E; subst; clear E.
           rewrite handles_ref in I.
           assert (I'' : Inv h ((l :: handles_opt d ++ handles_opt new) ++ G)) by (eapply Inv_equiv; [|exact I]; occ_tac).
           destruct (make_mut_facts h _ G l d _ h1 l' I'' Hr MM) as [c0 [c1 [Hc0 [Hc1 [K1 [I1 [C1 [Inv1 [S1 [Hr1 B1]]]]]]]]]].
           assert (Hn1 : repr_opt h1 new tnew) by (eapply repr_opt_ext; eauto).
           assert (Cl' : cnt_of h1 l' = 1) by (rewrite (cnt_of_cell _ _ _ Hc1); auto).
           assert (EM' : m_range (fun h e => m_set true [] new (clone_locs h (handles_opt new)) e) h1 l' 0 (length (citems c)) = (h2, ok)) by exact EM.
           destruct (m_range_ok true [] (set_spec_nil true) new tnew (length (citems c)) 0 h1 l' d KDict its dv G h2 ok Inv1 Hr1 Hn1 Cl' EM')
             as [its' [Eu [Hr2 [S2 [C2 Hn2]]]]].
           rewrite Hlen in Eu.
           change (v_set true [] tnew) with (fun _ : val => (match tnew with Some w => w | None => VNull end, true)) in Eu.
           rewrite upd_range_all in Eu. inversion Eu; subst.
           assert (I2 : Inv h2 ((handles_opt new ++ l' :: handles_opt d) ++ G)).
           { eapply Inv_equiv; [|apply S2]. occ_tac. }
           destruct (drop_opt_keep h2 new (l' :: handles_opt d) G I2) as [S3 K3].
           eexists; split; [reflexivity|]. split.
           ++ apply K3; auto. rewrite handles_ref. apply incl_appl, incl_refl.
           ++ rewrite !handles_ref.
              eapply Step_trans; [eapply Step_equiv; [| |exact S1]|]. apply in_occ_equiv; occ_tac. intro; reflexivity.
              eapply Step_trans; [exact S2|].
              eapply Step_equiv; [| |exact S3]. apply in_occ_equiv; occ_tac. occ_tac.
      * (* string *)
        rewrite <- K in Hr.
        destruct pe as [z | bs | sid' f | lo hi]; [| | |rewrite K in Hr; apply FAIL; [symmetry; exact E | reflexivity]];
          (destruct rest as [|pe2 rest2]; [|rewrite K in Hr; apply FAIL; [symmetry; exact E | reflexivity]]);
          (match goal with |- context [v_set every [?PE] _ _] =>
             destruct (set_leaf_str_ok h l d c its dv PE new tnew G h' cur' ok I Hr Hn Hc E) as [t' [Ev [Hr' S]]]
           end; rewrite K in Ev; exists t'; split; [exact Ev | split; auto]).
      * (* vector *)
        rewrite <- K in Hr.
        destruct pe as [z | bs | sid' f | lo hi]; [| | |rewrite K in Hr; apply FAIL; [symmetry; exact E | reflexivity]];
          (destruct rest as [|pe2 rest2]; [|rewrite K in Hr; apply FAIL; [symmetry; exact E | reflexivity]]);
          (match goal with |- context [v_set every [?PE] _ _] =>
             destruct (set_leaf_num_ok (fun _ => true) h l d c its dv PE new tnew G h' cur' ok I Hr Hn Hc E) as [t' [Ev [Hr' S]]]
           end; rewrite K in Ev; exists t'; split; [exact Ev | split; auto]).
      * (* bytes *)
        rewrite <- K in Hr.
        destruct pe as [z | bs | sid' f | lo hi]; [| | |rewrite K in Hr; apply FAIL; [symmetry; exact E | reflexivity]];
          (destruct rest as [|pe2 rest2]; [|rewrite K in Hr; apply FAIL; [symmetry; exact E | reflexivity]]);
          (match goal with |- context [v_set every [?PE] _ _] =>
             destruct (set_leaf_num_ok is_byte h l d c its dv PE new tnew G h' cur' ok I Hr Hn Hc E) as [t' [Ev [Hr' S]]]
           end; rewrite K in Ev; exists t'; split; [exact Ev | split; auto]).
    + (* struct instance: fields are inline *)
      inversion Hr; subst. match goal with H : repr_list _ _ _ |- _ => rename H into Hfs end.
      assert (FAIL : m_set every (pe :: rest) new h (HInst sid fields) = (drop_opt h new, HInst sid fields, false) ->
                     v_set every (pe :: rest) tnew (VInst sid ts) = (VInst sid ts, false) ->
                     exists t', v_set every (pe :: rest) tnew (VInst sid ts) = (t', ok) /\ repr h' cur' t' /\
                                Step h (handles (HInst sid fields) ++ handles_opt new) G h' (handles cur')).
      { intros E1 E2. rewrite E1 in E. inversion E; subst; clear E.
        destruct (set_fail h (HInst sid fields) (VInst sid ts) new G I Hr). eauto. }
      destruct pe as [z | bs | sid' f | lo hi]; try (apply FAIL; reflexivity).
      destruct (Nat.eqb sid sid') eqn:Es; [|apply FAIL; simpl; rewrite Es; reflexivity].
      destruct (nth_error fields f) as [e|] eqn:Ef.
      2: { apply FAIL; simpl; rewrite Es; [rewrite Ef|rewrite (repr_list_nth_none _ _ _ _ Hfs Ef)]; reflexivity. }
      clear FAIL.
      destruct (repr_list_nth _ _ _ _ _ Hfs Ef) as [te [Hte Hre]].
      simpl in E. rewrite Es, Ef in E.
      destruct (m_set every rest new h e) as [[h1 e'] ok1] eqn:ER. inversion E; subst; clear E.
      set (others := handles_list (hset_field f HNull fields)).
      assert (OC : forall x, occ x (handles_list fields) = occ x (handles e) + occ x others).
      { intro x. pose proof (occ_list_set_field x fields f HNull e Ef). rewrite handles_null in H. unfold others. revert H. occ_tac. }
      rewrite handles_inst in I.
      assert (I0 : Inv h ((handles e ++ handles_opt new) ++ others ++ G)).
      { eapply Inv_equiv; [|exact I]. intro x. specialize (OC x). revert OC. occ_tac. }
      destruct (IH new tnew h e te (others ++ G) h' e' ok I0 Hre Hn ER) as [te' [Ev [Hre' S]]].
      exists (VInst sid (set_field f te' ts)). split; [|split].
      * simpl. rewrite Es, Hte, Ev. reflexivity.
      * constructor.
        assert (Ho : repr h (HInst sid (hset_field f HNull fields)) (VInst sid (set_field f VNull ts))).
        { constructor. apply repr_list_set_field; auto. constructor. }
        eapply (Step_frame_repr _ _ _ _ _ _ _ _ S) in Ho.
        2: { rewrite handles_inst. apply incl_appl, incl_refl. }
        inversion Ho; subst.
        match goal with H : repr_list h' _ _ |- _ => pose proof (repr_list_set_field _ _ _ f _ _ H Hre') as Hx end.
        rewrite hset_field_twice, set_field_twice in Hx. exact Hx.
      * rewrite !handles_inst.
        apply Step_frame in S.
        eapply Step_equiv; [| |exact S].
        -- apply in_occ_equiv. intro x. specialize (OC x). revert OC. occ_tac.
        -- intro x. pose proof (occ_list_set_field x fields f e' e Ef).
           specialize (OC x). revert H OC. occ_tac.
Qed.
Transparent slice_bounds.

Lemma m_set_ok every p : noslice p = true -> forall new tnew h cur t G h' cur' ok,
  Inv h ((handles cur ++ handles_opt new) ++ G) -> repr h cur t -> repr_opt h new tnew ->
  m_set every p new h cur = (h', cur', ok) ->
  exists t', v_set every p tnew t = (t', ok) /\ repr h' cur' t' /\
             Step h (handles cur ++ handles_opt new) G h' (handles cur').
Proof. intros _. apply m_set_ok_all. Qed.

(* ------------------------------------------------------------------ reading: index / slice *)
Lemma get_clone_drop h v e te R F :
  Inv h ((handles v ++ R) ++ F) -> incl (handles e) (handles v ++ handles_heap h) -> repr h e te ->
  let h' := drop_val (clone_val h e) v in
  repr h' e te /\ Step h (handles v ++ R) F h' (handles e ++ R) /\
  (forall w t, incl (handles w) (R ++ F) -> repr h w t -> repr h' w t).
Proof.
  intros I Ie He h'.
  destruct (clone_val_step h (handles v ++ R) F e I) as [S1 [B1 L1]].
  { intros x Hx. apply Ie in Hx. revert Hx. in_tac. }
  set (h1 := clone_val h e) in *.
  assert (I1 : Inv h1 ((handles v ++ handles e ++ R) ++ F)).
  { eapply Inv_equiv; [|apply S1]. occ_tac. }
  destruct (drop_val_keep h1 v (handles e ++ R) F I1) as [S2 K2].
  split; [|split].
  - apply K2. apply incl_appl, incl_appl, incl_refl. eapply repr_ext; eauto.
  - eapply Step_trans; [|exact S2]. eapply Step_equiv; [| |exact S1]. intro; tauto. occ_tac.
  - intros w t Iw Hw. apply K2. { intros x Hx. apply Iw in Hx. revert Hx. in_tac. } eapply repr_ext; eauto.
Qed.

Lemma alloc_repr h k its ts h' l' :
  alloc h k its = (h', l') -> repr_items h its ts -> repr h' (HRef l' None) (VSeq k ts None).
Proof.
  intros EA Hits. assert (Eh : h' = fst (alloc h k its)) by (rewrite EA; auto).
  assert (El : l' = length (cells h)) by (unfold alloc in EA; inversion EA; auto).
  change k with (ckind (mkcell 1 k its)). apply R_ref.
  - rewrite Eh, El. apply get_cell_alloc_new.
  - simpl. eapply repr_items_ext; [|exact Hits]. intro. rewrite Eh. apply same_body_alloc.
  - constructor.
Qed.

Lemma alloc_step' h R F k its h' l' :
  alloc h k its = (h', l') -> Inv h ((handles_items its ++ R) ++ F) ->
  Step h (handles_items its ++ R) F h' (l' :: R) /\ (forall m, same_body h h' m).
Proof.
  intros EA I. pose proof (alloc_step h R F k its I) as S. rewrite EA in S. simpl in S.
  split; auto. intro. assert (Eh : h' = fst (alloc h k its)) by (rewrite EA; auto). rewrite Eh. apply same_body_alloc.
Qed.

Lemma repr_items_firstn h es ts n : repr_items h es ts -> repr_items h (firstn n es) (firstn n ts).
Proof. intro H. revert n. induction H; destruct n; simpl; constructor; auto. Qed.
Lemma repr_items_skipn h es ts n : repr_items h es ts -> repr_items h (skipn n es) (skipn n ts).
Proof. intro H. revert n. induction H; destruct n; simpl; auto; constructor; auto. Qed.
Lemma repr_items_sub h es ts a b : repr_items h es ts -> repr_items h (sub_items es a b) (sub_items ts a b).
Proof. intro. unfold sub_items. apply repr_items_firstn. apply repr_items_skipn. auto. Qed.

Lemma handles_items_firstn its n : incl (handles_items (firstn n its)) (handles_items its).
Proof.
  unfold handles_items. revert n. induction its as [|[k y] its IH]; destruct n; simpl; try apply incl_nil_l.
  apply incl_app; [apply incl_appl, incl_refl | apply incl_appr; auto].
Qed.
Lemma handles_items_skipn its n : incl (handles_items (skipn n its)) (handles_items its).
Proof.
  unfold handles_items. revert n. induction its as [|[k y] its IH]; destruct n; simpl; try apply incl_refl.
  apply incl_appr; auto.
Qed.
Lemma handles_items_sub its a b : incl (handles_items (sub_items its a b)) (handles_items its).
Proof. unfold sub_items. eapply incl_tran; [apply handles_items_firstn | apply handles_items_skipn]. Qed.

Lemma get_alloc_drop h v k its' ts' R F h2 l' :
  Inv h ((handles v ++ R) ++ F) -> incl (handles_items its') (handles v ++ handles_heap h) ->
  repr_items h its' ts' ->
  alloc (clone_locs h (handles_items its')) k its' = (h2, l') ->
  let h' := drop_val h2 v in
  repr h' (HRef l' None) (VSeq k ts' None) /\ Step h (handles v ++ R) F h' (handles (HRef l' None) ++ R) /\
  (forall w t, incl (handles w) (R ++ F) -> repr h w t -> repr h' w t).
Proof.
  intros I Ii Hits EA h'.
  destruct (clone_locs_step (handles_items its') h (handles v ++ R) F I) as [S1 [B1 L1]].
  { intros x Hx. apply Ii in Hx. revert Hx. in_tac. }
  set (h1 := clone_locs h (handles_items its')) in *.
  assert (I1 : Inv h1 ((handles_items its' ++ handles v ++ R) ++ F)) by apply S1.
  destruct (alloc_step' h1 (handles v ++ R) F k its' h2 l' EA I1) as [S2 B2].
  assert (Hr2 : repr h2 (HRef l' None) (VSeq k ts' None)).
  { eapply alloc_repr; eauto. eapply repr_items_ext; eauto. }
  assert (I2 : Inv h2 ((handles v ++ l' :: R) ++ F)).
  { eapply Inv_equiv; [|apply S2]. occ_tac. }
  destruct (drop_val_keep h2 v (l' :: R) F I2) as [S3 K3].
  rewrite handles_ref. simpl.
  split; [|split].
  - apply K3; auto. rewrite handles_ref. simpl. intros x Hx. simpl in Hx. destruct Hx; [left; auto|contradiction].
  - eapply Step_trans; [exact S1|]. eapply Step_trans; [exact S2|].
    eapply Step_equiv; [| |exact S3]. apply in_occ_equiv; occ_tac. occ_tac.
  - intros w t Iw Hw. apply K3. { intros x Hx. apply Iw in Hx. revert Hx. simpl. in_tac. }
    eapply repr_ext; [exact B2|]. eapply repr_ext; eauto.
Qed.

Definition get1_post (h : heap) (v : hval) (R F : list loc) (tt : val) (pe : pelem) (h' : heap) (r : option hval) : Prop :=
  match r with
  | Some e => exists te, v_get1 tt pe = Some te /\ repr h' e te /\ Step h (handles v ++ R) F h' (handles e ++ R)
  | None => v_get1 tt pe = None /\ Step h (handles v ++ R) F h' R
  end /\ (forall w t, incl (handles w) (R ++ F) -> repr h w t -> repr h' w t).

Lemma m_get1_ok h v t pe R F h' r :
  Inv h ((handles v ++ R) ++ F) -> repr h v t -> m_get1 h v pe = (h', r) -> get1_post h v R F t pe h' r.
Proof.
  intros I Hr E. unfold get1_post.
  assert (FAIL : forall tt, (h', r) = (drop_val h v, None) -> v_get1 tt pe = None -> get1_post h v R F tt pe h' r).
  { intros tt E1 E2. inversion E1; subst. destruct (drop_val_keep h v R F I). split; auto. }
  assert (OKC : forall tt e te, (h', r) = (drop_val (clone_val h e) v, Some e) ->
                 incl (handles e) (handles v ++ handles_heap h) -> repr h e te -> v_get1 tt pe = Some te ->
                 get1_post h v R F tt pe h' r).
  { intros tt e te E1 Ie He E2. inversion E1; subst.
    destruct (get_clone_drop h v e te R F I Ie He) as [A [B C]]. split; eauto. }
  fold (get1_post h v R F t pe h' r).
  destruct v as [| z | l d | sid fs].
  - simpl in E. inversion E; subst. inversion Hr; subst. split; auto. simpl. split; auto.
    rewrite handles_null. simpl. apply Step_refl. rewrite handles_null in I. auto.
  - simpl in E. inversion E; subst. inversion Hr; subst. split; auto. simpl. split; auto.
    rewrite handles_int. simpl. apply Step_refl. rewrite handles_int in I. auto.
  - destruct (repr_ref_inv_gen _ _ _ _ Hr) as [c [its [dv [Ht [Hc [Hits Hd]]]]]]. subst t.
    pose proof (repr_items_length _ _ _ Hits) as Hlen.
    simpl in E. rewrite Hc in E.
    assert (ITEM : forall n e, nth_item n (citems c) = Some e -> incl (handles e) (handles (HRef l d) ++ handles_heap h)).
    { intros n e Hn. apply incl_appr. intros x Hx. eapply In_handles_heap; eauto. eapply handles_items_nth; eauto. }
    assert (SEQ : forall k, ckind c = k -> k <> KDict ->
      match pe with
      | PI z =>
        match norm_index (length (citems c)) z with
        | Some n =>
          match nth_item n (citems c) with
          | Some e =>
            match k with
            | KStr => let '(h1, l') := alloc (clone_val h e) KStr [(nokey, e)] in (drop_val h1 (HRef l d), Some (HRef l' None))
            | _ => (drop_val (clone_val h e) (HRef l d), Some e)
            end
          | None => (drop_val h (HRef l d), None)
          end
        | None => (drop_val h (HRef l d), None)
        end
      | PSl lo hi =>
        let '(a, b) := slice_bounds (length (citems c)) lo hi in
        let its := sub_items (citems c) a b in
        let h1 := clone_locs h (handles_items its) in
        let '(h2, l') := alloc h1 k its in
        (drop_val h2 (HRef l d), Some (HRef l' None))
      | _ => (drop_val h (HRef l d), None)
      end = (h', r) -> get1_post h (HRef l d) R F (VSeq k its dv) pe h' r).
    { intros k _ NK E1.
      assert (VG : v_get1 (VSeq k its dv) pe =
                   match pe with
                   | PI z => match norm_index (length its) z with
                             | Some n => match nth_item n its with
                                         | Some e => Some (match k with KStr => VSeq KStr [(nokey, e)] None | _ => e end)
                                         | None => None
                                         end
                             | None => None
                             end
                   | PSl lo hi => let (a, b) := slice_bounds (length its) lo hi in Some (VSeq k (sub_items its a b) None)
                   | _ => None
                   end).
      { destruct k; try congruence; reflexivity. }
      destruct pe as [z | bs | sid' f | lo hi].
      - rewrite <- Hlen in VG. destruct (norm_index (length (citems c)) z) as [n|] eqn:NI.
        2: { apply FAIL; auto. }
        destruct (nth_item n (citems c)) as [e|] eqn:Ne.
        2: { apply FAIL; auto. rewrite VG. rewrite (repr_items_nth_none _ _ _ _ Hits Ne). reflexivity. }
        destruct (repr_items_nth _ _ _ _ _ Hits Ne) as [te [Hte Hre]]. rewrite Hte in VG.
        destruct (kind_eqb k KStr) eqn:KS.
        + assert (k = KStr) by (destruct k; simpl in KS; congruence). subst k.
          destruct (alloc (clone_val h e) KStr [(nokey, e)]) as [h1 l'] eqn:EA. inversion E1; subst; clear E1.
          assert (EA' : alloc (clone_locs h (handles_items [(nokey, e)])) KStr [(nokey, e)] = (h1, l')).
          { rewrite handles_items_single. exact EA. }
          destruct (get_alloc_drop h (HRef l d) KStr [(nokey, e)] [(nokey, te)] R F h1 l' I) as [Hr' [S' K']]; auto.
          { rewrite handles_items_single. eapply ITEM; eauto. }
          { constructor; auto. constructor. }
          unfold get1_post. rewrite VG. eauto.
        + assert (E2 : (h', r) = (drop_val (clone_val h e) (HRef l d), Some e)).
          { destruct k; simpl in KS; try discriminate; auto. }
          eapply OKC; eauto. rewrite VG. destruct k; simpl in KS; try discriminate; auto.
      - apply FAIL; auto.
      - apply FAIL; auto.
      - rewrite <- Hlen in VG. destruct (slice_bounds (length (citems c)) lo hi) as [a b].
        cbv zeta in E1.
        destruct (alloc (clone_locs h (handles_items (sub_items (citems c) a b))) k (sub_items (citems c) a b)) as [h2 l'] eqn:EA.
        inversion E1; subst; clear E1.
        destruct (get_alloc_drop h (HRef l d) k (sub_items (citems c) a b) (sub_items its a b) R F h2 l' I) as [Hr' [S' K']]; auto.
        { apply incl_appr. intros x Hx. eapply In_handles_heap; eauto. eapply handles_items_sub; eauto. }
        { apply repr_items_sub; auto. }
        unfold get1_post. rewrite VG. eauto. }
    destruct (ckind c) eqn:K.
    + apply (SEQ KList); auto. discriminate.
    + (* dict *)
      assert (VG : v_get1 (VSeq KDict its dv) pe =
                   match key_of_pelem pe with
                   | Some k => match find_key k its with
                               | Some n => nth_item n its
                               | None => dv
                               end
                   | None => None
                   end) by reflexivity.
      destruct (key_of_pelem pe) as [k|] eqn:KP; [|apply FAIL; auto].
      rewrite <- (repr_items_find_key _ _ _ k Hits) in VG.
      destruct (find_key k (citems c)) as [n|] eqn:FK.
      * destruct (nth_item n (citems c)) as [e|] eqn:Ne.
        -- destruct (repr_items_nth _ _ _ _ _ Hits Ne) as [te [Hte Hre]]. eapply OKC; eauto. rewrite VG. auto.
        -- apply FAIL; auto. rewrite VG. eapply repr_items_nth_none; eauto.
      * inversion Hd; subst.
        -- apply FAIL; auto.
        -- eapply OKC; eauto. apply incl_appl. rewrite handles_ref. apply incl_tl. apply incl_refl.
    + apply (SEQ KStr); auto. discriminate.
    + apply (SEQ KVec); auto. discriminate.
    + apply (SEQ KBytes); auto. discriminate.
  - (* instance *)
    inversion Hr; subst. match goal with H : repr_list _ _ _ |- _ => rename H into Hfs end.
    simpl in E.
    destruct pe as [z | bs | sid' f | lo hi]; try (apply FAIL; auto; fail).
    destruct (Nat.eqb sid sid') eqn:Es; [|apply FAIL; auto; simpl; rewrite Es; auto].
    destruct (nth_error fs f) as [e|] eqn:Ef.
    + destruct (repr_list_nth _ _ _ _ _ Hfs Ef) as [te [Hte Hre]].
      eapply OKC; eauto.
      * apply incl_appl. rewrite handles_inst. eapply handles_list_nth; eauto.
      * simpl. rewrite Es. auto.
    + apply FAIL; auto. simpl. rewrite Es. eapply repr_list_nth_none; eauto.
Qed.

Lemma m_get_ok p : forall h v t R F h' r,
  Inv h ((handles v ++ R) ++ F) -> repr h v t -> m_get h v p = (h', r) ->
  match r with
  | Some e => exists te, v_get t p = Some te /\ repr h' e te /\ Step h (handles v ++ R) F h' (handles e ++ R)
  | None => v_get t p = None /\ Step h (handles v ++ R) F h' R
  end /\ (forall w tt, incl (handles w) (R ++ F) -> repr h w tt -> repr h' w tt).
Proof.
  induction p as [|pe rest IH]; intros h v t R F h' r I Hr E.
  - simpl in E. inversion E; subst. split; auto. simpl. exists t. split; [auto|]. split; [auto|]. apply Step_refl; auto.
  - simpl in E. destruct (m_get1 h v pe) as [h1 [e|]] eqn:E1.
    + destruct (m_get1_ok h v t pe R F h1 (Some e) I Hr E1) as [[te [Hg [Hre S1]]] K1].
      assert (I1 : Inv h1 ((handles e ++ R) ++ F)) by apply S1.
      destruct (IH h1 e te R F h' r I1 Hre E) as [A K2].
      split; [|intros; apply K2; auto].
      simpl. rewrite Hg. destruct r as [e2|].
      * destruct A as [te2 [Hg2 [Hre2 S2]]]. exists te2. split; [auto|]. split; [auto|]. eapply Step_trans; eauto.
      * destruct A as [Hg2 S2]. split; auto. eapply Step_trans; eauto.
    + destruct (m_get1_ok h v t pe R F h1 None I Hr E1) as [[Hg S1] K1]. inversion E; subst.
      split; auto. simpl. rewrite Hg. auto.
Qed.

(* x[p] read from the content v of a variable (v itself stays where it is, among R) *)
Lemma m_read_ok h v t p R F h' r :
  Inv h (R ++ F) -> incl (handles v) (R ++ handles_heap h) -> repr h v t -> m_read h v p = (h', r) ->
  match r with
  | Some e => exists te, v_get t p = Some te /\ repr h' e te /\ Step h R F h' (handles e ++ R)
  | None => v_get t p = None /\ Step h R F h' R
  end /\ (forall w tt, incl (handles w) (R ++ F) -> repr h w tt -> repr h' w tt).
Proof.
  intros I Iv Hr E. unfold m_read in E.
  destruct (clone_val_step h R F v I Iv) as [S1 [B1 L1]].
  set (h1 := clone_val h v) in *.
  assert (I1 : Inv h1 ((handles v ++ R) ++ F)) by apply S1.
  assert (Hr1 : repr h1 v t) by (eapply repr_ext; eauto).
  destruct (m_get_ok p h1 v t R F h' r I1 Hr1 E) as [A K].
  split.
  - destruct r as [e|].
    + destruct A as [te [Hg [Hre S2]]]. exists te. split; [auto|]. split; [auto|]. eapply Step_trans; eauto.
    + destruct A as [Hg S2]. split; auto. eapply Step_trans; eauto.
  - intros w tt Iw Hw. apply K; auto. eapply repr_ext; eauto.
Qed.

(* ------------------------------------------------------------------ literals *)
Section ValInd.
  Variable P : val -> Prop.
  Hypothesis Hnull : P VNull.
  Hypothesis Hint : forall z, P (VInt z).
  Definition optP (d : option val) : Prop := match d with Some t => P t | None => True end.
  Hypothesis Hseq : forall k its d, Forall (fun kv => P (snd kv)) its -> optP d -> P (VSeq k its d).
  Hypothesis Hinst : forall sid fs, Forall P fs -> P (VInst sid fs).
  Fixpoint val_ind' (t : val) : P t :=
    match t with
    | VNull => Hnull
    | VInt z => Hint z
    | VSeq k its d =>
      Hseq k its d
        ((fix go (l : list (key * val)) : Forall (fun kv => P (snd kv)) l :=
            match l with
            | [] => Forall_nil _
            | kv :: tl => Forall_cons kv (val_ind' (snd kv)) (go tl)
            end) its)
        (match d as d0 return optP d0 with
         | Some t0 => val_ind' t0
         | None => I
         end)
    | VInst sid fs =>
      Hinst sid fs
        ((fix go (l : list val) : Forall P l :=
            match l with
            | [] => Forall_nil _
            | x :: tl => Forall_cons x (val_ind' x) (go tl)
            end) fs)
    end.
End ValInd.

Definition alloc_spec (t : val) : Prop :=
  forall h R F h' v, Inv h (R ++ F) -> alloc_val h t = (h', v) ->
  repr h' v t /\ Step h R F h' (handles v ++ R) /\ (forall m, same_body h h' m).

Opaque alloc.
Lemma alloc_val_ok t : alloc_spec t.
Proof.
  induction t using val_ind'; unfold alloc_spec; intros h R F h' v I E.
  - simpl in E. inversion E; subst. rewrite handles_null. simpl.
    split; [constructor | split; [apply Step_refl; auto | intro; apply same_body_refl]].
  - simpl in E. inversion E; subst. rewrite handles_int. simpl.
    split; [constructor | split; [apply Step_refl; auto | intro; apply same_body_refl]].
  - simpl in E.
    (* the items *)
    assert (ITEMS : forall its0, Forall (fun kv => alloc_spec (snd kv)) its0 ->
      forall h R F h1 es, Inv h (R ++ F) ->
      (fix go (h : heap) (its : list (key * val)) {struct its} : heap * list (key * hval) :=
         match its with
         | [] => (h, [])
         | (ky, t1) :: tl => let '(h', e) := alloc_val h t1 in let '(h'', es) := go h' tl in (h'', (ky, e) :: es)
         end) h its0 = (h1, es) ->
      repr_items h1 es its0 /\ Step h R F h1 (handles_items es ++ R) /\ (forall m, same_body h h1 m)).
    { induction its0 as [|[ky t1] tl IHl]; intros Hall h0 R0 F0 h1 es I0 E0.
      - inversion E0; subst. simpl.
        split; [constructor | split; [apply Step_refl; auto | intro; apply same_body_refl]].
      - inversion Hall; subst. simpl in H3.
        destruct (alloc_val h0 t1) as [h0' e] eqn:E1.
        destruct ((fix go (h : heap) (its : list (key * val)) {struct its} : heap * list (key * hval) :=
                     match its with
                     | [] => (h, [])
                     | (ky, t1) :: tl => let '(h', e) := alloc_val h t1 in let '(h'', es) := go h' tl in (h'', (ky, e) :: es)
                     end) h0' tl) as [h0'' es'] eqn:E2.
        inversion E0; subst; clear E0.
        destruct (H3 h0 R0 F0 h0' e I0 E1) as [Hre [S1 B1]].
        assert (I1 : Inv h0' ((handles e ++ R0) ++ F0)) by apply S1.
        destruct (IHl H4 h0' (handles e ++ R0) F0 h1 es' I1 E2) as [Hres [S2 B2]].
        split; [|split].
        + constructor; auto. eapply repr_ext; eauto.
        + eapply Step_trans; [exact S1|]. eapply Step_equiv; [| |exact S2]. intro; tauto.
          unfold handles_items. simpl. fold (handles_items es'). occ_tac.
        + intro m. eapply same_body_trans; eauto. }
    destruct ((fix go (h : heap) (its : list (key * val)) {struct its} : heap * list (key * hval) :=
                 match its with
                 | [] => (h, [])
                 | (ky, t1) :: tl => let '(h', e) := alloc_val h t1 in let '(h'', es) := go h' tl in (h'', (ky, e) :: es)
                 end) h its) as [h1 es] eqn:E1.
    destruct (ITEMS its H h R F h1 es I E1) as [Hes [S1 B1]].
    assert (I1 : Inv h1 ((handles_items es ++ R) ++ F)) by apply S1.
    (* the default *)
    assert (DFL : exists h2 dv, (match d with
                                 | Some dt => let '(h', e) := alloc_val h1 dt in (h', Some e)
                                 | None => (h1, None)
                                 end) = (h2, dv) /\
                  repr_opt h2 dv d /\ Step h1 (handles_items es ++ R) F h2 (handles_opt dv ++ handles_items es ++ R) /\
                  (forall m, same_body h1 h2 m)).
    { destruct d as [dt|].
      - destruct (alloc_val h1 dt) as [h2 e] eqn:E2. exists h2, (Some e). split; auto.
        destruct (H0 h1 (handles_items es ++ R) F h2 e I1 E2) as [Hre [S2 B2]].
        split; [constructor; auto | split; auto].
      - exists h1, None. split; auto.
        split; [constructor | split; [simpl; apply Step_refl; auto | intro; apply same_body_refl]]. }
    destruct DFL as [h2 [dv [E2 [Hdv [S2 B2]]]]]. rewrite E2 in E.
    destruct (alloc h2 k es) as [h3 l] eqn:E3. inversion E; subst; clear E.
    assert (I2 : Inv h2 ((handles_items es ++ handles_opt dv ++ R) ++ F)).
    { eapply Inv_equiv; [|apply S2]. occ_tac. }
    destruct (alloc_step' h2 (handles_opt dv ++ R) F k es h' l E3 I2) as [S3 B3].
    split; [|split].
    + Transparent alloc.
      assert (Eh : h' = fst (alloc h2 k es)) by (rewrite E3; auto).
      assert (El : l = length (cells h2)) by (unfold alloc in E3; inversion E3; auto).
      Opaque alloc.
      change k with (ckind (mkcell 1 k es)). apply R_ref.
      * rewrite Eh, El. apply get_cell_alloc_new.
      * simpl. eapply repr_items_ext; [exact B3|]. eapply repr_items_ext; eauto.
      * eapply repr_opt_ext; eauto.
    + rewrite handles_ref. eapply Step_trans; [exact S1|]. eapply Step_trans; [exact S2|].
      eapply Step_equiv; [| |exact S3]. apply in_occ_equiv; occ_tac. occ_tac.
    + intro m. eapply same_body_trans; [apply B1|]. eapply same_body_trans; [apply B2|]. apply B3.
  - simpl in E.
    assert (FIELDS : forall fs0, Forall alloc_spec fs0 ->
      forall h R F h1 es, Inv h (R ++ F) ->
      (fix go (h : heap) (fs : list val) {struct fs} : heap * list hval :=
         match fs with
         | [] => (h, [])
         | t1 :: tl => let '(h', e) := alloc_val h t1 in let '(h'', es) := go h' tl in (h'', e :: es)
         end) h fs0 = (h1, es) ->
      repr_list h1 es fs0 /\ Step h R F h1 (handles_list es ++ R) /\ (forall m, same_body h h1 m)).
    { induction fs0 as [|t1 tl IHl]; intros Hall h0 R0 F0 h1 es I0 E0.
      - inversion E0; subst. simpl.
        split; [constructor | split; [apply Step_refl; auto | intro; apply same_body_refl]].
      - inversion Hall; subst.
        destruct (alloc_val h0 t1) as [h0' e] eqn:E1.
        destruct ((fix go (h : heap) (fs : list val) {struct fs} : heap * list hval :=
                     match fs with
                     | [] => (h, [])
                     | t1 :: tl => let '(h', e) := alloc_val h t1 in let '(h'', es) := go h' tl in (h'', e :: es)
                     end) h0' tl) as [h0'' es'] eqn:E2.
        inversion E0; subst; clear E0.
        destruct (H2 h0 R0 F0 h0' e I0 E1) as [Hre [S1 B1]].
        assert (I1 : Inv h0' ((handles e ++ R0) ++ F0)) by apply S1.
        destruct (IHl H3 h0' (handles e ++ R0) F0 h1 es' I1 E2) as [Hres [S2 B2]].
        split; [|split].
        + constructor; auto. eapply repr_ext; eauto.
        + eapply Step_trans; [exact S1|]. eapply Step_equiv; [| |exact S2]. intro; tauto.
          unfold handles_list. simpl. fold (handles_list es'). occ_tac.
        + intro m. eapply same_body_trans; eauto. }
    destruct ((fix go (h : heap) (fs : list val) {struct fs} : heap * list hval :=
                 match fs with
                 | [] => (h, [])
                 | t1 :: tl => let '(h', e) := alloc_val h t1 in let '(h'', es) := go h' tl in (h'', e :: es)
                 end) h fs) as [h1 es] eqn:E1.
    inversion E; subst; clear E.
    destruct (FIELDS fs H h R F h' es I E1) as [Hes [S1 B1]].
    rewrite handles_inst. split; [constructor; auto | split; auto].
Qed.
Transparent alloc.

(* ------------------------------------------------------------------ statements *)
Definition StInv (st : mstate) : Prop := Inv (mheap st) (handles_list (roots st)).
Definition Sim (st : mstate) (sg : state) : Prop := repr_list (mheap st) (roots st) sg.

Lemma repr_list_as_inst h rs sg : repr_list h rs sg <-> repr h (HInst 0 rs) (VInst 0 sg).
Proof. split; intro H; [constructor; auto | inversion H; auto]. Qed.

(* take the content of variable x out of the roots: the rest of the roots is the frame *)
Lemma roots_split x rs cur :
  nth_error rs x = Some cur ->
  forall l, occ l (handles_list rs) = occ l (handles cur) + occ l (handles_list (set_root rs x HNull)).
Proof.
  intros Hx l. pose proof (occ_list_set_field l rs x HNull cur Hx). rewrite handles_null in H.
  unfold set_root. revert H. occ_tac.
Qed.

Lemma roots_put x rs cur cur' :
  nth_error rs x = Some cur ->
  forall l, occ l (handles_list (set_root rs x cur')) = occ l (handles cur') + occ l (handles_list (set_root rs x HNull)).
Proof.
  intros Hx l. pose proof (occ_list_set_field l rs x HNull cur Hx). pose proof (occ_list_set_field l rs x cur' cur Hx).
  rewrite handles_null in H. unfold set_root. revert H H0. occ_tac.
Qed.

Lemma m_assign_to_ok h rs sg every x p w tw st' ok :
  noslice p = true ->
  Inv h (handles w ++ handles_list rs) -> repr_list h rs sg -> repr h w tw ->
  m_assign_to (mkst h rs) every x p w = (st', ok) ->
  exists sg', assign_to sg every x p tw = (sg', ok) /\ StInv st' /\ Sim st' sg'.
Proof.
  intros NS I Hrs Hw E. unfold m_assign_to in E. simpl in E. unfold assign_to.
  destruct (nth_error rs x) as [cur|] eqn:Ex.
  - destruct (repr_list_nth _ _ _ _ _ Hrs Ex) as [tcur [Htc Hcur]]. rewrite Htc.
    destruct (m_set every p (Some w) h cur) as [[h1 cur'] ok1] eqn:ES. inversion E; subst; clear E.
    set (others := handles_list (set_root rs x HNull)).
    assert (I0 : Inv h ((handles cur ++ handles_opt (Some w)) ++ others)).
    { eapply Inv_equiv; [|exact I]. intro l. pose proof (roots_split x rs cur Ex l). simpl. fold others in H. revert H. occ_tac. }
    destruct (m_set_ok every p NS (Some w) (Some tw) h cur tcur others h1 cur' ok I0 Hcur (RO_some _ _ _ Hw) ES)
      as [t' [Ev [Hr' S]]].
    rewrite Ev. eexists; split; [reflexivity|]. split.
    + unfold StInv. simpl. eapply Inv_equiv; [|apply (st_inv _ _ _ _ _ S)].
      intro l. pose proof (roots_put x rs cur cur' Ex l). fold others in H. revert H. occ_tac.
    + unfold Sim. simpl.
      assert (Ho : repr h (HInst 0 (set_root rs x HNull)) (VInst 0 (set_field x VNull sg))).
      { constructor. apply repr_list_set_field; auto. constructor. }
      apply (st_frame _ _ _ _ _ S) in Ho; [|rewrite handles_inst; apply incl_refl].
      inversion Ho; subst.
      match goal with H : repr_list h1 _ _ |- _ => pose proof (repr_list_set_field _ _ _ x _ _ H Hr') as Hx end.
      unfold set_root in Hx. rewrite hset_field_twice, set_field_twice in Hx. exact Hx.
  - inversion E; subst; clear E. rewrite (repr_list_nth_none _ _ _ _ Hrs Ex).
    destruct (drop_val_keep h w (handles_list rs) [] ) as [S K].
    { rewrite app_nil_r. auto. }
    eexists; split; [reflexivity|]. split.
    + unfold StInv. simpl. pose proof (st_inv _ _ _ _ _ S) as I1. rewrite app_nil_r in I1. auto.
    + unfold Sim. simpl. apply repr_list_as_inst. apply K.
      * rewrite handles_inst, app_nil_r. apply incl_refl.
      * apply repr_list_as_inst. auto.
Qed.

(* ------------------------------------------------------------------ modify_existing_index: pop / remove / consume *)
(* what a slot function (and modify_existing_index around it) must do: *)
Definition mod_post (h : heap) (cur : hval) (G : list loc) (tres : val * option val)
                    (h' : heap) (cur' : hval) (r : option hval) : Prop :=
  repr h' cur' (fst tres) /\
  match r, snd tres with
  | Some res, Some tr => repr h' res tr /\ Step h (handles cur) G h' (handles res ++ handles cur')
  | None, None => Step h (handles cur) G h' (handles cur')
  | _, _ => False
  end.

Definition mod_spec (f : heap -> hval -> mres) (tf : val -> val * option val) : Prop :=
  forall h cur t G h' cur' r,
  Inv h (handles cur ++ G) -> repr h cur t -> f h cur = (h', cur', r) -> mod_post h cur G (tf t) h' cur' r.

Lemma mod_fail h cur t G : Inv h (handles cur ++ G) -> repr h cur t -> mod_post h cur G (t, None) h cur None.
Proof. intros I Hr. split; auto. simpl. apply Step_refl; auto. Qed.

Lemma mod_fail_mm h l d t G h1 l' :
  Inv h (handles (HRef l d) ++ G) -> repr h (HRef l d) t -> make_mut h l = (h1, l') ->
  mod_post h (HRef l d) G (t, None) h1 (HRef l' d) None.
Proof.
  intros I Hr MM. rewrite handles_ref in I.
  destruct (make_mut_facts h _ G l d _ h1 l' I Hr MM) as [c0 [c1 [Hc0 [Hc1 [K1 [I1 [C1 [Inv1 [S1 [Hr1 B1]]]]]]]]]].
  split; auto.
Qed.

(* a missing key of a dict with a default: insert a copy of the default, hand it to the recursion *)
Lemma default_open h l dv0 c its dt G h1 l' k :
  Inv h ((l :: handles dv0) ++ G) ->
  repr h (HRef l (Some dv0)) (VSeq (ckind c) its (Some dt)) ->
  get_cell h l = Some c -> make_mut h l = (h1, l') ->
  let h3 := set_items (clone_val h1 dv0) l' (citems c ++ [(k, HNull)]) in
  repr h3 dv0 dt /\
  repr h3 (HRef l' (Some dv0)) (VSeq (ckind c) (its ++ [(k, VNull)]) (Some dt)) /\
  cnt_of h3 l' = 1 /\
  Step h (l :: handles dv0) G h3 (handles dv0 ++ l' :: handles dv0).
Proof.
  intros I Hr Hc MM h3.
  change (handles dv0) with (handles_opt (Some dv0)) in I.
  destruct (make_mut_facts h _ G l (Some dv0) _ h1 l' I Hr MM) as [c0 [c1 [Hc0 [Hc1 [K1 [I1 [C1 [Inv1 [S1 [Hr1 B1]]]]]]]]]].
  rewrite Hc in Hc0. inversion Hc0; subst c0. clear Hc0. simpl handles_opt in *.
  destruct (owned_unique _ _ _ _ _ Inv1 Hc1 C1) as [U1 [U2 U3]].
  destruct (clone_val_step h1 (l' :: handles dv0) G dv0 Inv1) as [S2 [B2 L2]].
  { apply incl_appl. apply incl_tl. apply incl_refl. }
  set (h2 := clone_val h1 dv0) in *.
  destruct (B2 l' c1 Hc1) as [c2 [Hc2 [K2 I2]]].
  assert (C2 : cnt c2 = 1).
  { assert (cnt_of h2 l' = cnt_of h1 l').
    { unfold h2, clone_val. apply cnt_of_clone_locs_notin. apply occ_notIn; auto. }
    unfold cnt_of in H. rewrite Hc2, Hc1 in H. lia. }
  assert (Inv2 : Inv h2 ((l' :: handles dv0 ++ handles dv0) ++ G)).
  { eapply Inv_equiv; [|apply S2]. occ_tac. }
  destruct (inplace_update h2 l' c2 (handles dv0 ++ handles dv0) (handles dv0 ++ handles dv0)
              (citems c ++ [(k, HNull)]) G Inv2 Hc2 C2) as [S3 [Hc3 [T1 [T2 [T3 [N1 [W1 W2]]]]]]].
  { intro x. rewrite I2, I1, handles_items_app, handles_items_single, handles_null. occ_tac. }
  fold h3 in S3, Hc3, T1, T2, T3.
  destruct (repr_ref_inv _ _ _ _ _ _ Hr1) as [c1' [Hc1' [_ [Hits1 Hd1]]]].
  rewrite Hc1 in Hc1'. inversion Hc1'; subst c1'. clear Hc1'.
  inversion Hd1; subst.
  assert (Ndv : ~ In l' (handles dv0)) by (apply occ_notIn; auto).
  split; [|split; [|split]].
  - apply T1; auto. eapply repr_ext; eauto.
  - rewrite <- K1, <- K2. change (ckind c2) with (ckind (mkcell 1 (ckind c2) (citems c ++ [(k, HNull)]))).
    apply R_ref; auto.
    + simpl. apply repr_items_app.
      * apply T2. { rewrite <- I1, <- I2. exact N1. } eapply repr_items_ext; [exact B2|]. rewrite <- I1. exact Hits1.
      * constructor; constructor.
    + constructor. apply T1; auto. eapply repr_ext; eauto.
  - unfold cnt_of. rewrite Hc3. reflexivity.
  - eapply Step_trans; [exact S1|]. eapply Step_trans; [exact S2|].
    eapply Step_equiv; [| |exact S3]. apply in_occ_equiv; occ_tac. occ_tac.
Qed.

Lemma nth_item_app_last {A} (its : list (key * A)) k a : nth_item (length its) (its ++ [(k, a)]) = Some a.
Proof. unfold nth_item. rewrite nth_error_app2; [|lia]. rewrite Nat.sub_diag. reflexivity. Qed.

Lemma set_nth_app_last {A} (its : list (key * A)) k a b : set_nth (length its) b (its ++ [(k, a)]) = its ++ [(k, b)].
Proof. induction its as [|[k0 x] its IH]; simpl; auto. rewrite IH. reflexivity. Qed.

Lemma m_modify_ok p : forall f tf, mod_spec f tf -> mod_spec (m_modify p f) (v_modify p tf).
Proof.
  induction p as [|pe rest IH]; intros f tf Hf.
  - simpl. exact Hf.
  - specialize (IH f tf Hf).
    intros h cur t G h' cur' r I Hr E.
    destruct cur as [| z | l d | sid fields].
    + simpl in E. inversion E; subst. inversion Hr; subst. simpl. apply mod_fail; auto.
    + simpl in E. inversion E; subst. inversion Hr; subst. simpl. apply mod_fail; auto.
    + destruct (repr_ref_inv_gen _ _ _ _ Hr) as [c [its [dv [Ht [Hc [Hits Hd]]]]]]. subst t.
      pose proof (repr_items_length _ _ _ Hits) as Hlen.
      simpl in E. rewrite Hc in E.
      (* the common recursive step *)
      assert (DESC : forall n e h1 l', nth_item n (citems c) = Some e -> make_mut h l = (h1, l') ->
                (let h2 := put_item h1 l' n HNull in
                 let '(h3, e', r) := m_modify rest f h2 e in (put_item h3 l' n e', HRef l' d, r)) = (h', cur', r) ->
                exists te, nth_item n its = Some te /\
                  mod_post h (HRef l d) G
                    (let (e', r) := v_modify rest tf te in (VSeq (ckind c) (set_nth n e' its) dv, r)) h' cur' r).
      { intros n e h1 l' Hne MM E1. cbv zeta in E1.
        destruct (m_modify rest f (put_item h1 l' n HNull) e) as [[h3 e'] r1] eqn:ER. inversion E1; subst; clear E1.
        rewrite handles_ref in I.
        destruct (descend_open h l d c (ckind c) its dv n e G h1 l' I Hr Hc Hne MM)
          as [te [Hte [_ [Hre [Hr2 [C2 [Sopen _]]]]]]].
        set (h2 := put_item h1 l' n HNull) in *.
        assert (I2 : Inv h2 (handles e ++ l' :: handles_opt d ++ G)).
        { eapply Inv_equiv; [|apply (st_inv _ _ _ _ _ Sopen)]. occ_tac. }
        pose proof (IH h2 e te (l' :: handles_opt d ++ G) h3 e' r I2 Hre ER) as [Hre' Hres].
        exists te. split; auto.
        destruct (v_modify rest tf te) as [te' tr] eqn:EV. simpl in Hre', Hres.
        assert (Hn0 : nth_item n (set_nth n VNull its) = Some VNull) by (eapply nth_item_set_nth; eauto).
        destruct r as [res|]; destruct tr as [tres|]; try contradiction.
        - destruct Hres as [Hrres Srec].
          destruct (descend_close h2 (handles e) l' d G h3 (handles res) (ckind c) (set_nth n VNull its) dv n e' te')
            as [Hr4 [Sclose K4]]; auto.
          { eapply Step_equiv; [| |exact Srec]. intro; tauto. occ_tac. }
          rewrite set_nth_set_nth in Hr4.
          split; [exact Hr4|]. simpl. split.
          + apply K4; auto. apply incl_appl, incl_refl.
          + rewrite !handles_ref.
            assert (Srec2 : Step h2 (handles e) ((l' :: handles_opt d) ++ G) h3 (handles res ++ handles e')) by exact Srec.
            apply Step_frame in Srec2.
            eapply Step_trans; [exact Sopen|]. eapply Step_trans; [exact Srec2|].
            eapply Step_equiv; [| |exact Sclose]. apply in_occ_equiv; occ_tac. occ_tac.
        - rename Hres into Srec.
          destruct (descend_close h2 (handles e) l' d G h3 [] (ckind c) (set_nth n VNull its) dv n e' te')
            as [Hr4 [Sclose K4]]; auto.
          { rewrite app_nil_r. exact Srec. }
          rewrite set_nth_set_nth in Hr4. rewrite !app_nil_r in Sclose.
          split; [exact Hr4|]. simpl. rewrite !handles_ref.
          assert (Srec2 : Step h2 (handles e) ((l' :: handles_opt d) ++ G) h3 (handles e')) by exact Srec.
          apply Step_frame in Srec2.
          eapply Step_trans; [exact Sopen|]. eapply Step_trans; [exact Srec2|].
          eapply Step_equiv; [| |exact Sclose]. apply in_occ_equiv; occ_tac. occ_tac. }
      destruct (ckind c) eqn:K.
      * (* list *)
        destruct pe as [z | bs | sid' f0 | lo hi].
        -- destruct (make_mut h l) as [h1 l'] eqn:MM. simpl. rewrite <- Hlen.
           destruct (norm_index (length (citems c)) z) as [n|] eqn:NI.
           2: { inversion E; subst. eapply mod_fail_mm; eauto. }
           destruct (nth_item n (citems c)) as [e|] eqn:Ne.
           2: { inversion E; subst. rewrite (repr_items_nth_none _ _ _ _ Hits Ne). eapply mod_fail_mm; eauto. }
           destruct (DESC n e h1 l' Ne eq_refl E) as [te [Hte HP]]. rewrite Hte. exact HP.
        -- destruct (make_mut h l) as [h1 l'] eqn:MM. inversion E; subst. simpl. eapply mod_fail_mm; eauto.
        -- destruct (make_mut h l) as [h1 l'] eqn:MM. inversion E; subst. simpl. eapply mod_fail_mm; eauto.
        -- inversion E; subst. simpl. apply mod_fail; auto.
      * (* dict *)
        assert (VM : v_modify (pe :: rest) tf (VSeq KDict its dv) =
                     match key_of_pelem pe with
                     | Some k =>
                       match find_key k its with
                       | Some n => match nth_item n its with
                                   | Some e => let (e', r) := v_modify rest tf e in (VSeq KDict (set_nth n e' its) dv, r)
                                   | None => (VSeq KDict its dv, None)
                                   end
                       | None => match dv with
                                 | Some dt => let (e', r) := v_modify rest tf dt in (VSeq KDict (its ++ [(k, e')]) dv, r)
                                 | None => (VSeq KDict its dv, None)
                                 end
                       end
                     | None => (VSeq KDict its dv, None)
                     end) by reflexivity.
        rewrite VM.
        assert (KP : forall k, key_of_pelem pe = Some k ->
                  (let '(h1, l') := make_mut h l in
                   match find_key k (citems c) with
                   | Some n =>
                     match nth_item n (citems c) with
                     | Some e =>
                       let h2 := put_item h1 l' n HNull in
                       let '(h3, e', r) := m_modify rest f h2 e in (put_item h3 l' n e', HRef l' d, r)
                     | None => (h1, HRef l' d, None)
                     end
                   | None =>
                     match d with
                     | Some dv0 =>
                       let h2 := clone_val h1 dv0 in
                       let n := length (citems c) in
                       let h3 := set_items h2 l' (citems c ++ [(k, HNull)]) in
                       let '(h4, e', r) := m_modify rest f h3 dv0 in (put_item h4 l' n e', HRef l' d, r)
                     | None => (h1, HRef l' d, None)
                     end
                   end) = (h', cur', r) ->
                  mod_post h (HRef l d) G
                    match find_key k its with
                    | Some n => match nth_item n its with
                                | Some e => let (e', r) := v_modify rest tf e in (VSeq KDict (set_nth n e' its) dv, r)
                                | None => (VSeq KDict its dv, None)
                                end
                    | None => match dv with
                              | Some dt => let (e', r) := v_modify rest tf dt in (VSeq KDict (its ++ [(k, e')]) dv, r)
                              | None => (VSeq KDict its dv, None)
                              end
                    end h' cur' r).
        { intros k Hk E1. destruct (make_mut h l) as [h1 l'] eqn:MM.
          rewrite <- (repr_items_find_key _ _ _ k Hits).
          destruct (find_key k (citems c)) as [n|] eqn:FK.
          - destruct (nth_item n (citems c)) as [e|] eqn:Ne.
            + destruct (DESC n e h1 l' Ne eq_refl E1) as [te [Hte HP]]. rewrite Hte. exact HP.
            + inversion E1; subst. rewrite (repr_items_nth_none _ _ _ _ Hits Ne). eapply mod_fail_mm; eauto.
          - inversion Hd as [|dv0 dt Hdv0]; subst.
            + inversion E1; subst. eapply mod_fail_mm; eauto.
            + (* insert a copy of the default, then go on inside it *)
              cbv zeta in E1.
              destruct (m_modify rest f (set_items (clone_val h1 dv0) l' (citems c ++ [(k, HNull)])) dv0) as [[h4 e'] r1] eqn:ER.
              inversion E1; subst; clear E1.
              rewrite handles_ref in I. simpl handles_opt in *.
              assert (Hrk : repr h (HRef l (Some dv0)) (VSeq (ckind c) its (Some dt))) by (rewrite K; exact Hr).
              destruct (default_open h l dv0 c its dt G h1 l' k I Hrk Hc MM) as [Hdv3 [Hr3 [C3 Sopen]]].
              set (h3 := set_items (clone_val h1 dv0) l' (citems c ++ [(k, HNull)])) in *.
              assert (I3 : Inv h3 (handles dv0 ++ l' :: handles_opt (Some dv0) ++ G)).
              { simpl. eapply Inv_equiv; [|apply (st_inv _ _ _ _ _ Sopen)]. occ_tac. }
              pose proof (IH h3 dv0 dt (l' :: handles_opt (Some dv0) ++ G) h4 e' r I3 Hdv3 ER) as [Hre' Hres].
              destruct (v_modify rest tf dt) as [te' tr] eqn:EV. simpl in Hre', Hres.
              assert (Hn0 : nth_item (length (citems c)) (its ++ [(k, VNull)]) = Some VNull).
              { rewrite Hlen. apply nth_item_app_last. }
              destruct r as [res|]; destruct tr as [tres|]; try contradiction.
              * destruct Hres as [Hrres Srec].
                destruct (descend_close h3 (handles dv0) l' (Some dv0) G h4 (handles res) (ckind c) (its ++ [(k, VNull)]) (Some dt)
                            (length (citems c)) e' te') as [Hr4 [Sclose K4]]; auto.
                { eapply Step_equiv; [| |exact Srec]. intro; tauto. occ_tac. }
                rewrite Hlen, set_nth_app_last in Hr4. rewrite K in Hr4.
                split; [rewrite <- Hlen in Hr4; exact Hr4|]. simpl. split.
                -- apply K4; auto. apply incl_appl, incl_refl.
                -- rewrite !handles_ref. simpl handles_opt in *.
                   assert (Srec2 : Step h3 (handles dv0) ((l' :: handles dv0) ++ G) h4 (handles res ++ handles e')) by exact Srec.
                   apply Step_frame in Srec2.
                   eapply Step_trans; [exact Sopen|]. eapply Step_trans; [exact Srec2|].
                   eapply Step_equiv; [| |exact Sclose]. apply in_occ_equiv; occ_tac. occ_tac.
              * rename Hres into Srec.
                destruct (descend_close h3 (handles dv0) l' (Some dv0) G h4 [] (ckind c) (its ++ [(k, VNull)]) (Some dt)
                            (length (citems c)) e' te') as [Hr4 [Sclose K4]]; auto.
                { rewrite app_nil_r. exact Srec. }
                rewrite Hlen, set_nth_app_last in Hr4. rewrite K in Hr4. rewrite !app_nil_r in Sclose.
                split; [rewrite <- Hlen in Hr4; exact Hr4|]. simpl. rewrite !handles_ref. simpl handles_opt in *.
                assert (Srec2 : Step h3 (handles dv0) ((l' :: handles dv0) ++ G) h4 (handles e')) by exact Srec.
                apply Step_frame in Srec2.
                eapply Step_trans; [exact Sopen|]. eapply Step_trans; [exact Srec2|].
                eapply Step_equiv; [| |exact Sclose]. apply in_occ_equiv; occ_tac. occ_tac. }
        destruct pe as [z | bs | sid' f0 | lo hi].
        -- apply (KP (KI z)); auto.
        -- apply (KP (KB bs)); auto.
        -- inversion E; subst. simpl. apply mod_fail; auto.
        -- inversion E; subst. simpl. apply mod_fail; auto.
      * inversion E; subst. simpl. apply mod_fail; auto.
      * inversion E; subst. simpl. apply mod_fail; auto.
      * inversion E; subst. simpl. apply mod_fail; auto.
    + (* struct instance *)
      inversion Hr; subst. match goal with H : repr_list _ _ _ |- _ => rename H into Hfs end.
      simpl in E.
      destruct pe as [z | bs | sid' fl | lo hi]; try (inversion E; subst; simpl; apply mod_fail; auto; fail).
      simpl. destruct (Nat.eqb sid sid') eqn:Es; [|inversion E; subst; apply mod_fail; auto].
      destruct (nth_error fields fl) as [e|] eqn:Ef.
      2: { inversion E; subst. rewrite (repr_list_nth_none _ _ _ _ Hfs Ef). apply mod_fail; auto. }
      destruct (repr_list_nth _ _ _ _ _ Hfs Ef) as [te [Hte Hre]]. rewrite Hte.
      destruct (m_modify rest f h e) as [[h1 e'] r1] eqn:ER. inversion E; subst; clear E.
      set (others := handles_list (hset_field fl HNull fields)).
      assert (OC : forall x, occ x (handles_list fields) = occ x (handles e) + occ x others).
      { intro x. pose proof (occ_list_set_field x fields fl HNull e Ef). rewrite handles_null in H. unfold others. revert H. occ_tac. }
      rewrite handles_inst in I.
      assert (I0 : Inv h (handles e ++ others ++ G)).
      { eapply Inv_equiv; [|exact I]. intro x. specialize (OC x). revert OC. occ_tac. }
      pose proof (IH h e te (others ++ G) h' e' r I0 Hre ER) as [Hre' Hres].
      destruct (v_modify rest tf te) as [te' tr] eqn:EV. simpl in Hre', Hres.
      assert (REP : forall Rout, Step h (handles e) (others ++ G) h' Rout ->
                    repr h' (HInst sid (hset_field fl e' fields)) (VInst sid (set_field fl te' ts))).
      { intros Rout S. constructor.
        assert (Ho : repr h (HInst sid (hset_field fl HNull fields)) (VInst sid (set_field fl VNull ts))).
        { constructor. apply repr_list_set_field; auto. constructor. }
        eapply (Step_frame_repr _ _ _ _ _ _ _ _ S) in Ho.
        2: { rewrite handles_inst. apply incl_appl, incl_refl. }
        inversion Ho; subst.
        match goal with H : repr_list h' _ _ |- _ => pose proof (repr_list_set_field _ _ _ fl _ _ H Hre') as Hx end.
        rewrite hset_field_twice, set_field_twice in Hx. exact Hx. }
      assert (OC' : forall x, occ x (handles_list (hset_field fl e' fields)) = occ x (handles e') + occ x others).
      { intro x. pose proof (occ_list_set_field x fields fl e' e Ef). specialize (OC x). revert H OC. occ_tac. }
      destruct r as [res|]; destruct tr as [tres|]; try contradiction.
      * destruct Hres as [Hrres S]. split; [eapply REP; eauto|]. simpl. split; auto.
        rewrite !handles_inst. apply Step_frame in S.
        eapply Step_equiv; [| |exact S].
        -- apply in_occ_equiv. intro x. specialize (OC x). revert OC. occ_tac.
        -- intro x. specialize (OC' x). revert OC'. occ_tac.
      * split; [eapply REP; eauto|]. simpl.
        rewrite !handles_inst. apply Step_frame in Hres.
        eapply Step_equiv; [| |exact Hres].
        -- apply in_occ_equiv. intro x. specialize (OC x). revert OC. occ_tac.
        -- intro x. specialize (OC' x). revert OC'. occ_tac.
Qed.

(* ------------------------------------------------------------------ the slot functions: pop, remove, consume *)
Lemma consume_ok : mod_spec m_f_consume f_consume.
Proof.
  intros h cur t G h' cur' r I Hr E. unfold m_f_consume in E. inversion E; subst. unfold f_consume.
  split; [constructor|]. simpl. split; auto. rewrite handles_null, app_nil_r. apply Step_refl; auto.
Qed.

Lemma occ_items_del_nth x its n e :
  nth_item n its = Some e ->
  occ x (handles_items its) = occ x (handles_items (del_nth n its)) + occ x (handles e).
Proof.
  unfold nth_item, handles_items. revert n. induction its as [|[k y] its IH]; destruct n; simpl; intros H; try discriminate.
  - inversion H; subst. rewrite !occ_app. lia.
  - rewrite !occ_app. specialize (IH n H). lia.
Qed.

Lemma repr_items_del_nth h es ts n : repr_items h es ts -> repr_items h (del_nth n es) (del_nth n ts).
Proof. intro H. revert n. induction H; destruct n; simpl; auto; constructor; auto. Qed.

Lemma removelast_del_nth {A} (l : list A) : removelast l = del_nth (length l - 1) l.
Proof.
  induction l as [|a l IH]; simpl; auto. destruct l as [|b l]; simpl; auto.
  simpl in IH. rewrite IH. rewrite Nat.sub_0_r. reflexivity.
Qed.

Lemma slice_bounds_le len lo hi a b : slice_bounds len lo hi = (a, b) -> a <= b.
Proof. unfold slice_bounds. intro H. inversion H; subst. lia. Qed.

Lemma skipn_add {A} (l : list A) x y : skipn x (skipn y l) = skipn (y + x) l.
Proof. revert l. induction y; intro l; simpl; auto. destruct l; simpl; auto. destruct x; auto. Qed.

Lemma skipn_sub_split {A} (l : list A) a b : a <= b -> skipn a l = firstn (b - a) (skipn a l) ++ skipn b l.
Proof.
  intro H. rewrite <- (firstn_skipn (b - a) (skipn a l)) at 1. f_equal.
  rewrite skipn_add. f_equal. lia.
Qed.

Lemma occ_items_slice x (its : list (key * hval)) a b :
  a <= b ->
  occ x (handles_items its) = occ x (handles_items (firstn a its ++ skipn b its)) + occ x (handles_items (sub_items its a b)).
Proof.
  intro H. rewrite <- (firstn_skipn a its) at 1. rewrite (skipn_sub_split its a b H).
  unfold sub_items. rewrite !handles_items_app, !occ_app. lia.
Qed.

(* make_mut, then move some items out of the cell *)
Lemma extract_ok h l d c its dv G h1 l' its' ts' Rmoved :
  Inv h ((l :: handles_opt d) ++ G) ->
  repr h (HRef l d) (VSeq (ckind c) its dv) -> get_cell h l = Some c -> make_mut h l = (h1, l') ->
  (forall x, occ x (handles_items (citems c)) = occ x (handles_items its') + occ x Rmoved) ->
  (forall hh, repr_items hh (citems c) its -> repr_items hh its' ts') ->
  let h2 := set_items h1 l' its' in
  repr h2 (HRef l' d) (VSeq (ckind c) ts' dv) /\
  Step h (l :: handles_opt d) G h2 (Rmoved ++ l' :: handles_opt d) /\
  (forall e te, incl (handles e) (handles_items (citems c)) -> repr h e te -> repr h2 e te) /\
  (forall es ts, incl (handles_items es) (handles_items (citems c)) -> repr_items h es ts -> repr_items h2 es ts) /\
  (forall m, m <> l' -> same_body h h2 m).
Proof.
  intros I Hr Hc MM EX TR h2.
  destruct (make_mut_facts h _ G l d _ h1 l' I Hr MM) as [c0 [c1 [Hc0 [Hc1 [K1 [I1 [C1 [Inv1 [S1 [Hr1 B1]]]]]]]]]].
  rewrite Hc in Hc0. inversion Hc0; subst c0. clear Hc0.
  destruct (inplace_update h1 l' c1 (handles_opt d) (Rmoved ++ handles_opt d) its' G Inv1 Hc1 C1)
    as [S2 [Hc2 [T1 [T2 [T3 [N1 [U1 U2]]]]]]].
  { intro x. rewrite I1. specialize (EX x). revert EX. occ_tac. }
  fold h2 in S2, Hc2, T1, T2, T3.
  destruct (repr_ref_inv _ _ _ _ _ _ Hr1) as [c1' [Hc1' [_ [Hits1 Hd1]]]].
  rewrite Hc1 in Hc1'. inversion Hc1'; subst c1'. clear Hc1'.
  rewrite I1 in N1.
  split; [|split; [|split; [|split]]].
  - rewrite <- K1. change (ckind c1) with (ckind (mkcell 1 (ckind c1) its')). apply R_ref; auto.
    + simpl. apply TR. rewrite <- I1. apply T2; auto. rewrite I1. auto.
    + apply T3; auto. apply occ_notIn; auto.
  - eapply Step_trans; [exact S1|]. eapply Step_equiv; [| |exact S2]. intro; tauto. occ_tac.
  - intros e te Ie He. apply T1. { intro Hin. apply N1. apply Ie. auto. } eapply repr_ext; eauto.
  - intros es ts Ie He. apply T2. { intro Hin. apply N1. apply Ie. auto. } eapply repr_items_ext; eauto.
  - intros m Hm. eapply same_body_trans; [apply B1|]. apply set_items_same_body_others. auto.
Qed.

Lemma pop_ok : mod_spec m_f_pop f_pop.
Proof.
  intros h cur t G h' cur' r I Hr E.
  destruct cur as [| z | l d | sid fs]; simpl in E;
    try (inversion E; subst; inversion Hr; subst; simpl; apply mod_fail; auto; fail).
  destruct (repr_ref_inv_gen _ _ _ _ Hr) as [c [its [dv [Ht [Hc [Hits Hd]]]]]]. subst t.
  pose proof (repr_items_length _ _ _ Hits) as Hlen.
  rewrite Hc in E.
  destruct (ckind c) eqn:K; try (inversion E; subst; simpl; apply mod_fail; auto; fail).
  destruct (make_mut h l) as [h1 l'] eqn:MM. simpl. rewrite <- Hlen.
  destruct (nth_item (length (citems c) - 1) (citems c)) as [e|] eqn:Ne.
  2: { inversion E; subst. rewrite (repr_items_nth_none _ _ _ _ Hits Ne). eapply mod_fail_mm; eauto. }
  destruct (repr_items_nth _ _ _ _ _ Hits Ne) as [te [Hte Hre]]. rewrite Hte.
  inversion E; subst; clear E.
  rewrite handles_ref in I. rewrite <- K in Hr.
  destruct (extract_ok h l d c its dv G h1 l' (removelast (citems c)) (removelast its) (handles e) I Hr Hc MM)
    as [Hr2 [S2 [T1 _]]].
  { intro x. rewrite removelast_del_nth. apply occ_items_del_nth. auto. }
  { intros hh Hh. rewrite !removelast_del_nth, Hlen. apply repr_items_del_nth; auto. }
  rewrite K in Hr2. split; [exact Hr2|]. simpl. split.
  - apply T1; auto. eapply handles_items_nth; eauto.
  - rewrite !handles_ref. exact S2.
Qed.

Opaque alloc slice_bounds.
Lemma remove_ok pe : mod_spec (m_f_remove pe) (f_remove pe).
Proof.
  intros h cur t G h' cur' r I Hr E.
  destruct cur as [| z | l d | sid fs]; simpl in E;
    try (inversion E; subst; inversion Hr; subst; simpl; apply mod_fail; auto; fail).
  destruct (repr_ref_inv_gen _ _ _ _ Hr) as [c [its [dv [Ht [Hc [Hits Hd]]]]]]. subst t.
  pose proof (repr_items_length _ _ _ Hits) as Hlen.
  rewrite Hc in E.
  destruct (ckind c) eqn:K; try (inversion E; subst; simpl; apply mod_fail; auto; fail).
  - (* list *)
    destruct pe as [z | bs | sid' f | lo hi]; try (inversion E; subst; simpl; apply mod_fail; auto; fail).
    + simpl. rewrite <- Hlen. destruct (norm_index (length (citems c)) z) as [n|] eqn:NI.
      2: { inversion E; subst. apply mod_fail; auto. }
      destruct (nth_item n (citems c)) as [e|] eqn:Ne.
      2: { inversion E; subst. rewrite (repr_items_nth_none _ _ _ _ Hits Ne). apply mod_fail; auto. }
      destruct (repr_items_nth _ _ _ _ _ Hits Ne) as [te [Hte Hre]]. rewrite Hte.
      destruct (make_mut h l) as [h1 l'] eqn:MM. inversion E; subst; clear E.
      rewrite handles_ref in I. rewrite <- K in Hr.
      destruct (extract_ok h l d c its dv G h1 l' (del_nth n (citems c)) (del_nth n its) (handles e) I Hr Hc MM)
        as [Hr2 [S2 [T1 _]]].
      { intro x. apply occ_items_del_nth. auto. }
      { intros hh Hh. apply repr_items_del_nth; auto. }
      rewrite K in Hr2. split; [exact Hr2|]. simpl. split.
      * apply T1; auto. eapply handles_items_nth; eauto.
      * rewrite !handles_ref. exact S2.
    + unfold f_remove. rewrite <- Hlen. destruct (slice_bounds (length (citems c)) lo hi) as [a b] eqn:SB.
      pose proof (slice_bounds_le _ _ _ _ _ SB) as Hab.
      destruct (make_mut h l) as [h1 l'] eqn:MM.
      destruct (alloc (set_items h1 l' (firstn a (citems c) ++ skipn b (citems c))) KList (sub_items (citems c) a b)) as [h3 lr] eqn:EA.
      inversion E; subst; clear E.
      rewrite handles_ref in I. rewrite <- K in Hr.
      destruct (extract_ok h l d c its dv G h1 l' (firstn a (citems c) ++ skipn b (citems c)) (firstn a its ++ skipn b its)
                  (handles_items (sub_items (citems c) a b)) I Hr Hc MM) as [Hr2 [S2 [T1 [T2 _]]]].
      { intro x. apply occ_items_slice. auto. }
      { intros hh Hh. apply repr_items_app; [apply repr_items_firstn | apply repr_items_skipn]; auto. }
      set (h2 := set_items h1 l' (firstn a (citems c) ++ skipn b (citems c))) in *.
      assert (I2 : Inv h2 ((handles_items (sub_items (citems c) a b) ++ l' :: handles_opt d) ++ G)) by apply S2.
      destruct (alloc_step' h2 (l' :: handles_opt d) G KList (sub_items (citems c) a b) h' lr EA I2) as [S3 B3].
      rewrite K in Hr2. split; [eapply repr_ext; eauto|]. simpl. split.
      * eapply alloc_repr; eauto. apply T2. apply handles_items_sub. apply repr_items_sub; auto.
      * rewrite !handles_ref. simpl. eapply Step_trans; [exact S2|]. exact S3.
  - (* dict *)
    destruct pe as [z | bs | sid' f | lo hi]; try (inversion E; subst; simpl; apply mod_fail; auto; fail).
    + destruct (make_mut h l) as [h1 l'] eqn:MM. simpl in E. simpl.
      rewrite <- (repr_items_find_key _ _ _ (KI z) Hits).
      destruct (find_key (KI z) (citems c)) as [n|] eqn:FK; [|inversion E; subst; eapply mod_fail_mm; eauto].
      destruct (nth_item n (citems c)) as [e|] eqn:Ne.
      2: { inversion E; subst. rewrite (repr_items_nth_none _ _ _ _ Hits Ne). eapply mod_fail_mm; eauto. }
      destruct (repr_items_nth _ _ _ _ _ Hits Ne) as [te [Hte Hre]]. rewrite Hte.
      inversion E; subst; clear E.
      rewrite handles_ref in I. rewrite <- K in Hr.
      destruct (extract_ok h l d c its dv G h1 l' (del_nth n (citems c)) (del_nth n its) (handles e) I Hr Hc MM)
        as [Hr2 [S2 [T1 _]]].
      { intro x. apply occ_items_del_nth. auto. }
      { intros hh Hh. apply repr_items_del_nth; auto. }
      rewrite K in Hr2. split; [exact Hr2|]. simpl. split.
      * apply T1; auto. eapply handles_items_nth; eauto.
      * rewrite !handles_ref. exact S2.
    + destruct (make_mut h l) as [h1 l'] eqn:MM. simpl in E. simpl.
      rewrite <- (repr_items_find_key _ _ _ (KB bs) Hits).
      destruct (find_key (KB bs) (citems c)) as [n|] eqn:FK; [|inversion E; subst; eapply mod_fail_mm; eauto].
      destruct (nth_item n (citems c)) as [e|] eqn:Ne.
      2: { inversion E; subst. rewrite (repr_items_nth_none _ _ _ _ Hits Ne). eapply mod_fail_mm; eauto. }
      destruct (repr_items_nth _ _ _ _ _ Hits Ne) as [te [Hte Hre]]. rewrite Hte.
      inversion E; subst; clear E.
      rewrite handles_ref in I. rewrite <- K in Hr.
      destruct (extract_ok h l d c its dv G h1 l' (del_nth n (citems c)) (del_nth n its) (handles e) I Hr Hc MM)
        as [Hr2 [S2 [T1 _]]].
      { intro x. apply occ_items_del_nth. auto. }
      { intros hh Hh. apply repr_items_del_nth; auto. }
      rewrite K in Hr2. split; [exact Hr2|]. simpl. split.
      * apply T1; auto. eapply handles_items_nth; eauto.
      * rewrite !handles_ref. exact S2.
    + destruct (make_mut h l) as [h1 l'] eqn:MM. simpl in E. inversion E; subst. simpl. eapply mod_fail_mm; eauto.
Qed.
Transparent alloc slice_bounds.

(* ------------------------------------------------------------------ statements on a variable: take its content, put the result back *)
Lemma root_update h rs sg x cur h1 cur' t' Rin Rres :
  nth_error rs x = Some cur -> repr_list h rs sg ->
  Step h Rin (handles_list (set_root rs x HNull)) h1 (Rres ++ handles cur') ->
  repr h1 cur' t' ->
  Inv h1 (Rres ++ handles_list (set_root rs x cur')) /\
  repr_list h1 (set_root rs x cur') (set_var sg x t').
Proof.
  intros Ex Hrs S Hr'. set (others := handles_list (set_root rs x HNull)) in *. split.
  - eapply Inv_equiv; [|apply (st_inv _ _ _ _ _ S)].
    intro l. pose proof (roots_put x rs cur cur' Ex l). fold others in H. revert H. occ_tac.
  - assert (Ho : repr h (HInst 0 (set_root rs x HNull)) (VInst 0 (set_field x VNull sg))).
    { constructor. apply repr_list_set_field; auto. constructor. }
    apply (st_frame _ _ _ _ _ S) in Ho; [|rewrite handles_inst; apply incl_refl].
    inversion Ho; subst.
    match goal with H : repr_list h1 _ _ |- _ => pose proof (repr_list_set_field _ _ _ x _ _ H Hr') as Hx end.
    unfold set_root in Hx. rewrite hset_field_twice, set_field_twice in Hx. exact Hx.
Qed.

Lemma root_take h rs x cur :
  nth_error rs x = Some cur -> Inv h (handles_list rs) ->
  Inv h (handles cur ++ handles_list (set_root rs x HNull)).
Proof.
  intros Ex I. eapply Inv_equiv; [|exact I]. intro l. pose proof (roots_split x rs cur Ex l). revert H. occ_tac.
Qed.

Definition is_modlop (m : lop) : bool :=
  match m with LPop _ | LRemove _ _ | LConsume _ => true | _ => false end.

Lemma m_lop_mod_ok m : is_modlop m = true -> mod_spec (m_lop m) (lop_apply m).
Proof.
  destruct m; simpl; intro H; try discriminate.
  - apply m_modify_ok. apply pop_ok.
  - apply m_modify_ok. apply remove_ok.
  - apply m_modify_ok. apply consume_ok.
Qed.

Lemma exec_mod_ok dst x m : is_modlop m = true ->
  match dst with Some (y, q) => noslice q = true | None => True end ->
  forall h rs sg st' ok,
  Inv h (handles_list rs) -> repr_list h rs sg ->
  m_exec_s (mkst h rs) (SMod dst x m) = (st', ok) ->
  exists sg', exec_s sg (SMod dst x m) = (sg', ok) /\ StInv st' /\ Sim st' sg'.
Proof.
  intros HM HD h rs sg st' ok I Hrs E. simpl in E. simpl.
  destruct (nth_error rs x) as [cur|] eqn:Ex.
  2: { inversion E; subst. rewrite (repr_list_nth_none _ _ _ _ Hrs Ex). eexists; split; [reflexivity|]. split; auto. }
  destruct (repr_list_nth _ _ _ _ _ Hrs Ex) as [tcur [Htc Hcur]]. rewrite Htc.
  destruct (m_lop m h cur) as [[h1 cur'] r] eqn:EL.
  pose proof (root_take h rs x cur Ex I) as I0.
  pose proof (m_lop_mod_ok m HM h cur tcur _ h1 cur' r I0 Hcur EL) as [Hr' Hres].
  destruct (lop_apply m tcur) as [t' tr] eqn:EV. simpl in Hr', Hres.
  destruct r as [res|]; destruct tr as [tres|]; try contradiction.
  - destruct Hres as [Hrres S].
    destruct (root_update h rs sg x cur h1 cur' t' _ (handles res) Ex Hrs S Hr') as [I1 Hrs1].
    destruct dst as [[y q]|].
    + eapply m_assign_to_ok; eauto.
    + inversion E; subst; clear E.
      destruct (drop_val_keep h1 res (handles_list (set_root rs x cur')) []) as [S2 K2].
      { rewrite app_nil_r. auto. }
      eexists; split; [reflexivity|]. split.
      * unfold StInv. simpl. pose proof (st_inv _ _ _ _ _ S2) as I2. rewrite app_nil_r in I2. auto.
      * unfold Sim. simpl. apply repr_list_as_inst. apply K2.
        -- rewrite handles_inst, app_nil_r. apply incl_refl.
        -- apply repr_list_as_inst. auto.
  - inversion E; subst; clear E.
    assert (S' : Step h (handles cur) (handles_list (set_root rs x HNull)) h1 ([] ++ handles cur')) by exact Hres.
    destruct (root_update h rs sg x cur h1 cur' t' _ [] Ex Hrs S' Hr') as [I1 Hrs1].
    eexists; split; [reflexivity|]. split; auto.
Qed.

(* ------------------------------------------------------------------ the consuming builtins *)
Definition bop_post (h : heap) (a b : hval) (G : list loc) (tr : option val) (h' : heap) (r : option hval) : Prop :=
  match r, tr with
  | Some res, Some t => repr h' res t /\ Step h (handles a ++ handles b) G h' (handles res)
  | None, None => Step h (handles a ++ handles b) G h' []
  | _, _ => False
  end.

Lemma drop2_ok h a b G : Inv h ((handles a ++ handles b) ++ G) -> Step h (handles a ++ handles b) G (drop2 h a b) [].
Proof.
  intro I. unfold drop2.
  destruct (drop_val_step h a (handles b) G I) as [S1 _].
  assert (I1 : Inv (drop_val h a) ((handles b ++ []) ++ G)) by (rewrite app_nil_r; apply S1).
  destruct (drop_val_step (drop_val h a) b [] G I1) as [S2 _].
  eapply Step_trans; [exact S1|]. rewrite app_nil_r in S2. exact S2.
Qed.

Lemma kind_of_repr h v t k :
  repr h v t -> kind_of h v = Some k ->
  exists l d c its dv, v = HRef l d /\ get_cell h l = Some c /\ ckind c = k /\ t = VSeq k its dv /\
                       repr_items h (citems c) its /\ repr_opt h d dv.
Proof.
  intros Hr Hk. destruct v as [| z | l d | sid fs]; simpl in Hk; try discriminate.
  destruct (repr_ref_inv_gen _ _ _ _ Hr) as [c [its [dv [Ht [Hc [Hits Hd]]]]]].
  rewrite Hc in Hk. inversion Hk; subst. exists l, d, c, its, dv. repeat split; auto.
Qed.

Lemma kind_of_none h v t : repr h v t -> kind_of h v = None -> forall k its dv, t <> VSeq k its dv.
Proof.
  intros Hr Hk k its dv Ht. subst. inversion Hr; subst. simpl in Hk.
  match goal with H : get_cell _ _ = Some _ |- _ => rewrite H in Hk end. discriminate.
Qed.

(* append to a list/vector/bytes payload: make_mut, push *)
Lemma push_ok h l d c its dv b tb G h1 l' :
  Inv h ((handles (HRef l d) ++ handles b) ++ G) ->
  repr h (HRef l d) (VSeq (ckind c) its dv) -> repr h b tb ->
  get_cell h l = Some c -> make_mut h l = (h1, l') ->
  let h2 := set_items h1 l' (items_of h1 l' ++ [(nokey, b)]) in
  repr h2 (HRef l' d) (VSeq (ckind c) (its ++ [(nokey, tb)]) dv) /\
  Step h (handles (HRef l d) ++ handles b) G h2 (handles (HRef l' d)).
Proof.
  intros I Hr Hb Hc MM h2. rewrite !handles_ref in *.
  assert (I' : Inv h ((l :: handles_opt d ++ handles b) ++ G)) by (eapply Inv_equiv; [|exact I]; occ_tac).
  destruct (make_mut_facts h _ G l d _ h1 l' I' Hr MM) as [c0 [c1 [Hc0 [Hc1 [K1 [I1 _]]]]]].
  rewrite Hc in Hc0. inversion Hc0; subst c0.
  assert (E : items_of h1 l' = citems c) by (rewrite (items_of_eq _ _ _ Hc1); auto).
  unfold h2. rewrite E.
  destruct (add_item_ok h l d c its dv nokey b tb G h1 l' I' Hr Hb Hc MM) as [Hr2 S2].
  split; auto.
Qed.

Lemma mm_then_drop2 h l d t b G h1 l' :
  Inv h ((handles (HRef l d) ++ handles b) ++ G) -> repr h (HRef l d) t -> make_mut h l = (h1, l') ->
  Step h (handles (HRef l d) ++ handles b) G (drop2 h1 (HRef l' d) b) [].
Proof.
  intros I Hr MM. rewrite !handles_ref in *.
  assert (I' : Inv h ((l :: handles_opt d ++ handles b) ++ G)) by (eapply Inv_equiv; [|exact I]; occ_tac).
  destruct (make_mut_facts h _ G l d _ h1 l' I' Hr MM) as [c0 [c1 [Hc0 [Hc1 [K1 [I1 [C1 [Inv1 [S1 _]]]]]]]]].
  assert (I1' : Inv h1 ((handles (HRef l' d) ++ handles b) ++ G)).
  { rewrite handles_ref. eapply Inv_equiv; [|exact Inv1]. occ_tac. }
  pose proof (drop2_ok h1 (HRef l' d) b G I1') as S2. rewrite handles_ref in S2.
  eapply Step_trans; [|exact S2]. eapply Step_equiv; [| |exact S1]. apply in_occ_equiv; occ_tac. occ_tac.
Qed.

Lemma bop_append_ok h a b ta tb G h' r :
  Inv h ((handles a ++ handles b) ++ G) -> repr h a ta -> repr h b tb ->
  m_bop BAppend h a b = (h', r) -> bop_post h a b G (bop_apply BAppend ta tb) h' r.
Proof.
  intros I Ha Hb E. unfold m_bop in E.
  destruct (kind_of h a) as [k|] eqn:KA.
  2: { inversion E; subst. unfold bop_post.
       assert (bop_apply BAppend ta tb = None).
       { pose proof (kind_of_none _ _ _ Ha KA). destruct ta; auto. exfalso. eapply H; eauto. }
       rewrite H. apply drop2_ok; auto. }
  destruct (kind_of_repr _ _ _ _ Ha KA) as [l [d [c [its [dv [Ea [Hc [Kc [Et [Hits Hd]]]]]]]]]]. subst a ta.
  simpl ref_loc in E. simpl ref_dflt in E.
  assert (NOK : (h', r) = (drop2 h (HRef l d) b, None) -> bop_apply BAppend (VSeq k its dv) tb = None ->
                bop_post h (HRef l d) b G (bop_apply BAppend (VSeq k its dv) tb) h' r).
  { intros E1 E2. inversion E1; subst. rewrite E2. apply drop2_ok; auto. }
  rewrite <- Kc in Ha.
  destruct k; try (apply NOK; [symmetry; exact E | reflexivity]).
  - (* list *)
    destruct (make_mut h l) as [h1 l'] eqn:MM. inversion E; subst; clear E.
    destruct (push_ok h l d c its dv b tb G h1 l' I Ha Hb Hc MM) as [Hr2 S2].
    simpl. rewrite Kc in Hr2. split; auto.
  - (* vector *)
    destruct (make_mut h l) as [h1 l'] eqn:MM.
    destruct b as [| z | lb db | sid fs]; inversion Hb; subst;
      try (inversion E; subst; simpl; eapply mm_then_drop2; eauto; fail).
    inversion E; subst; clear E.
    destruct (push_ok h l d c its dv (HInt z) (VInt z) G h1 l' I Ha Hb Hc MM) as [Hr2 S2].
    simpl. rewrite Kc in Hr2. split; auto.
  - (* bytes *)
    destruct (make_mut h l) as [h1 l'] eqn:MM.
    destruct b as [| z | lb db | sid fs]; inversion Hb; subst;
      try (inversion E; subst; simpl; eapply mm_then_drop2; eauto; fail).
    simpl. destruct (is_byte z).
    + inversion E; subst; clear E.
      destruct (push_ok h l d c its dv (HInt z) (VInt z) G h1 l' I Ha Hb Hc MM) as [Hr2 S2].
      rewrite Kc in Hr2. split; auto.
    + inversion E; subst. eapply mm_then_drop2; eauto.
Qed.

Lemma hmap_plus_repr h z es ts :
  repr_items h es ts ->
  match hmap_plus z es with
  | Some r => exists tr, map_plus z ts = Some tr /\ repr_items h r tr /\ handles_items r = []
  | None => map_plus z ts = None
  end.
Proof.
  induction 1; simpl.
  - exists []. repeat split; constructor.
  - destruct e; inversion H; subst; simpl; auto.
    destruct (hmap_plus z es) as [r|].
    + destruct IHrepr_items as [tr [E1 [E2 E3]]]. rewrite E1. exists ((nokey, VInt (z0 + z)) :: tr).
      split; auto. split; [constructor; auto; constructor|].
      unfold handles_items in *. simpl. rewrite E3, handles_int. reflexivity.
    + rewrite IHrepr_items. reflexivity.
Qed.

Lemma hzip_plus_repr h es ts es' ts' :
  repr_items h es ts -> repr_items h es' ts' ->
  match hzip_plus es es' with
  | Some r => exists tr, zip_plus ts ts' = Some tr /\ repr_items h r tr /\ handles_items r = []
  | None => zip_plus ts ts' = None
  end.
Proof.
  intro H. revert es' ts'. induction H; intros es' ts' H'; inversion H'; subst; simpl.
  - exists []. repeat split; constructor.
  - reflexivity.
  - destruct e; inversion H; subst; reflexivity.
  - destruct e; inversion H; subst; simpl; auto.
    destruct e0; inversion H1; subst; simpl; auto.
    specialize (IHrepr_items _ _ H2).
    destruct (hzip_plus es es0) as [r|].
    + destruct IHrepr_items as [tr [E1 [E2 E3]]]. rewrite E1. exists ((nokey, VInt (z + z0)) :: tr).
      split; auto. split; [constructor; auto; constructor|].
      unfold handles_items in *. simpl. rewrite E3, handles_int. reflexivity.
    + rewrite IHrepr_items. reflexivity.
Qed.

(* a fresh vector with scalar items, then both operands are dropped *)
Lemma fresh_vec_ok h a b G its ts :
  Inv h ((handles a ++ handles b) ++ G) -> repr_items h its ts -> handles_items its = [] ->
  forall h1 l', alloc h KVec its = (h1, l') ->
  repr (drop2 h1 a b) (HRef l' None) (VSeq KVec ts None) /\
  Step h (handles a ++ handles b) G (drop2 h1 a b) (handles (HRef l' None)).
Proof.
  intros I Hits Hn h1 l' EA.
  assert (I0 : Inv h ((handles_items its ++ handles a ++ handles b) ++ G)).
  { rewrite Hn. simpl. auto. }
  destruct (alloc_step' h (handles a ++ handles b) G KVec its h1 l' EA I0) as [S1 B1].
  pose proof (alloc_repr h KVec its ts h1 l' EA Hits) as Hr1.
  assert (I1 : Inv h1 ((handles a ++ handles b) ++ l' :: G)).
  { eapply Inv_equiv; [|apply S1]. occ_tac. }
  pose proof (drop2_ok h1 a b (l' :: G) I1) as S2.
  split.
  - eapply (st_frame _ _ _ _ _ S2); eauto. rewrite handles_ref. simpl. intros x Hx. simpl in Hx. destruct Hx; [left; auto|contradiction].
  - rewrite handles_ref. simpl.
    assert (S2' : Step h1 (handles a ++ handles b) ([l'] ++ G) (drop2 h1 a b) []) by exact S2.
    apply Step_frame in S2'. simpl in S2'.
    eapply Step_trans; [|exact S2']. rewrite Hn in S1. simpl in S1.
    eapply Step_equiv; [| |exact S1]. intro; tauto. occ_tac.
Qed.

Opaque alloc.
Lemma bop_plus_ok h a b ta tb G h' r :
  Inv h ((handles a ++ handles b) ++ G) -> repr h a ta -> repr h b tb ->
  m_bop BPlus h a b = (h', r) -> bop_post h a b G (bop_apply BPlus ta tb) h' r.
Proof.
  intros I Ha Hb E. unfold m_bop in E.
  assert (NOK : (h', r) = (drop2 h a b, None) -> bop_apply BPlus ta tb = None ->
                bop_post h a b G (bop_apply BPlus ta tb) h' r).
  { intros E1 E2. inversion E1; subst. rewrite E2. apply drop2_ok; auto. }
  assert (VEC : forall its ts, repr_items h its ts -> handles_items its = [] ->
                (let '(h1, l') := alloc h KVec its in (drop2 h1 a b, Some (HRef l' None))) = (h', r) ->
                bop_apply BPlus ta tb = Some (VSeq KVec ts None) ->
                bop_post h a b G (bop_apply BPlus ta tb) h' r).
  { intros its ts Hits Hn E1 E2. destruct (alloc h KVec its) as [h1 l'] eqn:EA. inversion E1; subst.
    rewrite E2. destruct (fresh_vec_ok h a b G its ts I Hits Hn h1 l' EA). split; auto. }
  destruct a as [| x | la da | sa fa]; destruct b as [| y | lb db | sb fb];
    inversion Ha; subst; inversion Hb; subst; simpl in E;
    try (apply NOK; [symmetry; exact E | reflexivity]).
  - (* int + int *)
    inversion E; subst. simpl. split; [constructor|]. rewrite !handles_int. simpl. apply Step_refl. rewrite !handles_int in I. auto.
  - (* int + vector *)
    match goal with H : get_cell h lb = Some ?c |- _ => rename H into Hcb; rename c into cb end.
    rewrite Hcb in E. destruct (ckind cb) eqn:Kb; try (apply NOK; [symmetry; exact E | reflexivity]).
    rewrite (items_of_eq _ _ _ Hcb) in E.
    match goal with H : repr_items h (citems cb) ?ts |- _ => pose proof (hmap_plus_repr h x _ _ H) as HM end.
    destruct (hmap_plus x (citems cb)) as [rr|].
    + destruct HM as [tr [E1 [E2 E3]]]. eapply VEC; eauto. simpl. rewrite E1. reflexivity.
    + apply NOK; [symmetry; exact E|]. simpl. rewrite HM. reflexivity.
  - (* vector + ... *)
    match goal with H : get_cell h la = Some ?c |- _ => rename H into Hca; rename c into ca end.
    rewrite Hca in E. destruct (ckind ca) eqn:Ka; try (apply NOK; [symmetry; exact E | reflexivity]).
  - match goal with H : get_cell h la = Some ?c |- _ => rename H into Hca; rename c into ca end.
    rewrite Hca in E. destruct (ckind ca) eqn:Ka; try (apply NOK; [symmetry; exact E | reflexivity]).
    rewrite (items_of_eq _ _ _ Hca) in E.
    match goal with H : repr_items h (citems ca) ?ts |- _ => pose proof (hmap_plus_repr h y _ _ H) as HM end.
    destruct (hmap_plus y (citems ca)) as [rr|].
    + destruct HM as [tr [E1 [E2 E3]]]. eapply VEC; eauto. simpl. rewrite E1. reflexivity.
    + apply NOK; [symmetry; exact E|]. simpl. rewrite HM. reflexivity.
  - match goal with H : get_cell h la = Some ?c |- _ => rename H into Hca; rename c into ca end.
    match goal with H : get_cell h lb = Some ?c |- _ => rename H into Hcb; rename c into cb end.
    rewrite Hca, Hcb in E.
    destruct (ckind ca) eqn:Ka; try (apply NOK; [symmetry; exact E | destruct (ckind cb); reflexivity]).
    destruct (ckind cb) eqn:Kb; try (apply NOK; [symmetry; exact E | reflexivity]).
    rewrite (items_of_eq _ _ _ Hca), (items_of_eq _ _ _ Hcb) in E.
    match goal with H1 : repr_items h (citems ca) _, H2 : repr_items h (citems cb) _ |- _ =>
      pose proof (hzip_plus_repr h _ _ _ _ H1 H2) as HM end.
    destruct (hzip_plus (citems ca) (citems cb)) as [rr|].
    + destruct HM as [tr [E1 [E2 E3]]]. eapply VEC; eauto. simpl. rewrite E1. reflexivity.
    + apply NOK; [symmetry; exact E|]. simpl. rewrite HM. reflexivity.
  - match goal with H : get_cell h la = Some ?c |- _ => rename H into Hca; rename c into ca end.
    rewrite Hca in E. destruct (ckind ca) eqn:Ka; try (apply NOK; [symmetry; exact E | reflexivity]).
Qed.
Transparent alloc.

(* a ++ b on two payloads of the same list-like kind: make_mut both, move b's items behind a's *)
Lemma concat_ok h l1 d1 c1 its1 dv1 l2 d2 c2 its2 dv2 G h1 la h2 lb :
  Inv h ((handles (HRef l1 d1) ++ handles (HRef l2 d2)) ++ G) ->
  repr h (HRef l1 d1) (VSeq (ckind c1) its1 dv1) -> repr h (HRef l2 d2) (VSeq (ckind c2) its2 dv2) ->
  get_cell h l1 = Some c1 -> get_cell h l2 = Some c2 ->
  make_mut h l1 = (h1, la) -> make_mut h1 l2 = (h2, lb) ->
  let moved := items_of h2 lb in
  let h3 := set_items h2 lb [] in
  let h4 := set_items h3 la (items_of h3 la ++ moved) in
  let h5 := drop_val h4 (HRef lb d2) in
  repr h5 (HRef la d1) (VSeq (ckind c1) (its1 ++ its2) dv1) /\
  Step h (handles (HRef l1 d1) ++ handles (HRef l2 d2)) G h5 (handles (HRef la d1)).
Proof.
  intros I Ha Hb Hc1 Hc2 MM1 MM2 moved h3 h4 h5. rewrite !handles_ref in *.
  (* make_mut a *)
  assert (Ia : Inv h ((l1 :: handles_opt d1 ++ l2 :: handles_opt d2) ++ G)) by (eapply Inv_equiv; [|exact I]; occ_tac).
  destruct (make_mut_facts h _ G l1 d1 _ h1 la Ia Ha MM1) as [c1x [c1' [Hc1x [Hc1' [K1 [I1 [C1 [Inv1 [S1 [Ha1 B1]]]]]]]]]].
  rewrite Hc1 in Hc1x. inversion Hc1x; subst c1x. clear Hc1x.
  assert (Hb1 : repr h1 (HRef l2 d2) (VSeq (ckind c2) its2 dv2)) by (eapply repr_ext; eauto).
  (* make_mut b *)
  assert (Ib : Inv h1 ((l2 :: handles_opt d2) ++ la :: handles_opt d1 ++ G)) by (eapply Inv_equiv; [|exact Inv1]; occ_tac).
  destruct (make_mut_facts h1 _ _ l2 d2 _ h2 lb Ib Hb1 MM2) as [c2x [c2' [Hc2x [Hc2' [K2 [I2 [C2 [Inv2 [S2 [Hb2 B2]]]]]]]]]].
  assert (K2' : ckind c2' = ckind c2 /\ citems c2' = citems c2).
  { destruct (B1 l2 c2 Hc2) as [cc [Hcc [Kcc Icc]]]. rewrite Hcc in Hc2x. inversion Hc2x; subst. split; congruence. }
  destruct K2' as [K2' I2'].
  assert (Ia2 : Inv h1 ((l2 :: handles_opt d2) ++ la :: (handles_opt d1 ++ G))) by exact Ib.
  assert (Cla1 : cnt_of h1 la = 1) by (rewrite (cnt_of_cell _ _ _ Hc1'); auto).
  destruct (still_unique h1 (l2 :: handles_opt d2) la (handles_opt d1 ++ G) h2 (lb :: handles_opt d2) S2 Ia2 Cla1)
    as [Cla2 [Ula2 [Ula3 Ula4]]].
  assert (Ha2 : repr h2 (HRef la d1) (VSeq (ckind c1) its1 dv1)) by (eapply repr_ext; eauto).
  destruct (repr_ref_inv _ _ _ _ _ _ Ha2) as [ca2 [Hca2 [Kca2 [Hitsa2 Hda2]]]].
  assert (Cca2 : cnt ca2 = 1) by (rewrite (cnt_of_cell _ _ _ Hca2) in Cla2; auto).
  destruct (repr_ref_inv _ _ _ _ _ _ Hb2) as [cb2 [Hcb2 [Kcb2 [Hitsb2 Hdb2]]]].
  rewrite Hc2' in Hcb2. inversion Hcb2; subst cb2. clear Hcb2.
  assert (Nab : la <> lb).
  { intro; subst lb. rewrite occ_cons_eq in Ula3. discriminate. }
  (* empty b's cell: its items are now held by the operation *)
  assert (Em : moved = citems c2') by (unfold moved; apply items_of_eq; auto).
  assert (Inv2' : Inv h2 ((lb :: handles_opt d2 ++ la :: handles_opt d1) ++ G)).
  { eapply Inv_equiv; [|exact Inv2]. occ_tac. }
  destruct (inplace_update h2 lb c2' (handles_opt d2 ++ la :: handles_opt d1)
              (handles_items moved ++ handles_opt d2 ++ la :: handles_opt d1) [] G Inv2' Hc2' C2)
    as [S3 [Hc3 [T1 [T2 [T3 [N3 [U3 V3]]]]]]].
  { intro x. rewrite Em. unfold handles_items at 3. simpl. occ_tac. }
  fold h3 in S3, Hc3, T1, T2, T3.
  assert (Hca3 : get_cell h3 la = Some ca2) by (unfold h3; rewrite get_cell_set_items_neq; auto).
  assert (Ea3 : items_of h3 la = citems ca2) by (apply items_of_eq; auto).
  (* extend a's cell *)
  assert (Inv3 : Inv h3 ((la :: handles_opt d1 ++ lb :: handles_opt d2 ++ handles_items moved) ++ G)).
  { eapply Inv_equiv; [|apply S3]. occ_tac. }
  destruct (inplace_update h3 la ca2 (handles_opt d1 ++ lb :: handles_opt d2 ++ handles_items moved)
              (handles_opt d1 ++ lb :: handles_opt d2) (citems ca2 ++ moved) G Inv3 Hca3 Cca2)
    as [S4 [Hc4 [T1' [T2' [T3' [N4 [U4 V4]]]]]]].
  { intro x. rewrite handles_items_app. occ_tac. }
  unfold h5, h4. clear h5 h4. rewrite Ea3.
  set (h4' := set_items h3 la (citems ca2 ++ moved)) in *.
  assert (Nd1 : ~ In la (handles_opt d1)).
  { apply occ_notIn. apply occ_zero_app in U4. tauto. }
  assert (Nmv : ~ In la (handles_items moved)).
  { apply occ_notIn. apply occ_zero_app in U4. destruct U4 as [_ U4]. rewrite occ_cons_neq in U4; auto.
    apply occ_zero_app in U4. tauto. }
  assert (Nlb_a : ~ In lb (handles_items (citems ca2))).
  { intro Hin. assert (In lb (handles_heap h2)) by (eapply In_handles_heap; eauto).
    destruct (owned_unique _ _ _ _ _ Inv2' Hc2' C2) as [_ [_ W]]. apply occ_notIn in W. auto. }
  assert (Nlb_d1 : ~ In lb (handles_opt d1)).
  { apply occ_notIn. apply occ_zero_app in U3. destruct U3 as [_ U3]. rewrite occ_cons_neq in U3; auto. }
  assert (Hr4 : repr h4' (HRef la d1) (VSeq (ckind c1) (its1 ++ its2) dv1)).
  { rewrite Kca2. change (ckind ca2) with (ckind (mkcell 1 (ckind ca2) (citems ca2 ++ moved))).
    apply R_ref; [auto| |].
    - simpl. apply repr_items_app.
      + apply T2'; auto; apply T2; auto.
      + apply T2'; auto; rewrite Em; apply T2; auto; rewrite <- Em; auto.
    - apply T3'; auto; apply T3; auto. }
  (* release b's (now empty) cell *)
  assert (Inv4 : Inv h4' ((handles (HRef lb d2) ++ la :: handles_opt d1) ++ G)).
  { rewrite handles_ref. eapply Inv_equiv; [|apply S4]. occ_tac. }
  destruct (drop_val_keep h4' (HRef lb d2) (la :: handles_opt d1) G Inv4) as [S5 K5].
  rewrite handles_ref in S5.
  split.
  - apply K5; auto. rewrite handles_ref. apply incl_appl, incl_refl.
  - eapply Step_trans; [eapply Step_equiv; [| |exact S1]|]. apply in_occ_equiv; occ_tac. intro; reflexivity.
    assert (S2' : Step h1 (l2 :: handles_opt d2) ((la :: handles_opt d1) ++ G) h2 (lb :: handles_opt d2)) by exact S2.
    apply Step_frame in S2'.
    eapply Step_trans; [eapply Step_equiv; [| |exact S2']|]. apply in_occ_equiv; occ_tac. intro; reflexivity.
    eapply Step_trans; [eapply Step_equiv; [| |exact S3]|]. apply in_occ_equiv; occ_tac. intro; reflexivity.
    eapply Step_trans; [eapply Step_equiv; [| |exact S4]|]. apply in_occ_equiv; occ_tac. intro; reflexivity.
    eapply Step_equiv; [| |exact S5]. apply in_occ_equiv; occ_tac. occ_tac.
Qed.

Lemma bop_concat_ok h a b ta tb G h' r :
  Inv h ((handles a ++ handles b) ++ G) -> repr h a ta -> repr h b tb ->
  m_bop BConcat h a b = (h', r) -> bop_post h a b G (bop_apply BConcat ta tb) h' r.
Proof.
  intros I Ha Hb E. unfold m_bop in E.
  assert (NOK : (h', r) = (drop2 h a b, None) -> bop_apply BConcat ta tb = None ->
                bop_post h a b G (bop_apply BConcat ta tb) h' r).
  { intros E1 E2. inversion E1; subst. rewrite E2. apply drop2_ok; auto. }
  destruct (kind_of h a) as [ka|] eqn:KA.
  2: { apply NOK; [symmetry; exact E|]. pose proof (kind_of_none _ _ _ Ha KA). destruct ta; auto. exfalso. eapply H; eauto. }
  destruct (kind_of h b) as [kb|] eqn:KB.
  2: { apply NOK; [symmetry; exact E|]. pose proof (kind_of_none _ _ _ Hb KB).
       destruct ta as [| |k1 x1 d1|]; auto. destruct tb as [| |k2 x2 d2|]; try (destruct k1; reflexivity). exfalso. eapply H; eauto. }
  destruct (kind_of_repr _ _ _ _ Ha KA) as [l1 [d1 [c1 [its1 [dv1 [Ea [Hc1 [Kc1 [Et1 [Hits1 Hd1]]]]]]]]]].
  destruct (kind_of_repr _ _ _ _ Hb KB) as [l2 [d2 [c2 [its2 [dv2 [Eb [Hc2 [Kc2 [Et2 [Hits2 Hd2]]]]]]]]]].
  subst a b ta tb. simpl ref_loc in E. simpl ref_dflt in E.
  destruct (kind_eqb ka kb && negb (kind_eqb ka KDict) && negb (kind_eqb ka KStr)) eqn:C.
  2: { apply NOK; [symmetry; exact E|]. destruct ka; destruct kb; simpl in C; try discriminate; reflexivity. }
  destruct (make_mut h l1) as [h1 la] eqn:MM1. destruct (make_mut h1 l2) as [h2 lb] eqn:MM2.
  inversion E; subst; clear E.
  destruct (concat_ok h l1 d1 c1 its1 dv1 l2 d2 c2 its2 dv2 G h1 la h2 lb I Ha Hb Hc1 Hc2 MM1 MM2) as [Hr5 S5].
  assert (bop_apply BConcat (VSeq (ckind c1) its1 dv1) (VSeq (ckind c2) its2 dv2) = Some (VSeq (ckind c1) (its1 ++ its2) dv1)).
  { destruct (ckind c1); destruct (ckind c2); simpl in C; try discriminate; reflexivity. }
  unfold bop_post. rewrite H. split; auto.
Qed.

Lemma hbytes_repr h es ts : repr_items h es ts -> hbytes_of_items es = bytes_of_items ts.
Proof.
  induction 1; simpl; auto. destruct e; inversion H; subst; auto. rewrite IHrepr_items. reflexivity.
Qed.

Lemma hkey_repr h v t : repr h v t -> hkey_of_val h v = key_of_val t.
Proof.
  intro Hr. destruct v as [| z | l d | sid fs]; inversion Hr; subst; simpl; auto.
  match goal with H : get_cell _ _ = Some _ |- _ => rewrite H end.
  destruct (ckind c); auto. erewrite hbytes_repr; eauto.
Qed.

(* HashMap::insert into a uniquely owned dict cell *)
Lemma m_put_key_ok h l d c its dv k v tv G :
  Inv h ((l :: handles_opt d ++ handles v) ++ G) ->
  repr h (HRef l d) (VSeq (ckind c) its dv) -> repr h v tv -> get_cell h l = Some c -> cnt c = 1 ->
  repr (m_put_key h l k v) (HRef l d) (VSeq (ckind c) (put_key k tv its) dv) /\
  Step h (l :: handles_opt d ++ handles v) G (m_put_key h l k v) (l :: handles_opt d).
Proof.
  intros I Hr Hv Hc C1.
  destruct (repr_ref_inv _ _ _ _ _ _ Hr) as [c0 [Hc0 [_ [Hits Hd]]]].
  rewrite Hc in Hc0. inversion Hc0; subst c0. clear Hc0.
  pose proof (make_mut_unique h l c Hc C1) as MM.
  unfold m_put_key, put_key. rewrite (items_of_eq _ _ _ Hc). rewrite <- (repr_items_find_key _ _ _ k Hits).
  destruct (find_key k (citems c)) as [n|] eqn:FK.
  - destruct (nth_item n (citems c)) as [old|] eqn:No.
    + apply (replace_item_ok h l d c its dv n old v tv G h l I Hr Hv Hc No MM).
    + exfalso. clear - FK No. revert n FK No. induction (citems c) as [|[k0 x] tl IHl]; intros n FK No; simpl in FK.
      * discriminate.
      * destruct (key_eqb k k0). inversion FK; subst. discriminate.
        destruct (find_key k tl) eqn:F2; [|discriminate]. inversion FK; subst. unfold nth_item in *. simpl in No.
        eapply IHl; eauto.
  - apply (add_item_ok h l d c its dv k v tv G h l I Hr Hv Hc MM).
Qed.

Lemma bop_addkey_ok h a b ta tb G h' r :
  Inv h ((handles a ++ handles b) ++ G) -> repr h a ta -> repr h b tb ->
  m_bop BAddKey h a b = (h', r) -> bop_post h a b G (bop_apply BAddKey ta tb) h' r.
Proof.
  intros I Ha Hb E. unfold m_bop in E.
  assert (NOK : (h', r) = (drop2 h a b, None) -> bop_apply BAddKey ta tb = None ->
                bop_post h a b G (bop_apply BAddKey ta tb) h' r).
  { intros E1 E2. inversion E1; subst. rewrite E2. apply drop2_ok; auto. }
  destruct (kind_of h a) as [ka|] eqn:KA.
  2: { apply NOK; [symmetry; exact E|]. pose proof (kind_of_none _ _ _ Ha KA). destruct ta; auto. exfalso. eapply H; eauto. }
  destruct (kind_of_repr _ _ _ _ Ha KA) as [l [d [c [its [dv [Ea [Hc [Kc [Et [Hits Hd]]]]]]]]]]. subst a ta.
  simpl ref_loc in E. simpl ref_dflt in E.
  destruct ka; try (apply NOK; [symmetry; exact E | reflexivity]).
  destruct (make_mut h l) as [h1 l'] eqn:MM.
  rewrite !handles_ref in I.
  assert (I' : Inv h ((l :: handles_opt d) ++ handles b ++ G)) by (eapply Inv_equiv; [|exact I]; occ_tac).
  rewrite <- Kc in Ha.
  destruct (make_mut_facts h _ _ l d _ h1 l' I' Ha MM) as [c0 [c1 [Hc0 [Hc1 [K1 [I1 [C1 [Inv1 [S1 [Ha1 B1]]]]]]]]]].
  assert (Hb1 : repr h1 b tb) by (eapply repr_ext; eauto).
  rewrite (hkey_repr _ _ _ Hb1) in E.
  assert (Kc1 : ckind c1 = ckind c) by congruence.
  simpl. destruct (key_of_val tb) as [k|] eqn:KV.
  - inversion E; subst; clear E.
    assert (I2 : Inv h1 ((l' :: handles_opt d ++ handles HNull) ++ handles b ++ G)).
    { rewrite handles_null. eapply Inv_equiv; [|exact Inv1]. occ_tac. }
    rewrite <- Kc1 in Ha1.
    destruct (m_put_key_ok h1 l' d c1 its dv k HNull VNull (handles b ++ G) I2 Ha1 (R_null _) Hc1 C1) as [Hr2 S2].
    set (h2 := m_put_key h1 l' k HNull) in *. rewrite handles_null in S2.
    assert (I3 : Inv h2 ((handles b ++ l' :: handles_opt d) ++ G)).
    { eapply Inv_equiv; [|apply S2]. occ_tac. }
    destruct (drop_val_keep h2 b (l' :: handles_opt d) G I3) as [S3 K3].
    split.
    + rewrite Kc1, Kc in Hr2. apply K3; auto. rewrite handles_ref. apply incl_appl, incl_refl.
    + rewrite !handles_ref. apply Step_frame in S1. apply Step_frame in S2.
      eapply Step_trans; [eapply Step_equiv; [| |exact S1]|]. apply in_occ_equiv; occ_tac. intro; reflexivity.
      eapply Step_trans; [eapply Step_equiv; [| |exact S2]|]. apply in_occ_equiv; occ_tac. intro; reflexivity.
      eapply Step_equiv; [| |exact S3]. apply in_occ_equiv; occ_tac. occ_tac.
  - inversion E; subst; clear E.
    assert (Inv1' : Inv h1 ((handles (HRef l' d) ++ handles b) ++ G)).
    { rewrite handles_ref. eapply Inv_equiv; [|exact Inv1]. occ_tac. }
    pose proof (drop2_ok h1 (HRef l' d) b G Inv1') as S2. rewrite handles_ref in S2.
    apply Step_frame in S1. unfold bop_post. rewrite !handles_ref.
    eapply Step_trans; [eapply Step_equiv; [| |exact S1]|exact S2]. apply in_occ_equiv; occ_tac. occ_tac.
Qed.

Lemma incl_cons_app (x : loc) a b : incl (x :: a) (x :: a ++ b).
Proof. intros y Hy. simpl in *. destruct Hy; [left; auto | right; apply in_or_app; auto]. Qed.

Lemma bop_delkey_ok h a b ta tb G h' r :
  Inv h ((handles a ++ handles b) ++ G) -> repr h a ta -> repr h b tb ->
  m_bop BDelKey h a b = (h', r) -> bop_post h a b G (bop_apply BDelKey ta tb) h' r.
Proof.
  intros I Ha Hb E. unfold m_bop in E.
  assert (NOK : (h', r) = (drop2 h a b, None) -> bop_apply BDelKey ta tb = None ->
                bop_post h a b G (bop_apply BDelKey ta tb) h' r).
  { intros E1 E2. inversion E1; subst. rewrite E2. apply drop2_ok; auto. }
  destruct (kind_of h a) as [ka|] eqn:KA.
  2: { apply NOK; [symmetry; exact E|]. pose proof (kind_of_none _ _ _ Ha KA). destruct ta; auto. exfalso. eapply H; eauto. }
  destruct (kind_of_repr _ _ _ _ Ha KA) as [l [d [c [its [dv [Ea [Hc [Kc [Et [Hits Hd]]]]]]]]]]. subst a ta.
  simpl ref_loc in E. simpl ref_dflt in E.
  destruct ka; try (apply NOK; [symmetry; exact E | reflexivity]).
  destruct (make_mut h l) as [h1 l'] eqn:MM.
  rewrite !handles_ref in I.
  assert (I' : Inv h ((l :: handles_opt d) ++ handles b ++ G)) by (eapply Inv_equiv; [|exact I]; occ_tac).
  rewrite <- Kc in Ha.
  destruct (make_mut_facts h _ _ l d _ h1 l' I' Ha MM) as [c0 [c1 [Hc0 [Hc1 [K1 [I1 [C1 [Inv1 [S1 [Ha1 B1]]]]]]]]]].
  assert (Hb1 : repr h1 b tb) by (eapply repr_ext; eauto).
  rewrite (hkey_repr _ _ _ Hb1) in E.
  assert (Kc1 : ckind c1 = ckind c) by congruence.
  apply Step_frame in S1.
  assert (S1' : Step h ((l :: handles_opt d) ++ handles b) G h1 (handles (HRef l' d) ++ handles b)).
  { rewrite handles_ref. exact S1. }
  assert (Inv1' : Inv h1 ((handles (HRef l' d) ++ handles b) ++ G)) by apply S1'.
  simpl. destruct (key_of_val tb) as [k|] eqn:KV.
  2: { inversion E; subst; clear E. pose proof (drop2_ok h1 (HRef l' d) b G Inv1') as S2.
       unfold bop_post. rewrite !handles_ref. eapply Step_trans; [|exact S2]. rewrite handles_ref in S1'. exact S1'. }
  destruct (repr_ref_inv _ _ _ _ _ _ Ha1) as [c1' [Hc1' [_ [Hits1 Hd1]]]].
  rewrite Hc1 in Hc1'. inversion Hc1'; subst c1'. clear Hc1'.
  rewrite (items_of_eq _ _ _ Hc1) in E. unfold del_key.
  rewrite <- (repr_items_find_key _ _ _ k Hits1).
  assert (KEEP : forall hh, (hh, r) = (drop_val h1 b, Some (HRef l' d)) -> h' = hh ->
                 bop_post h (HRef l d) b G (Some (VSeq KDict its dv)) h' r).
  { intros hh E1 E2. inversion E1; subst. 
    assert (I2 : Inv h1 ((handles b ++ l' :: handles_opt d) ++ G)).
    { rewrite handles_ref in Inv1'. eapply Inv_equiv; [|exact Inv1']. occ_tac. }
    destruct (drop_val_keep h1 b (l' :: handles_opt d) G I2) as [S3 K3].
    split.
    - rewrite <- Kc. apply K3; auto. rewrite handles_ref. apply incl_appl, incl_refl.
    - rewrite !handles_ref. rewrite handles_ref in S1'.
      eapply Step_trans; [exact S1'|]. eapply Step_equiv; [| |exact S3]. apply in_occ_equiv; occ_tac. occ_tac. }
  destruct (find_key k (citems c1)) as [n|] eqn:FK.
  2: { eapply KEEP; [symmetry; exact E | reflexivity]. }
  destruct (nth_item n (citems c1)) as [old|] eqn:No.
  2: { exfalso. clear - FK No. revert n FK No. induction (citems c1) as [|[k0 x] tl IHl]; intros n FK No; simpl in FK.
       - discriminate.
       - destruct (key_eqb k k0). inversion FK; subst. discriminate.
         destruct (find_key k tl) eqn:F2; [|discriminate]. inversion FK; subst. unfold nth_item in *. simpl in No.
         eapply IHl; eauto. }
  inversion E; subst; clear E.
  pose proof (make_mut_unique h1 l' c1 Hc1 C1) as MM1.
  assert (I2 : Inv h1 ((l' :: handles_opt d) ++ handles b ++ G)).
  { rewrite handles_ref in Inv1'. eapply Inv_equiv; [|exact Inv1']. occ_tac. }
  rewrite <- Kc1 in Ha1.
  destruct (extract_ok h1 l' d c1 its dv (handles b ++ G) h1 l' (del_nth n (citems c1)) (del_nth n its) (handles old) I2 Ha1 Hc1 MM1)
    as [Hr2 [S2 [T1 _]]].
  { intro x. apply occ_items_del_nth. auto. }
  { intros hh Hh. apply repr_items_del_nth; auto. }
  set (h2 := set_items h1 l' (del_nth n (citems c1))) in *.
  assert (I3 : Inv h2 ((handles old ++ handles b) ++ l' :: handles_opt d ++ G)).
  { eapply Inv_equiv; [|apply S2]. occ_tac. }
  pose proof (drop2_ok h2 old b _ I3) as S3.
  split.
  - rewrite Kc1, Kc in Hr2. eapply (st_frame _ _ _ _ _ S3); eauto. rewrite handles_ref. apply incl_cons_app.
  - rewrite !handles_ref. rewrite handles_ref in S1'.
    apply Step_frame in S2.
    assert (S3' : Step h2 (handles old ++ handles b) ((l' :: handles_opt d) ++ G) (drop2 h2 old b) []) by exact S3.
    apply Step_frame in S3'.
    eapply Step_trans; [exact S1'|].
    eapply Step_trans; [eapply Step_equiv; [| |exact S2]|]. apply in_occ_equiv; occ_tac. intro; reflexivity.
    eapply Step_equiv; [| |exact S3']. apply in_occ_equiv; occ_tac. occ_tac.
Qed.

(* ------------------------------------------------------------------ || and |.. *)
Lemma drop_heap_mono fuel : forall h ws x, occ x (handles_heap (drop_list fuel h ws)) <= occ x (handles_heap h).
Proof.
  induction fuel as [|f IH]; intros h ws x; simpl; auto.
  destruct ws as [|l rest]; auto.
  destruct (get_cell h l) as [c|] eqn:Hc; auto.
  destruct (cnt c <=? 1).
  - eapply Nat.le_trans; [apply IH|].
    pose proof (occ_heap_set_cell h l (mkcell 0 (ckind c) []) c x Hc). simpl in H. lia.
  - eapply Nat.le_trans; [apply IH|].
    rewrite (occ_heap_set_same h l (mkcell (cnt c - 1) (ckind c) (citems c)) c x Hc eq_refl). lia.
Qed.

Lemma cnt_of_after_drop h v l R F :
  Inv h ((handles v ++ l :: R) ++ F) -> cnt_of h l = 1 -> cnt_of (drop_val h v) l = 1.
Proof.
  intros I C.
  destruct (drop_val_keep h v (l :: R) F I) as [S _].
  pose proof (st_inv _ _ _ _ _ S l) as I2. pose proof (I l) as I1. rewrite C in I1.
  pose proof (drop_heap_mono (sumcnt h) h (handles v) l) as M. fold (drop_locs h (handles v)) in M. fold (drop_val h v) in M.
  revert I1 I2 M. occ_tac.
Qed.

Lemma m_put_key_cnt h l d c its dv k v tv G :
  Inv h ((l :: handles_opt d ++ handles v) ++ G) ->
  repr h (HRef l d) (VSeq (ckind c) its dv) -> repr h v tv -> get_cell h l = Some c -> cnt c = 1 ->
  exists c', get_cell (m_put_key h l k v) l = Some c' /\ cnt c' = 1 /\ ckind c' = ckind c.
Proof.
  intros I Hr Hv Hc C1.
  unfold m_put_key. rewrite (items_of_eq _ _ _ Hc).
  destruct (find_key k (citems c)) as [n|] eqn:FK.
  - destruct (nth_item n (citems c)) as [old|] eqn:No.
    + rewrite (put_item_eq h l c n v Hc).
      set (h2 := set_items h l (set_nth n v (citems c))).
      assert (Hc2 : get_cell h2 l = Some (mkcell (cnt c) (ckind c) (set_nth n v (citems c)))) by (apply get_cell_set_items_eq; auto).
      destruct (inplace_update h l c (handles_opt d ++ handles v) (handles old ++ handles_opt d)
                  (set_nth n v (citems c)) G I Hc C1) as [S2 _].
      { intro x. pose proof (occ_items_set_nth x (citems c) n v old No). revert H. occ_tac. }
      fold h2 in S2.
      assert (I2 : Inv h2 ((handles old ++ l :: handles_opt d) ++ G)) by (eapply Inv_equiv; [|apply S2]; occ_tac).
      assert (C2 : cnt_of h2 l = 1) by (rewrite (cnt_of_cell _ _ _ Hc2); simpl; auto).
      pose proof (cnt_of_after_drop h2 old l (handles_opt d) G I2 C2) as C3.
      destruct (cnt_of_pos_cell (drop_val h2 old) l) as [c3 [Hc3 _]]; [lia|].
      exists c3. split; auto. split; [rewrite (cnt_of_cell _ _ _ Hc3) in C3; auto|].
      (* the kind: the body of l is untouched by the drop (it is held by the operation) *)
      destruct (drop_val_keep h2 old (l :: handles_opt d) G I2) as [S3 K3].
      assert (Hr2 : repr h2 (HRef l d) (VSeq (ckind c) (set_nth n tv its) dv)).
      { pose proof (make_mut_unique h l c Hc C1) as MM.
        destruct (replace_item_ok h l d c its dv n old v tv G h l I Hr Hv Hc No MM) as [Hx _].
        destruct (repr_ref_inv _ _ _ _ _ _ Hr) as [c0 [Hc0 [_ [Hits Hd]]]].
        rewrite Hc in Hc0. inversion Hc0; subst c0.
        change (ckind c) with (ckind (mkcell (cnt c) (ckind c) (set_nth n v (citems c)))).
        apply R_ref; auto; simpl.
        - destruct (inplace_update h l c (handles_opt d ++ handles v) (handles old ++ handles_opt d)
                      (set_nth n v (citems c)) G I Hc C1) as [_ [_ [T1 [T2 [T3 [N1 [U1 U2]]]]]]].
          { intro x. pose proof (occ_items_set_nth x (citems c) n v old No). revert H. occ_tac. }
          apply occ_zero_app in U1. destruct U1 as [Ud Uv].
          apply repr_items_set_nth; [apply T2; auto | apply T1; auto; apply occ_notIn; auto].
        - destruct (inplace_update h l c (handles_opt d ++ handles v) (handles old ++ handles_opt d)
                      (set_nth n v (citems c)) G I Hc C1) as [_ [_ [T1 [T2 [T3 [N1 [U1 U2]]]]]]].
          { intro x. pose proof (occ_items_set_nth x (citems c) n v old No). revert H. occ_tac. }
          apply occ_zero_app in U1. destruct U1 as [Ud Uv]. apply T3; auto. apply occ_notIn; auto. }
      assert (Hr3 : repr (drop_val h2 old) (HRef l d) (VSeq (ckind c) (set_nth n tv its) dv)).
      { apply K3; auto. rewrite handles_ref. apply incl_appl, incl_refl. }
      destruct (repr_ref_inv _ _ _ _ _ _ Hr3) as [c3' [Hc3' [Kc3 _]]]. rewrite Hc3 in Hc3'. inversion Hc3'; subst. auto.
    + exists c. auto.
  - rewrite (get_cell_set_items_eq _ _ _ _ Hc). eexists; split; [reflexivity|]. simpl. auto.
Qed.

Lemma Frame_items h h' F es ts :
  Frame h h' F -> incl (handles_items es) F -> repr_items h es ts -> repr_items h' es ts.
Proof.
  intros Fr Ie H. induction H; constructor.
  - apply Fr; auto. intros x Hx. apply Ie. unfold handles_items. simpl. apply in_or_app. left; auto.
  - apply IHrepr_items. intros x Hx. apply Ie. unfold handles_items. simpl. apply in_or_app. right; auto.
Qed.

Lemma put_keys_ok moved : forall tmoved h l d c its dv G,
  Inv h ((l :: handles_opt d ++ handles_items moved) ++ G) ->
  repr h (HRef l d) (VSeq (ckind c) its dv) -> get_cell h l = Some c -> cnt c = 1 ->
  repr_items h moved tmoved ->
  let h' := fold_left (fun hh kv => m_put_key hh l (fst kv) (snd kv)) moved h in
  repr h' (HRef l d) (VSeq (ckind c) (fold_left (fun acc kv => put_key (fst kv) (snd kv) acc) tmoved its) dv) /\
  Step h (l :: handles_opt d ++ handles_items moved) G h' (l :: handles_opt d).
Proof.
  induction moved as [|[k e] tl IH]; intros tmoved h l d c its dv G I Hr Hc C1 Hm h'.
  - inversion Hm; subst. simpl. split; auto. unfold handles_items in I |- *. simpl in *. rewrite app_nil_r in *. apply Step_refl; auto.
  - inversion Hm; subst. simpl in h'. simpl.
    match goal with H : repr h e ?tt |- _ => rename H into He; rename tt into t end.
    match goal with H : repr_items h tl ?tt |- _ => rename H into Htl; rename tt into ts end.
    assert (I1 : Inv h ((l :: handles_opt d ++ handles e) ++ handles_items tl ++ G)).
    { eapply Inv_equiv; [|exact I]. unfold handles_items. simpl. fold (handles_items tl). occ_tac. }
    destruct (m_put_key_ok h l d c its dv k e t (handles_items tl ++ G) I1 Hr He Hc C1) as [Hr1 S1].
    destruct (m_put_key_cnt h l d c its dv k e t (handles_items tl ++ G) I1 Hr He Hc C1) as [c1 [Hc1 [Cc1 Kc1]]].
    set (h1 := m_put_key h l k e) in *.
    assert (I2 : Inv h1 ((l :: handles_opt d ++ handles_items tl) ++ G)).
    { eapply Inv_equiv; [|apply S1]. occ_tac. }
    assert (Htl1 : repr_items h1 tl ts).
    { eapply Frame_items; [apply (st_frame _ _ _ _ _ S1)| |exact Htl]. apply incl_appl, incl_refl. }
    rewrite <- Kc1 in Hr1.
    destruct (IH ts h1 l d c1 (put_key k t its) dv G I2 Hr1 Hc1 Cc1 Htl1) as [Hr2 S2].
    rewrite Kc1 in Hr2. split; [exact Hr2|].
    apply Step_frame in S1.
    eapply Step_trans; [eapply Step_equiv; [| |exact S1]|exact S2].
    + apply in_occ_equiv. unfold handles_items. simpl. fold (handles_items tl). occ_tac.
    + occ_tac.
Qed.

Lemma union_ok h l1 d1 c1 its1 dv1 l2 d2 c2 its2 dv2 G h1 la h2 lb :
  Inv h ((handles (HRef l1 d1) ++ handles (HRef l2 d2)) ++ G) ->
  repr h (HRef l1 d1) (VSeq (ckind c1) its1 dv1) -> repr h (HRef l2 d2) (VSeq (ckind c2) its2 dv2) ->
  get_cell h l1 = Some c1 -> get_cell h l2 = Some c2 ->
  make_mut h l1 = (h1, la) -> make_mut h1 l2 = (h2, lb) ->
  let moved := items_of h2 lb in
  let h3 := set_items h2 lb [] in
  let h4 := fold_left (fun hh kv => m_put_key hh la (fst kv) (snd kv)) moved h3 in
  let h5 := drop_val h4 (HRef lb d2) in
  repr h5 (HRef la d1) (VSeq (ckind c1) (fold_left (fun acc kv => put_key (fst kv) (snd kv) acc) its2 its1) dv1) /\
  Step h (handles (HRef l1 d1) ++ handles (HRef l2 d2)) G h5 (handles (HRef la d1)).
Proof.
  intros I Ha Hb Hc1 Hc2 MM1 MM2 moved h3 h4 h5. rewrite !handles_ref in *.
  (* make_mut a *)
  assert (Ia : Inv h ((l1 :: handles_opt d1 ++ l2 :: handles_opt d2) ++ G)) by (eapply Inv_equiv; [|exact I]; occ_tac).
  destruct (make_mut_facts h _ G l1 d1 _ h1 la Ia Ha MM1) as [c1x [c1' [Hc1x [Hc1' [K1 [I1 [C1 [Inv1 [S1 [Ha1 B1]]]]]]]]]].
  rewrite Hc1 in Hc1x. inversion Hc1x; subst c1x. clear Hc1x.
  assert (Hb1 : repr h1 (HRef l2 d2) (VSeq (ckind c2) its2 dv2)) by (eapply repr_ext; eauto).
  (* make_mut b *)
  assert (Ib : Inv h1 ((l2 :: handles_opt d2) ++ la :: handles_opt d1 ++ G)) by (eapply Inv_equiv; [|exact Inv1]; occ_tac).
  destruct (make_mut_facts h1 _ _ l2 d2 _ h2 lb Ib Hb1 MM2) as [c2x [c2' [Hc2x [Hc2' [K2 [I2 [C2 [Inv2 [S2 [Hb2 B2]]]]]]]]]].
  assert (K2' : ckind c2' = ckind c2 /\ citems c2' = citems c2).
  { destruct (B1 l2 c2 Hc2) as [cc [Hcc [Kcc Icc]]]. rewrite Hcc in Hc2x. inversion Hc2x; subst. split; congruence. }
  destruct K2' as [K2' I2'].
  assert (Ia2 : Inv h1 ((l2 :: handles_opt d2) ++ la :: (handles_opt d1 ++ G))) by exact Ib.
  assert (Cla1 : cnt_of h1 la = 1) by (rewrite (cnt_of_cell _ _ _ Hc1'); auto).
  destruct (still_unique h1 (l2 :: handles_opt d2) la (handles_opt d1 ++ G) h2 (lb :: handles_opt d2) S2 Ia2 Cla1)
    as [Cla2 [Ula2 [Ula3 Ula4]]].
  assert (Ha2 : repr h2 (HRef la d1) (VSeq (ckind c1) its1 dv1)) by (eapply repr_ext; eauto).
  destruct (repr_ref_inv _ _ _ _ _ _ Ha2) as [ca2 [Hca2 [Kca2 [Hitsa2 Hda2]]]].
  assert (Cca2 : cnt ca2 = 1) by (rewrite (cnt_of_cell _ _ _ Hca2) in Cla2; auto).
  destruct (repr_ref_inv _ _ _ _ _ _ Hb2) as [cb2 [Hcb2 [Kcb2 [Hitsb2 Hdb2]]]].
  rewrite Hc2' in Hcb2. inversion Hcb2; subst cb2. clear Hcb2.
  assert (Nab : la <> lb).
  { intro; subst lb. rewrite occ_cons_eq in Ula3. discriminate. }
  (* empty b's cell: its items are now held by the operation *)
  assert (Em : moved = citems c2') by (unfold moved; apply items_of_eq; auto).
  assert (Inv2' : Inv h2 ((lb :: handles_opt d2 ++ la :: handles_opt d1) ++ G)).
  { eapply Inv_equiv; [|exact Inv2]. occ_tac. }
  destruct (inplace_update h2 lb c2' (handles_opt d2 ++ la :: handles_opt d1)
              (handles_items moved ++ handles_opt d2 ++ la :: handles_opt d1) [] G Inv2' Hc2' C2)
    as [S3 [Hc3 [T1 [T2 [T3 [N3 [U3 V3]]]]]]].
  { intro x. rewrite Em. unfold handles_items at 3. simpl. occ_tac. }
  fold h3 in S3, Hc3, T1, T2, T3.
  assert (Hca3 : get_cell h3 la = Some ca2) by (unfold h3; rewrite get_cell_set_items_neq; auto).
  assert (Ea3 : items_of h3 la = citems ca2) by (apply items_of_eq; auto).
  (* insert b's entries into a's cell *)
  assert (Inv3 : Inv h3 ((la :: handles_opt d1 ++ handles_items moved) ++ lb :: handles_opt d2 ++ G)).
  { eapply Inv_equiv; [|apply S3]. occ_tac. }
  assert (Ha3 : repr h3 (HRef la d1) (VSeq (ckind ca2) its1 dv1)).
  { rewrite <- Kca2. apply T1; auto. rewrite handles_ref. simpl. intros [Hx|Hx]; [congruence|].
    apply occ_zero_app in U3. destruct U3 as [_ U3]. rewrite occ_cons_neq in U3; auto. apply occ_In in Hx. lia. }
  assert (Hm3 : repr_items h3 moved its2).
  { rewrite Em. apply T2; auto. }
  destruct (put_keys_ok moved its2 h3 la d1 ca2 its1 dv1 (lb :: handles_opt d2 ++ G) Inv3 Ha3 Hca3 Cca2 Hm3) as [Hr4 S4].
  unfold h5, h4. clear h5 h4.
  set (h4' := fold_left (fun hh kv => m_put_key hh la (fst kv) (snd kv)) moved h3) in *.
  rewrite <- Kca2 in Hr4.
  (* release b's (now empty) cell *)
  assert (Inv4 : Inv h4' ((handles (HRef lb d2) ++ la :: handles_opt d1) ++ G)).
  { rewrite handles_ref. eapply Inv_equiv; [|apply S4]. occ_tac. }
  destruct (drop_val_keep h4' (HRef lb d2) (la :: handles_opt d1) G Inv4) as [S5 K5].
  rewrite handles_ref in S5.
  split.
  - apply K5; auto. rewrite handles_ref. apply incl_appl, incl_refl.
  - eapply Step_trans; [eapply Step_equiv; [| |exact S1]|]. apply in_occ_equiv; occ_tac. intro; reflexivity.
    assert (S2' : Step h1 (l2 :: handles_opt d2) ((la :: handles_opt d1) ++ G) h2 (lb :: handles_opt d2)) by exact S2.
    apply Step_frame in S2'.
    eapply Step_trans; [eapply Step_equiv; [| |exact S2']|]. apply in_occ_equiv; occ_tac. intro; reflexivity.
    eapply Step_trans; [eapply Step_equiv; [| |exact S3]|]. apply in_occ_equiv; occ_tac. intro; reflexivity.
    assert (S4' : Step h3 (la :: handles_opt d1 ++ handles_items moved) ((lb :: handles_opt d2) ++ G) h4' (la :: handles_opt d1)) by exact S4.
    apply Step_frame in S4'.
    eapply Step_trans; [eapply Step_equiv; [| |exact S4']|]. apply in_occ_equiv; occ_tac. intro; reflexivity.
    eapply Step_equiv; [| |exact S5]. apply in_occ_equiv; occ_tac. occ_tac.
Qed.

Lemma bop_union_ok h a b ta tb G h' r :
  Inv h ((handles a ++ handles b) ++ G) -> repr h a ta -> repr h b tb ->
  m_bop BUnion h a b = (h', r) -> bop_post h a b G (bop_apply BUnion ta tb) h' r.
Proof.
  intros I Ha Hb E. unfold m_bop in E.
  assert (NOK : (h', r) = (drop2 h a b, None) -> bop_apply BUnion ta tb = None ->
                bop_post h a b G (bop_apply BUnion ta tb) h' r).
  { intros E1 E2. inversion E1; subst. rewrite E2. apply drop2_ok; auto. }
  destruct (kind_of h a) as [ka|] eqn:KA.
  2: { apply NOK; [symmetry; exact E|]. pose proof (kind_of_none _ _ _ Ha KA). destruct ta; auto. exfalso. eapply H; eauto. }
  destruct (kind_of h b) as [kb|] eqn:KB.
  2: { apply NOK; [symmetry; destruct ka; exact E|]. pose proof (kind_of_none _ _ _ Hb KB).
       destruct ta as [| |k1 x1 d1|]; auto. destruct tb as [| |k2 x2 d2|]; try (destruct k1; reflexivity). exfalso. eapply H; eauto. }
  destruct (kind_of_repr _ _ _ _ Ha KA) as [l1 [d1 [c1 [its1 [dv1 [Ea [Hc1 [Kc1 [Et1 [Hits1 Hd1]]]]]]]]]].
  destruct (kind_of_repr _ _ _ _ Hb KB) as [l2 [d2 [c2 [its2 [dv2 [Eb [Hc2 [Kc2 [Et2 [Hits2 Hd2]]]]]]]]]].
  subst a b ta tb. simpl ref_loc in E. simpl ref_dflt in E.
  destruct ka; try (apply NOK; [symmetry; exact E | reflexivity]).
  destruct kb; try (apply NOK; [symmetry; exact E | reflexivity]).
  destruct (make_mut h l1) as [h1 la] eqn:MM1. destruct (make_mut h1 l2) as [h2 lb] eqn:MM2.
  inversion E; subst; clear E.
  rewrite <- Kc1 in Ha. rewrite <- Kc2 in Hb.
  destruct (union_ok h l1 d1 c1 its1 dv1 l2 d2 c2 its2 dv2 G h1 la h2 lb I Ha Hb Hc1 Hc2 MM1 MM2) as [Hr5 S5].
  unfold bop_post. simpl. rewrite Kc1 in Hr5. split; auto.
Qed.

(* the two elements of the right operand of |.. *)
Definition not_pair (t : val) : Prop := forall k w, iter_vals t <> Some [k; w].

Lemma pair_spec h b tb :
  repr h b tb ->
  match pair_of h b with
  | Some (k, w) => exists tk tw, iter_vals tb = Some [tk; tw] /\ repr h k tk /\ repr h w tw /\
                                 incl (handles w) (handles_heap h)
  | None =>
    match str_pair_of h b with
    | Some (kb, wb) => exists tkb twb, iter_vals tb = Some [VSeq KStr [(nokey, tkb)] None; VSeq KStr [(nokey, twb)] None] /\
                                       repr h kb tkb /\ repr h wb twb /\ incl (handles wb) (handles_heap h)
    | None => not_pair tb
    end
  end.
Proof.
  intro Hb. unfold pair_of, str_pair_of.
  destruct (kind_of h b) as [kb|] eqn:KB.
  2: { intros k w Hx. pose proof (kind_of_none _ _ _ Hb KB). destruct tb; simpl in Hx; try discriminate. eapply H; eauto. }
  destruct (kind_of_repr _ _ _ _ Hb KB) as [l2 [d2 [c2 [its2 [dv2 [Eb [Hc2 [Kc2 [Et2 [Hits2 Hd2]]]]]]]]]]. subst b tb.
  simpl ref_loc. rewrite (items_of_eq _ _ _ Hc2).
  assert (TWO : forall k1 k w1 w, citems c2 = [(k1, k); (w1, w)] ->
          exists tk tw, its2 = [(k1, tk); (w1, tw)] /\ repr h k tk /\ repr h w tw /\ incl (handles w) (handles_heap h)).
  { intros k1 k w1 w E2. rewrite E2 in Hits2. inversion Hits2; subst. inversion H4; subst. inversion H6; subst.
    eexists; eexists. split; [reflexivity|]. split; auto. split; auto.
    intros x Hx. eapply In_handles_heap; eauto. rewrite E2. unfold handles_items. simpl. rewrite app_nil_r. apply in_or_app. right; auto. }
  assert (NOT2 : (forall k1 k w1 w, citems c2 <> [(k1, k); (w1, w)]) -> forall k w, map snd its2 <> [k; w]).
  { intros N k w Hx. pose proof (repr_items_length _ _ _ Hits2) as L.
    destruct its2 as [|[a1 b1] [|[a2 b2] [|]]]; simpl in Hx; try discriminate.
    destruct (citems c2) as [|[x1 y1] [|[x2 y2] [|]]] eqn:EC; simpl in L; try discriminate.
    eapply N; eauto. }
  assert (SHAPE : (exists k1 k w1 w, citems c2 = [(k1, k); (w1, w)]) \/ (forall k1 k w1 w, citems c2 <> [(k1, k); (w1, w)])).
  { destruct (citems c2) as [|[x1 y1] [|[x2 y2] [|]]]; try (right; intros; discriminate). left. eauto 6. }
  assert (LISTLIKE : forall kk, (match kk with KList | KVec | KBytes => True | _ => False end) ->
            match (match kk with
                   | KList | KVec | KBytes => match citems c2 with [(_, k); (_, w)] => Some (k, w) | _ => None end
                   | _ => None
                   end) with
            | Some (k, w) => exists tk tw, iter_vals (VSeq kk its2 dv2) = Some [tk; tw] /\ repr h k tk /\ repr h w tw /\
                                           incl (handles w) (handles_heap h)
            | None => match (match kk with KStr => match citems c2 with [(_, k); (_, w)] => Some (k, w) | _ => None end | _ => None end) with
                      | Some (kb0, wb) => False
                      | None => not_pair (VSeq kk its2 dv2)
                      end
            end).
  { intros kk HK. destruct SHAPE as [[k1 [k [w1 [w E2]]]]|N].
    - rewrite E2. destruct (TWO _ _ _ _ E2) as [tk [tw [Ei [A [B C]]]]]. subst its2.
      destruct kk; try contradiction; exists tk, tw; simpl; auto.
    - assert (X : match citems c2 with [(_, k); (_, w)] => Some (k, w) | _ => None end = None).
      { destruct (citems c2) as [|[x1 y1] [|[x2 y2] [|]]]; auto. exfalso. eapply N; eauto. }
      destruct kk; try contradiction; rewrite X; intros k w Hx; simpl in Hx; inversion Hx; eapply NOT2; eauto. }
  destruct kb.
  - pose proof (LISTLIKE KList I) as HL. simpl in HL.
    destruct (match citems c2 with [(_, k); (_, w)] => Some (k, w) | _ => None end) as [[k w]|]; auto.
  - intros k w Hx. simpl in Hx. discriminate.
  - destruct SHAPE as [[k1 [k [w1 [w E2]]]]|N].
    + rewrite E2. destruct (TWO _ _ _ _ E2) as [tk [tw [Ei [A [B C]]]]]. subst its2. exists tk, tw. simpl. auto.
    + assert (X : match citems c2 with [(_, k); (_, w)] => Some (k, w) | _ => None end = None).
      { destruct (citems c2) as [|[x1 y1] [|[x2 y2] [|]]]; auto. exfalso. eapply N; eauto. }
      rewrite X. intros k w Hx. simpl in Hx. inversion Hx as [Hy].
      assert (map snd its2 = [match k with VSeq _ [(_, e)] _ => e | _ => k end; match w with VSeq _ [(_, e)] _ => e | _ => w end]).
      { clear - Hy. revert Hy. generalize its2. intro l. destruct l as [|[a1 b1] [|[a2 b2] [|]]]; simpl; intro Hz; try discriminate.
        inversion Hz; subst. reflexivity. }
      eapply NOT2; eauto.
  - pose proof (LISTLIKE KVec I) as HL. simpl in HL.
    destruct (match citems c2 with [(_, k); (_, w)] => Some (k, w) | _ => None end) as [[k w]|]; auto.
  - pose proof (LISTLIKE KBytes I) as HL. simpl in HL.
    destruct (match citems c2 with [(_, k); (_, w)] => Some (k, w) | _ => None end) as [[k w]|]; auto.
Qed.

Opaque alloc.
Lemma bop_update_ok h a b ta tb G h' r :
  Inv h ((handles a ++ handles b) ++ G) -> repr h a ta -> repr h b tb ->
  m_bop BUpdate h a b = (h', r) -> bop_post h a b G (bop_apply BUpdate ta tb) h' r.
Proof.
  intros I Ha Hb E. unfold m_bop in E.
  assert (NOK : (h', r) = (drop2 h a b, None) -> bop_apply BUpdate ta tb = None ->
                bop_post h a b G (bop_apply BUpdate ta tb) h' r).
  { intros E1 E2. inversion E1; subst. rewrite E2. apply drop2_ok; auto. }
  assert (NOK2 : (h', r) = (drop2 h a b, None) -> bop_post h a b G None h' r).
  { intros E1. inversion E1; subst. apply drop2_ok; auto. }
  assert (SPECNONE : not_pair tb -> bop_apply BUpdate ta tb = None).
  { intro NP. simpl. destruct (iter_vals tb) as [[|k [|w [|]]]|] eqn:EI; auto. exfalso. eapply NP; eauto. }
  destruct (kind_of h a) as [ka|] eqn:KA.
  2: { apply NOK; [symmetry; exact E|]. pose proof (kind_of_none _ _ _ Ha KA). simpl.
       destruct (iter_vals tb) as [[|k [|w [|]]]|]; auto. destruct ta; auto. exfalso. eapply H; eauto. }
  destruct (kind_of_repr _ _ _ _ Ha KA) as [l [d [c [its [dv [Ea [Hc [Kc [Et [Hits Hd]]]]]]]]]]. subst a ta.
  simpl ref_loc in E. simpl ref_dflt in E.
  pose proof (repr_items_length _ _ _ Hits) as Hlen.
  pose proof (pair_spec h b tb Hb) as PS.
  (* clone the new element out of the pair, release the pair *)
  assert (TAKE : forall w tw, repr h w tw -> incl (handles w) (handles_heap h) ->
            let h1 := drop_val (clone_val h w) b in
            repr h1 w tw /\ repr h1 (HRef l d) (VSeq ka its dv) /\
            Step h (handles (HRef l d) ++ handles b) G h1 (handles w ++ handles (HRef l d))).
  { intros w tw Hw Iw h1.
    assert (I' : Inv h ((handles b ++ handles (HRef l d)) ++ G)) by (eapply Inv_equiv; [|exact I]; occ_tac).
    destruct (get_clone_drop h b w tw (handles (HRef l d)) G I') as [A [B C]]; auto.
    { apply incl_appr. auto. }
    split; auto. split.
    - apply C; auto. apply incl_appl, incl_refl.
    - eapply Step_equiv; [| |exact B]. apply in_occ_equiv; occ_tac. intro; reflexivity. }
  destruct ka; try (apply NOK; [symmetry; exact E|]; simpl; destruct (iter_vals tb) as [[|k [|w [|]]]|]; reflexivity).
  - (* list |.. [i, w] *)
    destruct (pair_of h b) as [[k w]|] eqn:PO.
    2: { apply NOK; [symmetry; exact E|].
         destruct (str_pair_of h b) as [[kb wb]|].
         - destruct PS as [tkb [twb [EI _]]]. simpl. rewrite EI. reflexivity.
         - apply SPECNONE; auto. }
    destruct PS as [tk [tw [EI [Hk [Hw Iw]]]]].
    assert (SP : bop_apply BUpdate (VSeq KList its dv) tb =
                 match tk with
                 | VInt z => match norm_index (length its) z with
                             | Some n => Some (VSeq KList (set_nth n tw its) dv)
                             | None => None
                             end
                 | _ => None
                 end) by (simpl; rewrite EI; reflexivity).
    rewrite SP. clear SP.
    destruct k as [|z| |]; inversion Hk; subst; try (apply NOK2; symmetry; exact E).
    rewrite (items_of_eq _ _ _ Hc) in E. rewrite <- Hlen.
    destruct (norm_index (length (citems c)) z) as [n|] eqn:NI.
    2: { apply NOK2; symmetry; exact E. }
    destruct (TAKE w tw Hw Iw) as [Hw1 [Ha1 S1]]. set (h1 := drop_val (clone_val h w) b) in *.
    destruct (make_mut h1 l) as [h2 l'] eqn:MM.
    destruct (repr_ref_inv _ _ _ _ _ _ Ha1) as [c1 [Hc1 [Kc1 [Hits1 Hd1]]]].
    assert (I1 : Inv h1 ((l :: handles_opt d ++ handles w) ++ G)).
    { rewrite handles_ref in S1. eapply Inv_equiv; [|apply S1]. occ_tac. }
    rewrite Kc1 in Ha1.
    destruct (make_mut_facts h1 _ G l d _ h2 l' I1 Ha1 MM) as [c0 [c2 [Hc0 [Hc2 [K2 [I2 [C2 _]]]]]]].
    rewrite Hc1 in Hc0. inversion Hc0; subst c0.
    rewrite (items_of_eq _ _ _ Hc2) in E. rewrite I2 in E.
    assert (Ln : n < length (citems c1)).
    { rewrite (repr_items_length _ _ _ Hits1). rewrite <- Hlen. eapply norm_index_lt; eauto. }
    destruct (nth_item_lt (citems c1) n Ln) as [old Ho]. rewrite Ho in E. inversion E; subst; clear E.
    destruct (replace_item_ok h1 l d c1 its dv n old w tw G h2 l' I1 Ha1 Hw1 Hc1 Ho MM) as [Hr3 S3].
    rewrite <- Kc1 in Hr3. split; [exact Hr3|].
    rewrite !handles_ref in *. eapply Step_trans; [exact S1|].
    eapply Step_equiv; [| |exact S3]. apply in_occ_equiv; occ_tac. occ_tac.
  - (* dict |.. [k, w] *)
    destruct (pair_of h b) as [[k w]|] eqn:PO.
    + destruct PS as [tk [tw [EI [Hk [Hw Iw]]]]].
      assert (SP : bop_apply BUpdate (VSeq KDict its dv) tb =
                   match key_of_val tk with Some kk => Some (VSeq KDict (put_key kk tw its) dv) | None => None end)
        by (simpl; rewrite EI; reflexivity).
      rewrite SP. clear SP. rewrite (hkey_repr _ _ _ Hk) in E.
      destruct (key_of_val tk) as [kk|]; [|apply NOK2; symmetry; exact E].
      destruct (TAKE w tw Hw Iw) as [Hw1 [Ha1 S1]]. set (h1 := drop_val (clone_val h w) b) in *.
      destruct (make_mut h1 l) as [h2 l'] eqn:MM. inversion E; subst; clear E.
      destruct (repr_ref_inv _ _ _ _ _ _ Ha1) as [c1 [Hc1 [Kc1 [Hits1 Hd1]]]].
      assert (I1 : Inv h1 ((l :: handles_opt d ++ handles w) ++ G)).
      { rewrite handles_ref in S1. eapply Inv_equiv; [|apply S1]. occ_tac. }
      rewrite Kc1 in Ha1.
      destruct (make_mut_facts h1 _ G l d _ h2 l' I1 Ha1 MM) as [c0 [c2 [Hc0 [Hc2 [K2 [I2 [C2 [Inv2 [S2 [Ha2 B2]]]]]]]]]].
      rewrite Hc1 in Hc0. inversion Hc0; subst c0. clear Hc0.
      assert (Hw2 : repr h2 w tw) by (eapply repr_ext; eauto).
      rewrite <- K2 in Ha2.
      destruct (m_put_key_ok h2 l' d c2 its dv kk w tw G Inv2 Ha2 Hw2 Hc2 C2) as [Hr3 S3].
      rewrite K2, <- Kc1 in Hr3. split; [exact Hr3|].
      rewrite !handles_ref in *. eapply Step_trans; [exact S1|].
      eapply Step_trans; [eapply Step_equiv; [| |exact S2]|]. apply in_occ_equiv; occ_tac. intro; reflexivity.
      eapply Step_equiv; [| |exact S3]. apply in_occ_equiv; occ_tac. occ_tac.
    + destruct (str_pair_of h b) as [[kb wb]|] eqn:SPO.
      2: { apply NOK; [symmetry; exact E|]. apply SPECNONE; auto. }
      destruct PS as [tkb [twb [EI [Hkb [Hwb Iwb]]]]].
      assert (SP : bop_apply BUpdate (VSeq KDict its dv) tb =
                   match key_of_val (VSeq KStr [(nokey, tkb)] None) with
                   | Some kk => Some (VSeq KDict (put_key kk (VSeq KStr [(nokey, twb)] None) its) dv)
                   | None => None
                   end) by (simpl; rewrite EI; reflexivity).
      rewrite SP. clear SP.
      destruct kb as [|zk| |]; inversion Hkb; subst; try (apply NOK2; symmetry; exact E).
      destruct (alloc (clone_val h wb) KStr [(nokey, wb)]) as [h0 lw] eqn:EA.
      destruct (make_mut (drop_val h0 b) l) as [h2 l'] eqn:MM. inversion E; subst; clear E.
      (* the fresh one-character string *)
      destruct (clone_val_step h (handles (HRef l d) ++ handles b) G wb I) as [Sc [Bc Lc]].
      { apply incl_appr. auto. }
      set (hc := clone_val h wb) in *.
      assert (Ic : Inv hc ((handles_items [(nokey, wb)] ++ handles (HRef l d) ++ handles b) ++ G)).
      { rewrite handles_items_single. apply Sc. }
      destruct (alloc_step' hc (handles (HRef l d) ++ handles b) G KStr [(nokey, wb)] h0 lw EA Ic) as [Sa Ba].
      assert (Hs0 : repr h0 (HRef lw None) (VSeq KStr [(nokey, twb)] None)).
      { eapply alloc_repr; eauto. constructor; [|constructor]. eapply repr_ext; eauto. }
      assert (Ha0 : repr h0 (HRef l d) (VSeq KDict its dv)).
      { eapply repr_ext; [exact Ba|]. eapply repr_ext; eauto. }
      assert (I0 : Inv h0 ((handles b ++ lw :: handles (HRef l d)) ++ G)).
      { eapply Inv_equiv; [|apply Sa]. occ_tac. }
      destruct (drop_val_keep h0 b (lw :: handles (HRef l d)) G I0) as [Sd Kd].
      set (h1 := drop_val h0 b) in *.
      assert (Hs1 : repr h1 (HRef lw None) (VSeq KStr [(nokey, twb)] None)).
      { apply Kd; auto. rewrite handles_ref. simpl. intros x [Hx|[]]. left; auto. }
      assert (Ha1 : repr h1 (HRef l d) (VSeq KDict its dv)).
      { apply Kd; auto. apply incl_appl. apply incl_tl. apply incl_refl. }
      destruct (repr_ref_inv _ _ _ _ _ _ Ha1) as [c1 [Hc1 [Kc1 [Hits1 Hd1]]]].
      assert (I1 : Inv h1 ((l :: handles_opt d ++ handles (HRef lw None)) ++ G)).
      { rewrite !handles_ref in *. simpl. eapply Inv_equiv; [|apply Sd]. occ_tac. }
      rewrite Kc1 in Ha1.
      destruct (make_mut_facts h1 _ G l d _ h2 l' I1 Ha1 MM) as [c0 [c2 [Hc0 [Hc2 [K2 [I2 [C2 [Inv2 [S2 [Ha2 B2]]]]]]]]]].
      rewrite Hc1 in Hc0. inversion Hc0; subst c0. clear Hc0.
      assert (Hs2 : repr h2 (HRef lw None) (VSeq KStr [(nokey, twb)] None)) by (eapply repr_ext; eauto).
      rewrite <- K2 in Ha2.
      destruct (m_put_key_ok h2 l' d c2 its dv (KB [zk]) (HRef lw None) _ G Inv2 Ha2 Hs2 Hc2 C2) as [Hr3 S3].
      rewrite K2, <- Kc1 in Hr3. simpl. split; [exact Hr3|].
      rewrite !handles_ref in *. simpl in *.
      eapply Step_trans; [exact Sc|].
      eapply Step_trans; [eapply Step_equiv; [| |exact Sa]|]. apply in_occ_equiv; occ_tac. intro; reflexivity.
      eapply Step_trans; [eapply Step_equiv; [| |exact Sd]|]. apply in_occ_equiv; occ_tac. intro; reflexivity.
      eapply Step_trans; [eapply Step_equiv; [| |exact S2]|]. apply in_occ_equiv; occ_tac. intro; reflexivity.
      eapply Step_equiv; [| |exact S3]. apply in_occ_equiv; occ_tac. occ_tac.
Qed.
Transparent alloc.

Definition bfrag (f : bop) : bool :=
  match f with BAppend | BConcat | BPlus | BAddKey | BDelKey | BUnion | BUpdate => true end.

Lemma m_bop_ok f : bfrag f = true -> forall h a b ta tb G h' r,
  Inv h ((handles a ++ handles b) ++ G) -> repr h a ta -> repr h b tb ->
  m_bop f h a b = (h', r) -> bop_post h a b G (bop_apply f ta tb) h' r.
Proof.
  destruct f; simpl; intro H; try discriminate; intros.
  - eapply bop_append_ok; eauto.
  - eapply bop_concat_ok; eauto.
  - eapply bop_plus_ok; eauto.
  - eapply bop_addkey_ok; eauto.
  - eapply bop_delkey_ok; eauto.
  - eapply bop_union_ok; eauto.
  - eapply bop_update_ok; eauto.
Qed.

(* ------------------------------------------------------------------ op-assign: drop_lhs, call, assign back *)
Lemma m_opassign_old_ok p f : noslice p = true -> bfrag f = true ->
  forall h cur t old told w tw G h' cur' ok,
  Inv h ((handles cur ++ handles old ++ handles w) ++ G) ->
  repr h cur t -> repr h old told -> repr h w tw ->
  m_opassign p f h cur old w = (h', cur', ok) ->
  exists t', v_opassign_old p f told tw t = (t', ok) /\ repr h' cur' t' /\
             Step h (handles cur ++ handles old ++ handles w) G h' (handles cur').
Proof.
  intros NS BF h cur t old told w tw G h' cur' ok I Hc Ho Hw E.
  unfold m_opassign in E. unfold v_opassign_old.
  destruct (m_set true p None h cur) as [[h1 cur1] ok1] eqn:E1.
  assert (I0 : Inv h ((handles cur ++ handles_opt None) ++ (handles old ++ handles w) ++ G)).
  { simpl. eapply Inv_equiv; [|exact I]. occ_tac. }
  destruct (m_set_ok true p NS None None h cur t _ h1 cur1 ok1 I0 Hc (RO_none _) E1) as [t1 [Ev1 [Hr1 S1]]].
  simpl handles_opt in S1. rewrite app_nil_r in S1.
  rewrite Ev1.
  assert (Ho1 : repr h1 old told).
  { eapply (st_frame _ _ _ _ _ S1); eauto. apply incl_appl, incl_appl, incl_refl. }
  assert (Hw1 : repr h1 w tw).
  { eapply (st_frame _ _ _ _ _ S1); eauto. apply incl_appl, incl_appr, incl_refl. }
  assert (S1' : Step h (handles cur ++ handles old ++ handles w) G h1 (handles cur1 ++ handles old ++ handles w)).
  { apply Step_frame in S1. eapply Step_equiv; [| |exact S1]. apply in_occ_equiv; occ_tac. occ_tac. }
  destruct ok1; simpl in E |- *.
  - (* the slot is null now; call the operator *)
    destruct (m_bop f h1 old w) as [h2 r] eqn:EB.
    assert (I1 : Inv h1 ((handles old ++ handles w) ++ handles cur1 ++ G)).
    { eapply Inv_equiv; [|apply S1']. occ_tac. }
    pose proof (m_bop_ok f BF h1 old w told tw _ h2 r I1 Ho1 Hw1 EB) as HB.
    unfold bop_post in HB.
    destruct r as [res|]; destruct (bop_apply f told tw) as [tres|]; try contradiction.
    + destruct HB as [Hres S2].
      assert (Hc2 : repr h2 cur1 t1).
      { eapply (st_frame _ _ _ _ _ S2); eauto. apply incl_appl, incl_refl. }
      assert (I2 : Inv h2 ((handles cur1 ++ handles_opt (Some res)) ++ G)).
      { simpl. eapply Inv_equiv; [|apply S2]. occ_tac. }
      destruct (m_set_ok false p NS (Some res) (Some tres) h2 cur1 t1 G h' cur' ok I2 Hc2 (RO_some _ _ _ Hres) E)
        as [t' [Ev2 [Hr' S3]]].
      exists t'. split; auto. split; auto.
      assert (S2' : Step h1 (handles old ++ handles w) (handles cur1 ++ G) h2 (handles res)) by exact S2.
      apply Step_frame in S2'.
      eapply Step_trans; [exact S1'|].
      eapply Step_trans; [eapply Step_equiv; [| |exact S2']|]. apply in_occ_equiv; occ_tac. intro; reflexivity.
      eapply Step_equiv; [| |exact S3]. apply in_occ_equiv; simpl; occ_tac. occ_tac.
    + (* the operator raised: the slot stays null *)
      inversion E; subst; clear E.
      exists t1. split; auto. split.
      * eapply (st_frame _ _ _ _ _ HB); eauto. apply incl_appl, incl_refl.
      * assert (S2' : Step h1 (handles old ++ handles w) (handles cur' ++ G) h' []) by exact HB.
        apply Step_frame in S2'. simpl in S2'.
        eapply Step_trans; [exact S1'|].
        eapply Step_equiv; [| |exact S2']. apply in_occ_equiv; occ_tac. occ_tac.
  - inversion E; subst; clear E.
    assert (I1 : Inv h1 ((handles old ++ handles w) ++ handles cur' ++ G)).
    { eapply Inv_equiv; [|apply S1']. occ_tac. }
    pose proof (drop2_ok h1 old w _ I1) as S2.
    exists t1. split; auto. split.
    + eapply (st_frame _ _ _ _ _ S2); eauto. apply incl_appl, incl_refl.
    + assert (S2' : Step h1 (handles old ++ handles w) (handles cur' ++ G) (drop2 h1 old w) []) by exact S2.
      apply Step_frame in S2'. simpl in S2'.
      eapply Step_trans; [exact S1'|].
      eapply Step_equiv; [| |exact S2']. apply in_occ_equiv; occ_tac. occ_tac.
Qed.

Lemma m_opassign_ok p f : noslice p = true -> bfrag f = true ->
  forall h cur t old told w tw G h' cur' ok,
  Inv h ((handles cur ++ handles old ++ handles w) ++ G) ->
  repr h cur t -> repr h old told -> repr h w tw -> v_get t p = Some told ->
  m_opassign p f h cur old w = (h', cur', ok) ->
  exists t', v_opassign p f tw t = (t', ok) /\ repr h' cur' t' /\
             Step h (handles cur ++ handles old ++ handles w) G h' (handles cur').
Proof.
  intros NS BF h cur t old told w tw G h' cur' ok I Hc Ho Hw Hg E.
  unfold v_opassign. rewrite Hg. eapply m_opassign_old_ok; eauto.
Qed.

(* ------------------------------------------------------------------ a mutation form on one owned value (a closure parameter) *)
Definition lfrag (m : lop) : bool :=
  match m with
  | LSet p _ => noslice p
  | LOp p f _ => noslice p && bfrag f
  | LPop _ | LRemove _ _ | LConsume _ => true
  | LEvery _ _ => true
  end.

Lemma m_lop_ok m : lfrag m = true -> mod_spec (m_lop m) (lop_apply m).
Proof.
  destruct m as [p w | p w | p f w | p | p i | p]; simpl; intro FR; try discriminate;
    try (apply m_lop_mod_ok; reflexivity).
  - (* a[p] = w *)
    intros h cur t G h' cur' r I Hr E. simpl in E.
    destruct (alloc_val h w) as [h1 wv] eqn:EA.
    destruct (m_set false p (Some wv) h1 cur) as [[h2 cur2] ok] eqn:ES. inversion E; subst; clear E.
    destruct (alloc_val_ok w h (handles cur) G h1 wv I EA) as [Hw [S1 B1]].
    assert (I1 : Inv h1 ((handles cur ++ handles_opt (Some wv)) ++ G)).
    { simpl. eapply Inv_equiv; [|apply S1]. occ_tac. }
    assert (Hr1 : repr h1 cur t) by (eapply repr_ext; eauto).
    destruct (m_set_ok false p FR (Some wv) (Some w) h1 cur t G h' cur' ok I1 Hr1 (RO_some _ _ _ Hw) ES) as [t' [Ev [Hr' S2]]].
    simpl. rewrite Ev. simpl. split; auto.
    assert (S12 : Step h (handles cur) G h' (handles cur')).
    { eapply Step_trans; [exact S1|]. eapply Step_equiv; [| |exact S2]. apply in_occ_equiv; simpl; occ_tac. intro; reflexivity. }
    destruct ok; simpl.
    + split; [constructor|]. rewrite handles_null. simpl. exact S12.
    + exact S12.
  - (* every a[p] = w *)
    intros h cur t G h' cur' r I Hr E. simpl in E.
    destruct (alloc_val h w) as [h1 wv] eqn:EA.
    destruct (m_set true p (Some wv) h1 cur) as [[h2 cur2] ok] eqn:ES. inversion E; subst; clear E.
    destruct (alloc_val_ok w h (handles cur) G h1 wv I EA) as [Hw [S1 B1]].
    assert (I1 : Inv h1 ((handles cur ++ handles_opt (Some wv)) ++ G)).
    { simpl. eapply Inv_equiv; [|apply S1]. occ_tac. }
    assert (Hr1 : repr h1 cur t) by (eapply repr_ext; eauto).
    destruct (m_set_ok_all true p (Some wv) (Some w) h1 cur t G h' cur' ok I1 Hr1 (RO_some _ _ _ Hw) ES) as [t' [Ev [Hr' S2]]].
    simpl. rewrite Ev. simpl. split; auto.
    assert (S12 : Step h (handles cur) G h' (handles cur')).
    { eapply Step_trans; [exact S1|]. eapply Step_equiv; [| |exact S2]. apply in_occ_equiv; simpl; occ_tac. intro; reflexivity. }
    destruct ok; simpl.
    + split; [constructor|]. rewrite handles_null. simpl. exact S12.
    + exact S12.
  - (* a[p] f= w *)
    apply andb_prop in FR. destruct FR as [NS BF].
    intros h cur t G h' cur' r I Hr E. simpl in E. simpl. unfold v_opassign, v_opassign_old.
    destruct (m_read h cur p) as [h1 [old|]] eqn:ER.
    2: { destruct (m_read_ok h cur t p (handles cur) G h1 None I) as [[Hg S1] K1]; auto.
         { apply incl_appl, incl_refl. }
         inversion E; subst. rewrite Hg. simpl. split; auto. apply K1; auto. apply incl_appl, incl_refl. }
    destruct (m_read_ok h cur t p (handles cur) G h1 (Some old) I) as [[told [Hg [Hold S1]]] K1]; auto.
    { apply incl_appl, incl_refl. }
    assert (Hr1 : repr h1 cur t) by (apply K1; auto; apply incl_appl, incl_refl).
    destruct (alloc_val h1 w) as [h2 wv] eqn:EA.
    destruct (m_opassign p f h2 cur old wv) as [[h3 cur3] ok] eqn:EO. inversion E; subst; clear E.
    assert (I1 : Inv h1 ((handles old ++ handles cur) ++ G)) by apply S1.
    destruct (alloc_val_ok w h1 (handles old ++ handles cur) G h2 wv I1 EA) as [Hw [S2 B2]].
    assert (I2 : Inv h2 ((handles cur ++ handles old ++ handles wv) ++ G)).
    { eapply Inv_equiv; [|apply S2]. occ_tac. }
    assert (Hr2 : repr h2 cur t) by (eapply repr_ext; eauto).
    assert (Hold2 : repr h2 old told) by (eapply repr_ext; eauto).
    destruct (m_opassign_ok p f NS BF h2 cur t old told wv w G h' cur' ok I2 Hr2 Hold2 Hw Hg EO) as [t' [Ev [Hr' S3]]].
    unfold v_opassign, v_opassign_old in Ev. rewrite Hg in Ev. rewrite Hg.
    assert (S123 : Step h (handles cur) G h' (handles cur')).
    { eapply Step_trans; [exact S1|]. eapply Step_trans; [exact S2|].
      eapply Step_equiv; [| |exact S3]. apply in_occ_equiv; occ_tac. intro; reflexivity. }
    destruct (v_set true p None t) as [v1 ok1] eqn:EV1.
    destruct ok1; simpl in Ev |- *.
    + destruct (bop_apply f told w) as [rr|] eqn:EB.
      * rewrite Ev. simpl. split; auto. destruct ok; simpl; auto. split; [constructor|]. rewrite handles_null. exact S123.
      * inversion Ev; subst. simpl. split; auto.
    + inversion Ev; subst. simpl. split; auto.
Qed.

(* ------------------------------------------------------------------ expressions *)
Fixpoint evals (st : state) (es : list expr) : option (list val) :=
  match es with
  | [] => Some []
  | e1 :: tl => match eval st e1 with
                | Some v => match evals st tl with Some r => Some (v :: r) | None => None end
                | None => None
                end
  end.

Lemma eval_EList st es :
  eval st (EList es) = match evals st es with Some vs => Some (VList vs) | None => None end.
Proof.
  simpl. assert (E : (fix go (l : list expr) : option (list val) :=
             match l with
             | [] => Some []
             | e1 :: tl => match eval st e1 with
                           | Some v => match go tl with Some r => Some (v :: r) | None => None end
                           | None => None
                           end
             end) es = evals st es).
  { induction es; simpl; auto. rewrite IHes. reflexivity. }
  rewrite E. reflexivity.
Qed.

Lemma eval_EUpd_eq st e k e2 :
  eval st (EUpd e k e2) =
  match eval st e with
  | Some v => match eval st e2 with
              | Some w => let (v', ok) := v_set false [k] (Some w) v in if ok then Some v' else None
              | None => None
              end
  | None => None
  end.
Proof. reflexivity. Qed.

Lemma m_eval_EUpd_eq rs h e k e2 :
  m_eval rs h (EUpd e k e2) =
  match m_eval rs h e with
  | (h1, Some v) =>
    match m_eval rs h1 e2 with
    | (h2, Some w) =>
      let '(h3, v', ok) := m_set false [k] (Some w) h2 v in
      if ok then (h3, Some v') else (drop_val h3 v', None)
    | (h2, None) => (drop_val h2 v, None)
    end
  | (h1, None) => (h1, None)
  end.
Proof. reflexivity. Qed.

Fixpoint m_evals (rs : list hval) (h : heap) (l : list expr) : heap * option (list (key * hval)) :=
  match l with
  | [] => (h, Some [])
  | e1 :: tl =>
    match m_eval rs h e1 with
    | (h1, Some v) =>
      match m_evals rs h1 tl with
      | (h2, Some r) => (h2, Some ((nokey, v) :: r))
      | (h2, None) => (drop_val h2 v, None)
      end
    | (h1, None) => (h1, None)
    end
  end.

Lemma m_eval_EList rs h es :
  m_eval rs h (EList es) =
  let '(h1, r) := m_evals rs h es in
  match r with
  | Some its => let '(h2, l) := alloc h1 KList its in (h2, Some (HRef l None))
  | None => (h1, None)
  end.
Proof.
  simpl. assert (E : forall h, (fix go (h : heap) (l : list expr) {struct l} : heap * option (list (key * hval)) :=
         match l with
         | [] => (h, Some [])
         | e1 :: tl =>
           match m_eval rs h e1 with
           | (h1, Some v) =>
             match go h1 tl with
             | (h2, Some r) => (h2, Some ((nokey, v) :: r))
             | (h2, None) => (drop_val h2 v, None)
             end
           | (h1, None) => (h1, None)
           end
         end) h es = m_evals rs h es).
  { induction es; intro h0; simpl; auto. destruct (m_eval rs h0 a) as [h1 [v|]]; auto. rewrite IHes. reflexivity. }
  rewrite E. reflexivity.
Qed.

(* the expression forms covered by the proof so far *)
Fixpoint efrag (e : expr) : bool :=
  match e with
  | ELit _ | ERead _ _ | EGet _ => true
  | EList es => (fix go (l : list expr) : bool := match l with [] => true | x :: tl => efrag x && go tl end) es
  | EUpd e k e2 => efrag e && negb (is_slice k) && efrag e2
  | ECall m e => lfrag m && efrag e
  end.

Definition eval_post (rs : list hval) (h : heap) (F : list loc) (st : state) (e : expr) (h' : heap) (r : option hval) : Prop :=
  match r with
  | Some w => exists tw, eval st e = Some tw /\ repr h' w tw /\
                         Step h (handles_list rs) F h' (handles w ++ handles_list rs)
  | None => eval st e = None /\ Step h (handles_list rs) F h' (handles_list rs)
  end /\ (forall w t, incl (handles w) (handles_list rs ++ F) -> repr h w t -> repr h' w t).

Section ExprInd.
  Variable P : expr -> Prop.
  Hypothesis Hlit : forall v, P (ELit v).
  Hypothesis Hread : forall x p, P (ERead x p).
  Hypothesis Hget : forall x, P (EGet x).
  Hypothesis Hlist : forall es, Forall P es -> P (EList es).
  Hypothesis Hupd : forall e k e2, P e -> P e2 -> P (EUpd e k e2).
  Hypothesis Hcall : forall m e, P e -> P (ECall m e).
  Fixpoint expr_ind' (e : expr) : P e :=
    match e with
    | ELit v => Hlit v
    | ERead x p => Hread x p
    | EGet x => Hget x
    | EList es => Hlist es ((fix go (l : list expr) : Forall P l :=
                               match l with
                               | [] => Forall_nil _
                               | x :: tl => Forall_cons x (expr_ind' x) (go tl)
                               end) es)
    | EUpd e k e2 => Hupd e k e2 (expr_ind' e) (expr_ind' e2)
    | ECall m e => Hcall m e (expr_ind' e)
    end.
End ExprInd.

Lemma m_eval_ok e : efrag e = true -> forall rs h F st h' r,
  Inv h (handles_list rs ++ F) -> repr_list h rs st -> m_eval rs h e = (h', r) ->
  eval_post rs h F st e h' r.
Proof.
  induction e as [v | x p | x | es H | e1 k e2 IHe1 IHe2 | m e IHe] using expr_ind'; intros FR rs h F st h' r I Hrs E; unfold eval_post.
  - (* literal *)
    simpl in E. destruct (alloc_val h v) as [h1 w] eqn:EA. inversion E; subst.
    destruct (alloc_val_ok v h (handles_list rs) F h' w I EA) as [Hw [S B]].
    split; [exists v; auto|]. intros; eapply repr_ext; eauto.
  - (* x[p] *)
    simpl in E. simpl. destruct (nth_error rs x) as [v|] eqn:Ex.
    + destruct (repr_list_nth _ _ _ _ _ Hrs Ex) as [tv [Htv Hv]]. rewrite Htv.
      apply (m_read_ok h v tv p (handles_list rs) F h' r I); auto.
      apply incl_appl. eapply handles_list_nth; eauto.
    + inversion E; subst. rewrite (repr_list_nth_none _ _ _ _ Hrs Ex).
      split; auto. split; auto. apply Step_refl; auto.
  - (* getter closure *)
    simpl in E. simpl. destruct (nth_error rs x) as [v|] eqn:Ex.
    + destruct (repr_list_nth _ _ _ _ _ Hrs Ex) as [tv [Htv Hv]]. rewrite Htv. inversion E; subst.
      destruct (clone_val_step h (handles_list rs) F v I) as [S [B L]].
      { apply incl_appl. eapply handles_list_nth; eauto. }
      split; [|intros; eapply repr_ext; eauto].
      exists tv. split; auto. split; auto. eapply repr_ext; eauto.
    + inversion E; subst. rewrite (repr_list_nth_none _ _ _ _ Hrs Ex).
      split; auto. split; auto. apply Step_refl; auto.
  - (* [e1, ..., en] *)
    rewrite m_eval_EList in E. rewrite eval_EList.
    assert (LIST : forall es0, Forall (fun e => efrag e = true -> forall rs h F st h' r,
                     Inv h (handles_list rs ++ F) -> repr_list h rs st -> m_eval rs h e = (h', r) ->
                     eval_post rs h F st e h' r) es0 ->
                   (fix go (l : list expr) : bool := match l with [] => true | x :: tl => efrag x && go tl end) es0 = true ->
                   forall h F h1 r1, Inv h (handles_list rs ++ F) -> repr_list h rs st -> m_evals rs h es0 = (h1, r1) ->
                   match r1 with
                   | Some its => exists ts, evals st es0 = Some ts /\ repr_items h1 its (unlabelled ts) /\
                                            Step h (handles_list rs) F h1 (handles_items its ++ handles_list rs)
                   | None => evals st es0 = None /\ Step h (handles_list rs) F h1 (handles_list rs)
                   end /\ (forall w t, incl (handles w) (handles_list rs ++ F) -> repr h w t -> repr h1 w t)).
    { induction es0 as [|e1 tl IHl]; intros Hall Hfr h0 F0 h1 r1 I0 Hrs0 E0.
      - simpl in E0. inversion E0; subst. split; auto. exists []. split; auto. split; [constructor|].
        simpl. apply Step_refl; auto.
      - inversion Hall; subst. apply andb_prop in Hfr. destruct Hfr as [Hf1 Hf2].
        simpl in E0. destruct (m_eval rs h0 e1) as [h2 [v|]] eqn:E1.
        + destruct (H2 Hf1 rs h0 F0 st h2 (Some v) I0 Hrs0 E1) as [[tv [Ev [Hv S1]]] K1].
          assert (Hrs2 : repr_list h2 rs st).
          { assert (Hx : repr h2 (HInst 0 rs) (VInst 0 st)).
            { apply K1. rewrite handles_inst. apply incl_appl, incl_refl. constructor; auto. }
            inversion Hx; auto. }
          assert (I2 : Inv h2 (handles_list rs ++ handles v ++ F0)).
          { eapply Inv_equiv; [|apply S1]. occ_tac. }
          destruct (m_evals rs h2 tl) as [h3 [rr|]] eqn:E2.
          * destruct (IHl H3 Hf2 h2 (handles v ++ F0) h3 (Some rr) I2 Hrs2 E2) as [[ts [Evs [Hr S2]]] K2].
            inversion E0; subst; clear E0. split.
            -- exists (tv :: ts). simpl. rewrite Ev, Evs. split; auto. split.
               ++ constructor; auto. apply K2; auto. apply incl_appr, incl_appl, incl_refl.
               ++ apply Step_frame in S2. eapply Step_trans; [|eapply Step_equiv; [| |exact S2]].
                  ** eapply Step_equiv; [| |exact S1]. intro; tauto. intro; reflexivity.
                  ** apply in_occ_equiv. occ_tac.
                  ** unfold handles_items. simpl. fold (handles_items rr). occ_tac.
            -- intros w t Iw Hw. apply K2. { intros x Hx. apply Iw in Hx. revert Hx. in_tac. } apply K1; auto.
          * destruct (IHl H3 Hf2 h2 (handles v ++ F0) h3 None I2 Hrs2 E2) as [[Evs S2] K2].
            inversion E0; subst; clear E0.
            assert (I3 : Inv h3 ((handles v ++ handles_list rs) ++ F0)).
            { eapply Inv_equiv; [|apply S2]. occ_tac. }
            destruct (drop_val_keep h3 v (handles_list rs) F0 I3) as [S3 K3].
            split.
            -- simpl. rewrite Ev, Evs. split; auto.
               apply Step_frame in S2.
               eapply Step_trans; [exact S1|]. eapply Step_trans; [|exact S3].
               eapply Step_equiv; [| |exact S2]. apply in_occ_equiv; occ_tac. occ_tac.
            -- intros w t Iw Hw. apply K3; auto. apply K2. { intros x Hx. apply Iw in Hx. revert Hx. in_tac. } apply K1; auto.
        + destruct (H2 Hf1 rs h0 F0 st h2 None I0 Hrs0 E1) as [[Ev S1] K1].
          inversion E0; subst; clear E0. split; auto. simpl. rewrite Ev. auto. }
    simpl in FR.
    destruct (m_evals rs h es) as [h1 [its|]] eqn:E1.
    + destruct (LIST es H FR h F h1 (Some its) I Hrs E1) as [[ts [Evs [Hits S1]]] K1].
      destruct (alloc h1 KList its) as [h2 l] eqn:EA. inversion E; subst; clear E.
      assert (I1 : Inv h1 ((handles_items its ++ handles_list rs) ++ F)) by apply S1.
      destruct (alloc_step' h1 (handles_list rs) F KList its h' l EA I1) as [S2 B2].
      rewrite Evs. split.
      * exists (VList ts). split; auto. split.
        -- unfold VList. eapply alloc_repr; eauto.
        -- rewrite handles_ref. simpl. eapply Step_trans; eauto.
      * intros w t Iw Hw. eapply repr_ext; [exact B2|]. apply K1; auto.
    + destruct (LIST es H FR h F h1 None I Hrs E1) as [[Evs S1] K1].
      inversion E; subst; clear E. rewrite Evs. split; auto.
  - (* e{k = e2} *)
    simpl in FR. apply andb_prop in FR. destruct FR as [FR F2]. apply andb_prop in FR. destruct FR as [F1 NK].
    rewrite m_eval_EUpd_eq in E. rewrite eval_EUpd_eq.
    destruct (m_eval rs h e1) as [h1 [v|]] eqn:E1.
    2: { destruct (IHe1 F1 rs h F st h1 None I Hrs E1) as [[Ev S1] K1]. inversion E; subst. rewrite Ev. split; auto. }
    destruct (IHe1 F1 rs h F st h1 (Some v) I Hrs E1) as [[tv [Ev [Hv S1]]] K1]. rewrite Ev.
    assert (Hrs1 : repr_list h1 rs st).
    { apply repr_list_as_inst. apply K1. rewrite handles_inst. apply incl_appl, incl_refl. apply repr_list_as_inst; auto. }
    assert (I1 : Inv h1 (handles_list rs ++ handles v ++ F)).
    { eapply Inv_equiv; [|apply S1]. occ_tac. }
    destruct (m_eval rs h1 e2) as [h2 [w|]] eqn:E2.
    2: { destruct (IHe2 F2 rs h1 (handles v ++ F) st h2 None I1 Hrs1 E2) as [[Ev2 S2] K2].
         inversion E; subst; clear E. rewrite Ev2.
         assert (I2 : Inv h2 ((handles v ++ handles_list rs) ++ F)).
         { eapply Inv_equiv; [|apply S2]. occ_tac. }
         destruct (drop_val_keep h2 v (handles_list rs) F I2) as [S3 K3].
         split.
         - split; auto. apply Step_frame in S2.
           eapply Step_trans; [exact S1|]. eapply Step_trans; [|exact S3].
           eapply Step_equiv; [| |exact S2]. apply in_occ_equiv; occ_tac. occ_tac.
         - intros w0 t0 Iw Hw0. apply K3; auto. apply K2. { intros x Hx. apply Iw in Hx. revert Hx. in_tac. } apply K1; auto. }
    destruct (IHe2 F2 rs h1 (handles v ++ F) st h2 (Some w) I1 Hrs1 E2) as [[tw [Ev2 [Hw S2]]] K2]. rewrite Ev2.
    assert (Hv2 : repr h2 v tv) by (apply K2; auto; apply incl_appr, incl_appl, incl_refl).
    destruct (m_set false [k] (Some w) h2 v) as [[h3 v'] ok] eqn:ES.
    assert (NS : noslice [k] = true) by (simpl; rewrite NK; reflexivity).
    assert (I2 : Inv h2 ((handles v ++ handles_opt (Some w)) ++ handles_list rs ++ F)).
    { simpl. eapply Inv_equiv; [|apply S2]. occ_tac. }
    destruct (m_set_ok false [k] NS (Some w) (Some tw) h2 v tv _ h3 v' ok I2 Hv2 (RO_some _ _ _ Hw) ES) as [t' [Ev3 [Hr' S3]]].
    rewrite Ev3.
    assert (S123 : Step h (handles_list rs) F h3 (handles v' ++ handles_list rs)).
    { apply Step_frame in S2. apply Step_frame in S3.
      eapply Step_trans; [exact S1|].
      eapply Step_trans; [eapply Step_equiv; [| |exact S2]|]. apply in_occ_equiv; occ_tac. intro; reflexivity.
      eapply Step_equiv; [| |exact S3]. apply in_occ_equiv; simpl; occ_tac. occ_tac. }
    assert (K123 : forall w0 t0, incl (handles w0) (handles_list rs ++ F) -> repr h w0 t0 -> repr h3 w0 t0).
    { intros w0 t0 Iw Hw0. eapply (st_frame _ _ _ _ _ S3); eauto.
      apply K2. { intros x Hx. apply Iw in Hx. revert Hx. in_tac. } apply K1; auto. }
    destruct ok.
    + inversion E; subst; clear E. split; auto. exists t'. split; auto.
    + inversion E; subst; clear E.
      assert (I3 : Inv h3 ((handles v' ++ handles_list rs) ++ F)) by apply S123.
      destruct (drop_val_keep h3 v' (handles_list rs) F I3) as [S4 K4].
      split.
      * split; auto. eapply Step_trans; eauto.
      * intros w0 t0 Iw Hw0. apply K4; auto.
  - (* (\a -> (m on a; a))(e) *)
    simpl in FR. apply andb_prop in FR. destruct FR as [FM FE].
    simpl in E. simpl.
    destruct (m_eval rs h e) as [h1 [v|]] eqn:E1.
    2: { destruct (IHe FE rs h F st h1 None I Hrs E1) as [[Ev S1] K1]. inversion E; subst. rewrite Ev. split; auto. }
    destruct (IHe FE rs h F st h1 (Some v) I Hrs E1) as [[tv [Ev [Hv S1]]] K1]. rewrite Ev.
    destruct (m_lop m h1 v) as [[h2 a'] r0] eqn:EL.
    assert (I1 : Inv h1 (handles v ++ handles_list rs ++ F)).
    { eapply Inv_equiv; [|apply S1]. occ_tac. }
    pose proof (m_lop_ok m FM h1 v tv _ h2 a' r0 I1 Hv EL) as [Hr' Hres].
    destruct (lop_apply m tv) as [t' tr] eqn:EV. simpl in Hr', Hres.
    destruct r0 as [res|]; destruct tr as [tres|]; try contradiction.
    + destruct Hres as [Hrres S2]. inversion E; subst; clear E.
      assert (I2 : Inv h2 ((handles res ++ handles a') ++ handles_list rs ++ F)) by apply S2.
      destruct (drop_val_keep h2 res (handles a') (handles_list rs ++ F) I2) as [S3 K3].
      split.
      * exists t'. split; auto. split; [apply K3; auto; apply incl_appl, incl_refl|].
        apply Step_frame in S2. apply Step_frame in S3.
        eapply Step_trans; [exact S1|].
        eapply Step_trans; [eapply Step_equiv; [| |exact S2]|]. apply in_occ_equiv; occ_tac. intro; reflexivity.
        eapply Step_equiv; [| |exact S3]. apply in_occ_equiv; occ_tac. occ_tac.
      * intros w0 t0 Iw Hw0. apply K3. { apply incl_appr. auto. }
        apply (st_frame _ _ _ _ _ S2); [exact Iw | apply K1; auto].
    + inversion E; subst; clear E.
      assert (I2 : Inv h2 ((handles a' ++ []) ++ handles_list rs ++ F)) by (rewrite app_nil_r; apply Hres).
      destruct (drop_val_keep h2 a' [] (handles_list rs ++ F) I2) as [S3 K3].
      split.
      * split; auto.
        assert (S2' : Step h1 (handles v) (handles_list rs ++ F) h2 (handles a')) by exact Hres.
        apply Step_frame in S2'. apply Step_frame in S3. simpl in S3.
        eapply Step_trans; [exact S1|].
        eapply Step_trans; [eapply Step_equiv; [| |exact S2']|]. apply in_occ_equiv; occ_tac. intro; reflexivity.
        eapply Step_equiv; [| |exact S3]. apply in_occ_equiv; occ_tac. occ_tac.
      * intros w0 t0 Iw Hw0. apply K3. { simpl. auto. }
        apply (st_frame _ _ _ _ _ Hres); [exact Iw | apply K1; auto].
Qed.

Lemma exec_op_ok x p f e : noslice p = true -> bfrag f = true -> efrag e = true ->
  forall h rs sg st' ok,
  Inv h (handles_list rs) -> repr_list h rs sg ->
  m_exec_s (mkst h rs) (SOp x p f e) = (st', ok) ->
  exists sg', exec_s sg (SOp x p f e) = (sg', ok) /\ StInv st' /\ Sim st' sg'.
Proof.
  intros NS BF FE h rs sg st' ok I Hrs E. simpl in E. simpl.
  assert (KEEPST : forall hh Rres, Step h (handles_list rs) [] hh (Rres ++ handles_list rs) -> Rres = [] ->
                   (forall w t, incl (handles w) (handles_list rs ++ []) -> repr h w t -> repr hh w t) ->
                   StInv (mkst hh rs) /\ Sim (mkst hh rs) sg).
  { intros hh Rres S ER K. subst Rres. split.
    - unfold StInv. simpl. pose proof (st_inv _ _ _ _ _ S) as I1. simpl in I1. rewrite app_nil_r in I1. auto.
    - unfold Sim. simpl. apply repr_list_as_inst. apply K.
      rewrite handles_inst. apply incl_appl, incl_refl. apply repr_list_as_inst; auto. }
  destruct (nth_error rs x) as [cur|] eqn:Ex.
  2: { inversion E; subst. rewrite (repr_list_nth_none _ _ _ _ Hrs Ex). eexists; split; [reflexivity|]. split; auto. }
  destruct (repr_list_nth _ _ _ _ _ Hrs Ex) as [tcur [Htc Hcur]]. rewrite Htc.
  assert (I0 : Inv h (handles_list rs ++ [])) by (rewrite app_nil_r; auto).
  destruct (m_read h cur p) as [h1 [old|]] eqn:ER.
  2: { destruct (m_read_ok h cur tcur p (handles_list rs) [] h1 None I0) as [[Hg S1] K1]; auto.
       { apply incl_appl. eapply handles_list_nth; eauto. }
       inversion E; subst. rewrite Hg. eexists; split; [reflexivity|].
       apply (KEEPST h1 []); auto. }
  destruct (m_read_ok h cur tcur p (handles_list rs) [] h1 (Some old) I0) as [[told [Hg [Hold S1]]] K1]; auto.
  { apply incl_appl. eapply handles_list_nth; eauto. }
  rewrite Hg.
  assert (Hrs1 : repr_list h1 rs sg).
  { apply repr_list_as_inst. apply K1. rewrite handles_inst. apply incl_appl, incl_refl. apply repr_list_as_inst; auto. }
  assert (I1 : Inv h1 (handles_list rs ++ handles old)).
  { pose proof (st_inv _ _ _ _ _ S1) as I1. rewrite app_nil_r in I1. eapply Inv_equiv; [|exact I1]. occ_tac. }
  destruct (m_eval rs h1 e) as [h2 [w|]] eqn:EE.
  2: { destruct (m_eval_ok e FE rs h1 (handles old) sg h2 None I1 Hrs1 EE) as [[Ev S2] K2].
       rewrite Ev. inversion E; subst; clear E.
       assert (I2 : Inv h2 ((handles old ++ handles_list rs) ++ [])).
       { rewrite app_nil_r. eapply Inv_equiv; [|apply S2]. occ_tac. }
       destruct (drop_val_keep h2 old (handles_list rs) [] I2) as [S3 K3].
       eexists; split; [reflexivity|]. split.
       - unfold StInv. simpl. pose proof (st_inv _ _ _ _ _ S3) as I3. rewrite app_nil_r in I3. auto.
       - unfold Sim. simpl. apply repr_list_as_inst. apply K3. rewrite handles_inst. apply incl_appl, incl_refl.
         apply K2. rewrite handles_inst. apply incl_appl, incl_refl. apply repr_list_as_inst; auto. }
  destruct (m_eval_ok e FE rs h1 (handles old) sg h2 (Some w) I1 Hrs1 EE) as [[tw [Ev [Hw S2]]] K2].
  rewrite Ev.
  assert (Hrs2 : repr_list h2 rs sg).
  { apply repr_list_as_inst. apply K2. rewrite handles_inst. apply incl_appl, incl_refl. apply repr_list_as_inst; auto. }
  assert (Hold2 : repr h2 old told).
  { apply K2; auto. apply incl_appr, incl_refl. }
  destruct (m_opassign p f h2 cur old w) as [[h3 cur'] ok1] eqn:EO. inversion E; subst; clear E.
  set (others := handles_list (set_root rs x HNull)).
  assert (I2 : Inv h2 ((handles cur ++ handles old ++ handles w) ++ others)).
  { eapply Inv_equiv; [|apply S2]. intro l. pose proof (roots_split x rs cur Ex l). fold others in H. revert H. occ_tac. }
  assert (Hcur2 : repr h2 cur tcur).
  { destruct (repr_list_nth _ _ _ _ _ Hrs2 Ex) as [tc2 [Htc2 Hc2]]. rewrite Htc in Htc2. inversion Htc2; subst. auto. }
  destruct (m_opassign_ok p f NS BF h2 cur tcur old told w tw others h3 cur' ok I2 Hcur2 Hold2 Hw Hg EO)
    as [t' [Ev2 [Hr' S3]]].
  rewrite Ev2. eexists; split; [reflexivity|].
  assert (S3' : Step h2 (handles cur ++ handles old ++ handles w) (handles_list (set_root rs x HNull)) h3 ([] ++ handles cur')) by exact S3.
  destruct (root_update h2 rs sg x cur h3 cur' t' _ [] Ex Hrs2 S3' Hr') as [I3 Hrs3].
  split; auto.
Qed.

(* ------------------------------------------------------------------ swap: two reads, two assignments *)
Lemma root_update_g h rs sg x cur h1 cur' t' Rin Rres G :
  nth_error rs x = Some cur -> repr_list h rs sg ->
  Step h Rin (handles_list (set_root rs x HNull) ++ G) h1 (Rres ++ handles cur') ->
  repr h1 cur' t' ->
  Inv h1 ((Rres ++ handles_list (set_root rs x cur')) ++ G) /\
  repr_list h1 (set_root rs x cur') (set_var sg x t') /\
  (forall u t, incl (handles u) G -> repr h u t -> repr h1 u t).
Proof.
  intros Ex Hrs S Hr'. set (others := handles_list (set_root rs x HNull)) in *. split; [|split].
  - eapply Inv_equiv; [|apply (st_inv _ _ _ _ _ S)].
    intro l. pose proof (roots_put x rs cur cur' Ex l). fold others in H. revert H. occ_tac.
  - assert (Ho : repr h (HInst 0 (set_root rs x HNull)) (VInst 0 (set_field x VNull sg))).
    { constructor. apply repr_list_set_field; auto. constructor. }
    apply (st_frame _ _ _ _ _ S) in Ho; [|rewrite handles_inst; apply incl_appl, incl_refl].
    inversion Ho; subst.
    match goal with H : repr_list h1 _ _ |- _ => pose proof (repr_list_set_field _ _ _ x _ _ H Hr') as Hx end.
    unfold set_root in Hx. rewrite hset_field_twice, set_field_twice in Hx. exact Hx.
  - intros u t Iu Hu. apply (st_frame _ _ _ _ _ S); auto. apply incl_appr. auto.
Qed.

Lemma m_assign_to_ok_g h rs sg every x p w tw st' ok G :
  noslice p = true ->
  Inv h ((handles w ++ handles_list rs) ++ G) -> repr_list h rs sg -> repr h w tw ->
  m_assign_to (mkst h rs) every x p w = (st', ok) ->
  exists sg', assign_to sg every x p tw = (sg', ok) /\
    Inv (mheap st') (handles_list (roots st') ++ G) /\ Sim st' sg' /\
    (forall u t, incl (handles u) G -> repr h u t -> repr (mheap st') u t).
Proof.
  intros NS I Hrs Hw E. unfold m_assign_to in E. simpl in E. unfold assign_to.
  destruct (nth_error rs x) as [cur|] eqn:Ex.
  - destruct (repr_list_nth _ _ _ _ _ Hrs Ex) as [tcur [Htc Hcur]]. rewrite Htc.
    destruct (m_set every p (Some w) h cur) as [[h1 cur'] ok1] eqn:ES. inversion E; subst; clear E.
    set (others := handles_list (set_root rs x HNull)).
    assert (I0 : Inv h ((handles cur ++ handles_opt (Some w)) ++ others ++ G)).
    { eapply Inv_equiv; [|exact I]. intro l. pose proof (roots_split x rs cur Ex l). simpl. fold others in H. revert H. occ_tac. }
    destruct (m_set_ok every p NS (Some w) (Some tw) h cur tcur _ h1 cur' ok I0 Hcur (RO_some _ _ _ Hw) ES)
      as [t' [Ev [Hr' S]]].
    rewrite Ev. eexists; split; [reflexivity|].
    assert (S' : Step h (handles cur ++ handles_opt (Some w)) (handles_list (set_root rs x HNull) ++ G) h1 ([] ++ handles cur')) by exact S.
    destruct (root_update_g h rs sg x cur h1 cur' t' _ [] G Ex Hrs S' Hr') as [I1 [Hrs1 K1]].
    simpl. split; auto.
  - inversion E; subst; clear E. rewrite (repr_list_nth_none _ _ _ _ Hrs Ex).
    destruct (drop_val_keep h w (handles_list rs) G I) as [S K].
    eexists; split; [reflexivity|]. simpl. split; [apply S|]. split.
    + unfold Sim. simpl. apply repr_list_as_inst. apply K.
      * rewrite handles_inst. apply incl_appl, incl_refl.
      * apply repr_list_as_inst. auto.
    + intros u t Iu Hu. apply K; auto. apply incl_appr. auto.
Qed.

Lemma m_assign_to_all_g h rs sg every x p w tw st' ok G :
  Inv h ((handles w ++ handles_list rs) ++ G) -> repr_list h rs sg -> repr h w tw ->
  m_assign_to (mkst h rs) every x p w = (st', ok) ->
  exists sg', assign_to sg every x p tw = (sg', ok) /\
    Inv (mheap st') (handles_list (roots st') ++ G) /\ Sim st' sg' /\
    (forall u t, incl (handles u) G -> repr h u t -> repr (mheap st') u t).
Proof.
  intros I Hrs Hw E. unfold m_assign_to in E. simpl in E. unfold assign_to.
  destruct (nth_error rs x) as [cur|] eqn:Ex.
  - destruct (repr_list_nth _ _ _ _ _ Hrs Ex) as [tcur [Htc Hcur]]. rewrite Htc.
    destruct (m_set every p (Some w) h cur) as [[h1 cur'] ok1] eqn:ES. inversion E; subst; clear E.
    set (others := handles_list (set_root rs x HNull)).
    assert (I0 : Inv h ((handles cur ++ handles_opt (Some w)) ++ others ++ G)).
    { eapply Inv_equiv; [|exact I]. intro l. pose proof (roots_split x rs cur Ex l). simpl. fold others in H. revert H. occ_tac. }
    destruct (m_set_ok_all every p (Some w) (Some tw) h cur tcur _ h1 cur' ok I0 Hcur (RO_some _ _ _ Hw) ES)
      as [t' [Ev [Hr' S]]].
    rewrite Ev. eexists; split; [reflexivity|].
    assert (S' : Step h (handles cur ++ handles_opt (Some w)) (handles_list (set_root rs x HNull) ++ G) h1 ([] ++ handles cur')) by exact S.
    destruct (root_update_g h rs sg x cur h1 cur' t' _ [] G Ex Hrs S' Hr') as [I1 [Hrs1 K1]].
    simpl. split; auto.
  - inversion E; subst; clear E. rewrite (repr_list_nth_none _ _ _ _ Hrs Ex).
    destruct (drop_val_keep h w (handles_list rs) G I) as [S K].
    eexists; split; [reflexivity|]. simpl. split; [apply S|]. split.
    + unfold Sim. simpl. apply repr_list_as_inst. apply K.
      * rewrite handles_inst. apply incl_appl, incl_refl.
      * apply repr_list_as_inst. auto.
    + intros u t Iu Hu. apply K; auto. apply incl_appr. auto.
Qed.

Lemma exec_every_ok x p e : efrag e = true ->
  forall h rs sg st' ok,
  Inv h (handles_list rs) -> repr_list h rs sg ->
  m_exec_s (mkst h rs) (SEvery x p e) = (st', ok) ->
  exists sg', exec_s sg (SEvery x p e) = (sg', ok) /\ StInv st' /\ Sim st' sg'.
Proof.
  intros FE h rs sg st' ok I Hs E. simpl in E. simpl.
  assert (I0 : Inv h (handles_list rs ++ [])) by (rewrite app_nil_r; auto).
  destruct (m_eval rs h e) as [h1 [w|]] eqn:EE.
  - destruct (m_eval_ok e FE rs h [] sg h1 (Some w) I0 Hs EE) as [[tw [Ev [Hw S]]] K].
    rewrite Ev.
    assert (Hrs1 : repr_list h1 rs sg).
    { apply repr_list_as_inst. apply K. rewrite handles_inst. apply incl_appl, incl_refl. apply repr_list_as_inst; auto. }
    assert (I1 : Inv h1 ((handles w ++ handles_list rs) ++ [])) by apply S.
    destruct (m_assign_to_all_g h1 rs sg true x p w tw st' ok [] I1 Hrs1 Hw E) as [sg' [Ev2 [I2 [Hs2 _]]]].
    exists sg'. split; auto. split; auto. unfold StInv. rewrite app_nil_r in I2. auto.
  - destruct (m_eval_ok e FE rs h [] sg h1 None I0 Hs EE) as [[Ev S] K].
    rewrite Ev. inversion E; subst; clear E. eexists; split; [reflexivity|]. split.
    + unfold StInv. simpl. pose proof (st_inv _ _ _ _ _ S) as I1. rewrite app_nil_r in I1. auto.
    + unfold Sim. simpl. apply repr_list_as_inst. apply K.
      rewrite handles_inst. apply incl_appl, incl_refl. apply repr_list_as_inst; auto.
Qed.

Lemma exec_swap_ok x p y q : noslice p = true -> noslice q = true ->
  forall h rs sg st' ok,
  Inv h (handles_list rs) -> repr_list h rs sg ->
  m_exec_s (mkst h rs) (SSwap x p y q) = (st', ok) ->
  exists sg', exec_s sg (SSwap x p y q) = (sg', ok) /\ StInv st' /\ Sim st' sg'.
Proof.
  intros NP NQ h rs sg st' ok I Hrs E. simpl in E.
  assert (I0 : Inv h (handles_list rs ++ [])) by (rewrite app_nil_r; auto).
  assert (KEEPST : forall hh, Step h (handles_list rs) [] hh (handles_list rs) ->
                   (forall w t, incl (handles w) (handles_list rs ++ []) -> repr h w t -> repr hh w t) ->
                   StInv (mkst hh rs) /\ Sim (mkst hh rs) sg).
  { intros hh S K. split.
    - unfold StInv. simpl. pose proof (st_inv _ _ _ _ _ S) as I1. rewrite app_nil_r in I1. auto.
    - unfold Sim. simpl. apply repr_list_as_inst. apply K.
      rewrite handles_inst. apply incl_appl, incl_refl. apply repr_list_as_inst; auto. }
  assert (SPEC : exec_s sg (SSwap x p y q) =
                 match (match nth_error sg x with Some v => v_get v p | None => None end),
                       (match nth_error sg y with Some v => v_get v q | None => None end) with
                 | Some a, Some b => let (st1, ok1) := assign_to sg false x p b in
                                     if ok1 then assign_to st1 false y q a else (st1, false)
                 | _, _ => (sg, false)
                 end) by reflexivity.
  rewrite SPEC. clear SPEC.
  destruct (nth_error rs x) as [vx|] eqn:Ex.
  2: { inversion E; subst. rewrite (repr_list_nth_none _ _ _ _ Hrs Ex). eexists; split; [reflexivity|]. split; auto. }
  destruct (repr_list_nth _ _ _ _ _ Hrs Ex) as [tx [Htx Hvx]]. rewrite Htx.
  assert (Ivx : incl (handles vx) (handles_list rs ++ handles_heap h)) by (apply incl_appl; eapply handles_list_nth; eauto).
  destruct (nth_error rs y) as [vy|] eqn:Ey.
  2: { rewrite (repr_list_nth_none _ _ _ _ Hrs Ey).
       destruct (m_read h vx p) as [h1 [a|]] eqn:ER.
       - destruct (m_read_ok h vx tx p (handles_list rs) [] h1 (Some a) I0 Ivx Hvx ER) as [[ta [Hg [Ha S1]]] K1].
         rewrite Hg. inversion E; subst; clear E.
         assert (I1 : Inv h1 ((handles a ++ handles_list rs) ++ [])) by apply S1.
         destruct (drop_val_keep h1 a (handles_list rs) [] I1) as [S2 K2].
         eexists; split; [reflexivity|]. apply KEEPST.
         + eapply Step_trans; eauto.
         + intros w t Iw Hw. apply K2; auto.
       - destruct (m_read_ok h vx tx p (handles_list rs) [] h1 None I0 Ivx Hvx ER) as [[Hg S1] K1].
         rewrite Hg. inversion E; subst; clear E. eexists; split; [reflexivity|]. apply KEEPST; auto. }
  destruct (repr_list_nth _ _ _ _ _ Hrs Ey) as [ty [Hty Hvy]]. rewrite Hty.
  destruct (m_read h vx p) as [h1 [a|]] eqn:ER.
  2: { destruct (m_read_ok h vx tx p (handles_list rs) [] h1 None I0 Ivx Hvx ER) as [[Hg S1] K1].
       rewrite Hg. inversion E; subst; clear E. eexists; split; [reflexivity|]. apply KEEPST; auto. }
  destruct (m_read_ok h vx tx p (handles_list rs) [] h1 (Some a) I0 Ivx Hvx ER) as [[ta [Hg [Ha S1]]] K1].
  rewrite Hg.
  assert (Hrs1 : repr_list h1 rs sg).
  { apply repr_list_as_inst. apply K1. rewrite handles_inst. apply incl_appl, incl_refl. apply repr_list_as_inst; auto. }
  assert (I1 : Inv h1 (handles_list rs ++ handles a)).
  { pose proof (st_inv _ _ _ _ _ S1) as I1. rewrite app_nil_r in I1. eapply Inv_equiv; [|exact I1]. occ_tac. }
  assert (Hvy1 : repr h1 vy ty).
  { destruct (repr_list_nth _ _ _ _ _ Hrs1 Ey) as [t2 [Ht2 Hv2]]. rewrite Hty in Ht2. inversion Ht2; subst. auto. }
  assert (Ivy : incl (handles vy) (handles_list rs ++ handles_heap h1)) by (apply incl_appl; eapply handles_list_nth; eauto).
  destruct (m_read h1 vy q) as [h2 [b|]] eqn:ER2.
  2: { destruct (m_read_ok h1 vy ty q (handles_list rs) (handles a) h2 None I1 Ivy Hvy1 ER2) as [[Hg2 S2] K2].
       rewrite Hg2. inversion E; subst; clear E.
       assert (I2 : Inv h2 ((handles a ++ handles_list rs) ++ [])).
       { rewrite app_nil_r. eapply Inv_equiv; [|apply S2]. occ_tac. }
       destruct (drop_val_keep h2 a (handles_list rs) [] I2) as [S3 K3].
       eexists; split; [reflexivity|]. split.
       - unfold StInv. simpl. pose proof (st_inv _ _ _ _ _ S3) as I3. rewrite app_nil_r in I3. auto.
       - unfold Sim. simpl. apply repr_list_as_inst. apply K3. rewrite handles_inst. apply incl_appl, incl_refl.
         apply K2. rewrite handles_inst. apply incl_appl, incl_refl. apply repr_list_as_inst; auto. }
  destruct (m_read_ok h1 vy ty q (handles_list rs) (handles a) h2 (Some b) I1 Ivy Hvy1 ER2) as [[tb [Hg2 [Hb S2]]] K2].
  rewrite Hg2.
  assert (Hrs2 : repr_list h2 rs sg).
  { apply repr_list_as_inst. apply K2. rewrite handles_inst. apply incl_appl, incl_refl. apply repr_list_as_inst; auto. }
  assert (Ha2 : repr h2 a ta) by (apply K2; auto; apply incl_appr, incl_refl).
  assert (I2 : Inv h2 ((handles b ++ handles_list rs) ++ handles a)) by apply S2.
  destruct (m_assign_to (mkst h2 rs) false x p b) as [st1 ok1] eqn:EA1.
  destruct (m_assign_to_ok_g h2 rs sg false x p b tb st1 ok1 (handles a) NP I2 Hrs2 Hb EA1) as [sg1 [Ev1 [I3 [Hs1 K3]]]].
  rewrite Ev1.
  assert (Ha3 : repr (mheap st1) a ta) by (apply K3; auto; apply incl_refl).
  destruct st1 as [h3 rs3]. simpl in *.
  destruct ok1.
  - assert (I3' : Inv h3 ((handles a ++ handles_list rs3) ++ [])).
    { rewrite app_nil_r. eapply Inv_equiv; [|exact I3]. occ_tac. }
    destruct (m_assign_to_ok_g h3 rs3 sg1 false y q a ta st' ok [] NQ I3' Hs1 Ha3 E) as [sg2 [Ev2 [I4 [Hs2 _]]]].
    exists sg2. split; auto. split; auto. unfold StInv. rewrite app_nil_r in I4. auto.
  - inversion E; subst; clear E.
    assert (I3' : Inv h3 ((handles a ++ handles_list rs3) ++ [])).
    { rewrite app_nil_r. eapply Inv_equiv; [|exact I3]. occ_tac. }
    destruct (drop_val_keep h3 a (handles_list rs3) [] I3') as [S4 K4].
    eexists; split; [reflexivity|]. split.
    + unfold StInv. simpl. pose proof (st_inv _ _ _ _ _ S4) as I5. rewrite app_nil_r in I5. auto.
    + unfold Sim in *. simpl in *. apply repr_list_as_inst. apply K4.
      * rewrite handles_inst, app_nil_r. apply incl_refl.
      * apply repr_list_as_inst. auto.
Qed.

(* ------------------------------------------------------------------ op-assign whose right-hand side mutates: x[p] f= [pop y[..]] *)
Lemma keep_roots G h rs sg hh :
  repr_list h rs sg -> Step h (handles_list rs) G hh (handles_list rs) ->
  (forall w t, incl (handles w) (handles_list rs ++ G) -> repr h w t -> repr hh w t) ->
  Inv hh (handles_list rs ++ G) /\ repr_list hh rs sg /\ (forall u t, incl (handles u) G -> repr h u t -> repr hh u t).
Proof.
  intros Hrs S K. split; [apply S|]. split.
  - apply repr_list_as_inst. apply K. rewrite handles_inst. apply incl_appl, incl_refl. apply repr_list_as_inst; auto.
  - intros u t Iu Hu. apply K; auto. apply incl_appr. auto.
Qed.

(* ------------------------------------------------------------------ (x[p] = d) f= e : the read with a default *)
Lemma split_last_none {A} (l : list A) : split_last l = None -> l = [].
Proof. destruct l; simpl; auto. destruct (split_last l) as [[? ?]|]; discriminate. Qed.

Lemma m_read_wd_ok h v t p d R F h' r :
  Inv h (R ++ F) -> incl (handles v) R -> repr h v t -> m_read_wd h v p d = (h', r) ->
  match r with
  | Some e => exists te, v_get_wd t p d = Some te /\ repr h' e te /\ Step h R F h' (handles e ++ R)
  | None => v_get_wd t p d = None /\ Step h R F h' R
  end /\ (forall w tt, incl (handles w) (R ++ F) -> repr h w tt -> repr h' w tt).
Proof.
  intros I Iv Hr E. unfold m_read_wd in E. unfold v_get_wd.
  assert (Iv' : forall hh, incl (handles v) (R ++ handles_heap hh)) by (intro; apply incl_appl; auto).
  destruct (split_last p) as [[pre last]|] eqn:SL.
  2: { apply split_last_none in SL. subst p.
       destruct (m_read_ok h v t [] R F h' r I (Iv' h) Hr E) as [A K]. split; auto. }
  destruct (m_read h v pre) as [h1 [c|]] eqn:E1.
  2: { destruct (m_read_ok h v t pre R F h1 None I (Iv' h) Hr E1) as [[Hg S1] K1]. inversion E; subst. rewrite Hg.
       split; [split; auto | exact K1]. }
  destruct (m_read_ok h v t pre R F h1 (Some c) I (Iv' h) Hr E1) as [[tc [Hg [Hc S1]]] K1]. rewrite Hg.
  assert (I1 : Inv h1 ((handles c ++ R) ++ F)) by apply S1.
  destruct (drop_val_keep h1 c R F I1) as [S2 K2].
  cbv zeta in E. remember (drop_val h1 c) as h2 eqn:Eh2. clear Eh2.
  assert (S12 : Step h R F h2 R) by (eapply Step_trans; eauto).
  assert (K12 : forall w tt, incl (handles w) (R ++ F) -> repr h w tt -> repr h2 w tt) by (intros; apply K2; auto).
  assert (I2 : Inv h2 (R ++ F)) by apply S2.
  assert (Hr2 : repr h2 v t) by (apply K12; auto; apply incl_appl; auto).
  assert (FAIL : forall o, o = None -> (h2, @None hval) = (h', r) ->
          match r with
          | Some e => exists te, o = Some te /\ repr h' e te /\ Step h R F h' (handles e ++ R)
          | None => o = None /\ Step h R F h' R
          end /\ (forall w tt, incl (handles w) (R ++ F) -> repr h w tt -> repr h' w tt)).
  { intros o Eo E2. inversion E2; subst h' r. split; [split; auto | exact K12]. }
  destruct c as [|z|l dd|sid fs].
  - inversion Hc; subst. apply FAIL; auto.
  - inversion Hc; subst. apply FAIL; auto.
  - destruct (repr_ref_inv_gen _ _ _ _ Hc) as [cl [its [dv [Et [Hcl [Hits Hd]]]]]]. subst tc.
    destruct dd as [dd|]; inversion Hd; subst.
    { apply FAIL; auto. destruct (ckind cl); reflexivity. }
    rewrite Hcl in E.
    destruct (ckind cl) eqn:KC; try (apply FAIL; auto; fail).
    destruct (key_of_pelem last) as [k|]; [|apply FAIL; auto].
    rewrite (repr_items_find_key _ _ _ k Hits) in E.
    destruct (find_key k its) as [n|].
    + destruct (m_read_ok h2 v t p R F h' r I2 (Iv' h2) Hr2 E) as [A K3]. split.
      * destruct r as [e|].
        -- destruct A as [te [G1 [G2 S3]]]. exists te. split; auto. split; auto. eapply Step_trans; eauto.
        -- destruct A as [G1 S3]. split; auto. eapply Step_trans; eauto.
      * intros w tt Iw Hw. apply K3; auto.
    + destruct (alloc_val h2 d) as [h3 rv] eqn:EA. inversion E; subst h' r.
      destruct (alloc_val_ok d h2 R F h3 rv I2 EA) as [Hrv [S3 B3]]. split.
      * exists d. split; auto. split; auto. eapply Step_trans; eauto.
      * intros w tt Iw Hw. eapply repr_ext; [exact B3|]. apply K12; auto.
  - inversion Hc; subst. apply FAIL; auto.
Qed.

Opaque alloc.
Lemma exec_opdef_g x p d f e : noslice p = true -> bfrag f = true -> efrag e = true ->
  forall h rs sg st' ok G,
  Inv h (handles_list rs ++ G) -> repr_list h rs sg ->
  m_exec_s (mkst h rs) (SOpDef x p d f e) = (st', ok) ->
  exists sg', exec_s sg (SOpDef x p d f e) = (sg', ok) /\
    Inv (mheap st') (handles_list (roots st') ++ G) /\ Sim st' sg' /\
    (forall u t, incl (handles u) G -> repr h u t -> repr (mheap st') u t).
Proof.
  intros NS BF FE h rs sg st' ok G I Hrs E. simpl in E. simpl.
  destruct (nth_error rs x) as [cur|] eqn:Ex.
  2: { inversion E; subst. rewrite (repr_list_nth_none _ _ _ _ Hrs Ex). eexists; split; [reflexivity|].
       split; [exact I|]. split; [exact Hrs|]. auto. }
  destruct (repr_list_nth _ _ _ _ _ Hrs Ex) as [tcur [Htc Hcur]]. rewrite Htc.
  assert (Icur : incl (handles cur) (handles_list rs)) by (eapply handles_list_nth; eauto).
  destruct (m_read_wd h cur p d) as [h1 [old|]] eqn:ER.
  2: { destruct (m_read_wd_ok h cur tcur p d (handles_list rs) G h1 None I Icur Hcur ER) as [[Hg S1] K1].
       inversion E; subst. rewrite Hg. eexists; split; [reflexivity|]. apply keep_roots; auto. }
  destruct (m_read_wd_ok h cur tcur p d (handles_list rs) G h1 (Some old) I Icur Hcur ER) as [[told [Hg [Hold S1]]] K1].
  rewrite Hg.
  assert (Hrs1 : repr_list h1 rs sg).
  { apply repr_list_as_inst. apply K1. rewrite handles_inst. apply incl_appl, incl_refl. apply repr_list_as_inst; auto. }
  assert (K1G : forall u t, incl (handles u) G -> repr h u t -> repr h1 u t).
  { intros u t Iu Hu. apply K1; auto. apply incl_appr; auto. }
  assert (I1 : Inv h1 (handles_list rs ++ handles old ++ G)).
  { eapply Inv_equiv; [|apply S1]. occ_tac. }
  destruct (m_eval rs h1 e) as [h2 [w|]] eqn:EE.
  2: { destruct (m_eval_ok e FE rs h1 (handles old ++ G) sg h2 None I1 Hrs1 EE) as [[Ev S2] K2].
       rewrite Ev. inversion E; subst; clear E.
       assert (I2 : Inv h2 ((handles old ++ handles_list rs) ++ G)).
       { eapply Inv_equiv; [|apply S2]. occ_tac. }
       destruct (drop_val_keep h2 old (handles_list rs) G I2) as [S3 K3].
       eexists; split; [reflexivity|]. simpl. split; [apply S3|]. split.
       - unfold Sim. simpl. apply repr_list_as_inst. apply K3. rewrite handles_inst. apply incl_appl, incl_refl.
         apply K2. rewrite handles_inst. apply incl_appl, incl_refl. apply repr_list_as_inst; auto.
       - intros u t Iu Hu. apply K3. apply incl_appr; auto. apply K2. apply incl_appr, incl_appr; auto. apply K1G; auto. }
  destruct (m_eval_ok e FE rs h1 (handles old ++ G) sg h2 (Some w) I1 Hrs1 EE) as [[tw [Ev [Hw S2]]] K2].
  rewrite Ev.
  assert (Hrs2 : repr_list h2 rs sg).
  { apply repr_list_as_inst. apply K2. rewrite handles_inst. apply incl_appl, incl_refl. apply repr_list_as_inst; auto. }
  assert (Hold2 : repr h2 old told) by (apply K2; auto; apply incl_appr, incl_appl, incl_refl).
  assert (K2G : forall u t, incl (handles u) G -> repr h1 u t -> repr h2 u t).
  { intros u t Iu Hu. apply K2; auto. apply incl_appr, incl_appr; auto. }
  destruct (m_opassign p f h2 cur old w) as [[h3 cur'] ok1] eqn:EO. inversion E; subst; clear E.
  assert (I2 : Inv h2 ((handles cur ++ handles old ++ handles w) ++ handles_list (set_root rs x HNull) ++ G)).
  { eapply Inv_equiv; [|apply S2]. intro l. pose proof (roots_split x rs cur Ex l). revert H. occ_tac. }
  assert (Hcur2 : repr h2 cur tcur).
  { destruct (repr_list_nth _ _ _ _ _ Hrs2 Ex) as [tc2 [Htc2 Hc2]]. rewrite Htc in Htc2. inversion Htc2; subst. auto. }
  destruct (m_opassign_old_ok p f NS BF h2 cur tcur old told w tw _ h3 cur' ok I2 Hcur2 Hold2 Hw EO) as [t' [Ev2 [Hr' S3]]].
  rewrite Ev2. eexists; split; [reflexivity|].
  assert (S3' : Step h2 (handles cur ++ handles old ++ handles w) (handles_list (set_root rs x HNull) ++ G) h3 ([] ++ handles cur')) by exact S3.
  destruct (root_update_g h2 rs sg x cur h3 cur' t' _ [] G Ex Hrs2 S3' Hr') as [I3 [Hrs3 K3]].
  simpl. split; [exact I3|]. split; [exact Hrs3|]. intros u t Iu Hu. apply K3; auto.
Qed.
Transparent alloc.

Lemma incl_app_mid' (a b g : list loc) : incl (a ++ g) (a ++ b ++ g).
Proof. intros x Hx. apply in_app_or in Hx. apply in_or_app. destruct Hx; [left; auto | right; apply in_or_app; right; auto]. Qed.

Opaque alloc.
Lemma exec_opmod_g x p f wrap y m : noslice p = true -> bfrag f = true -> is_modlop m = true ->
  forall h rs sg st' ok G,
  Inv h (handles_list rs ++ G) -> repr_list h rs sg ->
  m_exec_s (mkst h rs) (SOpMod x p f wrap y m) = (st', ok) ->
  exists sg', exec_s sg (SOpMod x p f wrap y m) = (sg', ok) /\
    Inv (mheap st') (handles_list (roots st') ++ G) /\ Sim st' sg' /\
    (forall u t, incl (handles u) G -> repr h u t -> repr (mheap st') u t).
Proof.
  intros NS BF HM h rs sg st' ok G I Hrs E. simpl in E. simpl.
  destruct (nth_error rs x) as [cur|] eqn:Ex.
  2: { inversion E; subst. rewrite (repr_list_nth_none _ _ _ _ Hrs Ex). eexists; split; [reflexivity|].
       split; [exact I|]. split; [exact Hrs|]. auto. }
  destruct (repr_list_nth _ _ _ _ _ Hrs Ex) as [tcur [Htc Hcur]]. rewrite Htc.
  assert (Icur : incl (handles cur) (handles_list rs ++ handles_heap h)) by (apply incl_appl; eapply handles_list_nth; eauto).
  destruct (m_read h cur p) as [h1 [old|]] eqn:ER.
  2: { destruct (m_read_ok h cur tcur p (handles_list rs) G h1 None I Icur Hcur ER) as [[Hg S1] K1].
       inversion E; subst. rewrite Hg. eexists; split; [reflexivity|]. apply keep_roots; auto. }
  destruct (m_read_ok h cur tcur p (handles_list rs) G h1 (Some old) I Icur Hcur ER) as [[told [Hg [Hold S1]]] K1].
  rewrite Hg.
  assert (Hrs1 : repr_list h1 rs sg).
  { apply repr_list_as_inst. apply K1. rewrite handles_inst. apply incl_appl, incl_refl. apply repr_list_as_inst; auto. }
  assert (K1G : forall u t, incl (handles u) G -> repr h u t -> repr h1 u t).
  { intros u t Iu Hu. apply K1; auto. apply incl_appr; auto. }
  assert (I1 : Inv h1 ((handles old ++ handles_list rs) ++ G)) by apply S1.
  (* dropping the value read, when the right-hand side fails *)
  assert (DROPOLD : forall hh rr ss, Inv hh ((handles old ++ handles_list rr) ++ G) -> repr_list hh rr ss ->
            (forall u t, incl (handles u) G -> repr h u t -> repr hh u t) ->
            Inv (drop_val hh old) (handles_list rr ++ G) /\ Sim (mkst (drop_val hh old) rr) ss /\
            (forall u t, incl (handles u) G -> repr h u t -> repr (drop_val hh old) u t)).
  { intros hh rr ss Ih Hh Kh. destruct (drop_val_keep hh old (handles_list rr) G Ih) as [S K].
    split; [apply S|]. split.
    - unfold Sim. simpl. apply repr_list_as_inst. apply K. rewrite handles_inst. apply incl_appl, incl_refl.
      apply repr_list_as_inst; auto.
    - intros u t Iu Hu. apply K. apply incl_appr; auto. apply Kh; auto. }
  destruct (nth_error rs y) as [cy|] eqn:Ey.
  2: { inversion E; subst. rewrite (repr_list_nth_none _ _ _ _ Hrs Ey). eexists; split; [reflexivity|].
       simpl. apply DROPOLD; auto. }
  destruct (repr_list_nth _ _ _ _ _ Hrs Ey) as [tcy [Htcy Hcy0]]. rewrite Htcy.
  assert (Hcy : repr h1 cy tcy).
  { destruct (repr_list_nth _ _ _ _ _ Hrs1 Ey) as [t2 [Ht2 Hv2]]. rewrite Htcy in Ht2. inversion Ht2; subst. auto. }
  destruct (m_lop m h1 cy) as [[h2 cy'] r] eqn:EL.
  assert (I1y : Inv h1 (handles cy ++ handles_list (set_root rs y HNull) ++ handles old ++ G)).
  { eapply Inv_equiv; [|exact I1]. intro l. pose proof (roots_split y rs cy Ey l). revert H. occ_tac. }
  pose proof (m_lop_mod_ok m HM h1 cy tcy _ h2 cy' r I1y Hcy EL) as [Hcy' Hres].
  destruct (lop_apply m tcy) as [tcy' tr] eqn:EV. simpl in Hcy', Hres.
  set (rs1 := set_root rs y cy') in *. set (sg1 := set_var sg y tcy') in *.
  destruct r as [res|]; destruct tr as [tres|]; try contradiction.
  2: { inversion E; subst; clear E. unfold rs1, sg1 in *.
       assert (S' : Step h1 (handles cy) (handles_list (set_root rs y HNull) ++ handles old ++ G) h2 ([] ++ handles cy')) by exact Hres.
       destruct (root_update_g h1 rs sg y cy h2 cy' tcy' _ [] (handles old ++ G) Ey Hrs1 S' Hcy') as [I2 [Hrs2 K2]].
       eexists; split; [reflexivity|]. simpl. apply DROPOLD.
       - eapply Inv_equiv; [|exact I2]. occ_tac.
       - exact Hrs2.
       - intros u t Iu Hu. apply K2. apply incl_appr; auto. apply K1G; auto. }
  destruct Hres as [Hrres S2].
  destruct (root_update_g h1 rs sg y cy h2 cy' tcy' _ (handles res) (handles old ++ G) Ey Hrs1 S2 Hcy') as [I2 [Hrs2 K2]].
  fold rs1 in I2, Hrs2. fold sg1 in Hrs2.
  assert (Hold2 : repr h2 old told) by (apply K2; auto; apply incl_appl, incl_refl).
  assert (K2G : forall u t, incl (handles u) G -> repr h u t -> repr h2 u t).
  { intros u t Iu Hu. apply K2. apply incl_appr; auto. apply K1G; auto. }
  (* the operand: res, or [res] *)
  assert (WRAP : exists h3 w tw, (if wrap then let '(hh, l) := alloc h2 KList [(nokey, res)] in (hh, HRef l None) else (h2, res)) = (h3, w) /\
                 tw = (if wrap then VList [tres] else tres) /\ repr h3 w tw /\
                 Inv h3 ((handles w ++ handles_list rs1) ++ handles old ++ G) /\
                 (forall u t, repr h2 u t -> repr h3 u t)).
  { destruct wrap.
    - destruct (alloc h2 KList [(nokey, res)]) as [hh l] eqn:EA. exists hh, (HRef l None), (VList [tres]).
      split; auto. split; auto.
      assert (Ia : Inv h2 ((handles_items [(nokey, res)] ++ handles_list rs1) ++ handles old ++ G)).
      { rewrite handles_items_single. exact I2. }
      destruct (alloc_step' h2 (handles_list rs1) (handles old ++ G) KList [(nokey, res)] hh l EA Ia) as [Sa Ba].
      split; [|split].
      + unfold VList. simpl. eapply alloc_repr; eauto. constructor; auto. constructor.
      + rewrite handles_ref. simpl. apply Sa.
      + intros u t Hu. eapply repr_ext; eauto.
    - exists h2, res, tres. split; auto. }
  destruct WRAP as [h3 [w [tw [EW [Etw [Hw [I3 K3]]]]]]]. rewrite EW in E.
  assert (Hrs3 : repr_list h3 rs1 sg1) by (apply repr_list_as_inst; apply K3; apply repr_list_as_inst; auto).
  assert (Hold3 : repr h3 old told) by (apply K3; auto).
  destruct (nth_error rs1 x) as [cur1|] eqn:Ex1.
  2: { inversion E; subst; clear E. rewrite (repr_list_nth_none _ _ _ _ Hrs3 Ex1).
       assert (I3' : Inv h3 ((handles old ++ handles w) ++ handles_list rs1 ++ G)) by (eapply Inv_equiv; [|exact I3]; occ_tac).
       pose proof (drop2_ok h3 old w _ I3') as S4.
       eexists; split; [reflexivity|]. simpl. split; [apply S4|]. split.
       - unfold Sim. simpl. apply repr_list_as_inst. eapply (st_frame _ _ _ _ _ S4).
         rewrite handles_inst. apply incl_appl, incl_refl. apply repr_list_as_inst. auto.
       - intros u t Iu Hu. eapply (st_frame _ _ _ _ _ S4). apply incl_appr; auto. apply K3. apply K2G; auto. }
  destruct (repr_list_nth _ _ _ _ _ Hrs3 Ex1) as [t1 [Ht1 Hcur1]]. rewrite Ht1.
  destruct (m_opassign p f h3 cur1 old w) as [[h4 cur'] ok1] eqn:EO. inversion E; subst; clear E.
  assert (I3x : Inv h3 ((handles cur1 ++ handles old ++ handles w) ++ handles_list (set_root rs1 x HNull) ++ G)).
  { eapply Inv_equiv; [|exact I3]. intro l. pose proof (roots_split x rs1 cur1 Ex1 l). revert H. occ_tac. }
  destruct (m_opassign_old_ok p f NS BF h3 cur1 t1 old told w _ _ h4 cur' ok I3x Hcur1 Hold3 Hw EO) as [t' [Ev [Hr' S4]]].
  rewrite Ev. eexists; split; [reflexivity|].
  assert (S4' : Step h3 (handles cur1 ++ handles old ++ handles w) (handles_list (set_root rs1 x HNull) ++ G) h4 ([] ++ handles cur')) by exact S4.
  destruct (root_update_g h3 rs1 sg1 x cur1 h4 cur' t' _ [] G Ex1 Hrs3 S4' Hr') as [I4 [Hrs4 K4]].
  simpl. split; [exact I4|]. split; [exact Hrs4|]. intros u t Iu Hu. apply K4; [exact Iu|]. apply K3. apply K2G; auto.
Qed.
Transparent alloc.

(* ------------------------------------------------------------------ (x[p] and y[q] ..) f= e *)
Lemma handles_list_cons v vs : handles_list (v :: vs) = handles v ++ handles_list vs.
Proof. reflexivity. Qed.

Lemma handles_list_app_l a b : handles_list (a ++ b) = handles_list a ++ handles_list b.
Proof. unfold handles_list. apply flat_map_app. Qed.

Lemma drop_vals_keep vs : forall h R F, Inv h ((handles_list vs ++ R) ++ F) ->
  Step h (handles_list vs ++ R) F (drop_vals h vs) R /\
  (forall w t, incl (handles w) (R ++ F) -> repr h w t -> repr (drop_vals h vs) w t).
Proof.
  induction vs as [|v tl IH]; intros h R F I; simpl.
  - split; [apply Step_refl; auto | auto].
  - rewrite handles_list_cons in I.
    assert (I0 : Inv h ((handles v ++ handles_list tl ++ R) ++ F)) by (eapply Inv_equiv; [|exact I]; occ_tac).
    destruct (drop_val_keep h v (handles_list tl ++ R) F I0) as [S1 K1].
    destruct (IH (drop_val h v) R F (st_inv _ _ _ _ _ S1)) as [S2 K2].
    split.
    + eapply Step_trans; [|exact S2]. eapply Step_equiv; [| |exact S1]. apply in_occ_equiv; occ_tac. intro; reflexivity.
    + intros w t Iw Hw. apply K2; auto. apply K1; auto.
      intros y Hy. apply Iw in Hy. apply in_app_or in Hy. apply in_or_app. destruct Hy; [left; apply in_or_app; right; auto | right; auto].
Qed.

Lemma map_snd_combine {A B} (l1 : list A) : forall (l2 : list B), length l2 = length l1 -> map snd (combine l1 l2) = l2.
Proof. induction l1; destruct l2; simpl; intros; try discriminate; auto. f_equal. apply IHl1. lia. Qed.

Lemma repr_list_length' h es ts : repr_list h es ts -> length es = length ts.
Proof. induction 1; simpl; auto. Qed.

Lemma m_read_all_ok ts : forall rs sg h G h' r,
  Inv h (handles_list rs ++ G) -> repr_list h rs sg -> m_read_all rs h ts = (h', r) ->
  match r with
  | Some olds => exists tolds, read_all sg ts = Some tolds /\ repr_list h' olds tolds /\ length olds = length ts /\
                               Step h (handles_list rs) G h' (handles_list olds ++ handles_list rs)
  | None => read_all sg ts = None /\ Step h (handles_list rs) G h' (handles_list rs)
  end /\ (forall w tt, incl (handles w) (handles_list rs ++ G) -> repr h w tt -> repr h' w tt).
Proof.
  induction ts as [|[x p] tl IH]; intros rs sg h G h' r I Hrs E; simpl in E; simpl.
  - inversion E; subst. split; [|auto]. exists []. split; auto. split; [constructor|]. split; auto. simpl. apply Step_refl; auto.
  - destruct (nth_error rs x) as [cur|] eqn:Ex.
    2: { inversion E; subst. rewrite (repr_list_nth_none _ _ _ _ Hrs Ex). split; [|auto]. split; auto. apply Step_refl; auto. }
    destruct (repr_list_nth _ _ _ _ _ Hrs Ex) as [tcur [Htc Hcur]]. rewrite Htc.
    assert (Icur : incl (handles cur) (handles_list rs ++ handles_heap h)) by (apply incl_appl; eapply handles_list_nth; eauto).
    destruct (m_read h cur p) as [h1 [old|]] eqn:ER.
    2: { destruct (m_read_ok h cur tcur p (handles_list rs) G h1 None I Icur Hcur ER) as [[Hg S1] K1].
         inversion E; subst. rewrite Hg. split; auto. }
    destruct (m_read_ok h cur tcur p (handles_list rs) G h1 (Some old) I Icur Hcur ER) as [[told [Hg [Hold S1]]] K1].
    rewrite Hg.
    assert (Hrs1 : repr_list h1 rs sg).
    { apply repr_list_as_inst. apply K1. rewrite handles_inst. apply incl_appl, incl_refl. apply repr_list_as_inst; auto. }
    assert (I1 : Inv h1 (handles_list rs ++ handles old ++ G)).
    { eapply Inv_equiv; [|apply S1]. occ_tac. }
    destruct (m_read_all rs h1 tl) as [h2 r2] eqn:ER2.
    destruct (IH rs sg h1 (handles old ++ G) h2 r2 I1 Hrs1 ER2) as [A K2].
    assert (K12 : forall w tt, incl (handles w) (handles_list rs ++ G) -> repr h w tt -> repr h2 w tt).
    { intros w tt Iw Hw. apply K2. eapply incl_tran; [exact Iw | apply incl_app_mid']. apply K1; auto. }
    destruct r2 as [olds|].
    + destruct A as [tolds [Hra [Holds [Hlen S2]]]]. inversion E; subst. rewrite Hra. split; [|exact K12].
      exists (told :: tolds). split; auto. split.
      * constructor; auto. apply K2; auto. apply incl_appr, incl_appl, incl_refl.
      * split; [simpl; lia|].
        apply Step_frame in S2.
        eapply Step_trans; [eapply Step_equiv; [| |exact S1]|]. intro; reflexivity. intro; reflexivity.
        eapply Step_equiv; [| |exact S2]. apply in_occ_equiv; occ_tac. rewrite handles_list_cons. occ_tac.
    + destruct A as [Hra S2]. inversion E; subst. rewrite Hra.
      apply Step_frame in S2.
      assert (I2 : Inv h2 ((handles old ++ handles_list rs) ++ G)).
      { eapply Inv_equiv; [|apply S2]. occ_tac. }
      destruct (drop_val_keep h2 old (handles_list rs) G I2) as [S3 K3].
      split.
      * split; auto. eapply Step_trans; [exact S1|]. eapply Step_trans; [|exact S3].
        eapply Step_equiv; [| |exact S2]. apply in_occ_equiv; occ_tac. occ_tac.
      * intros w tt Iw Hw. apply K3; auto.
Qed.

Opaque alloc.
Lemma m_and_loop_ok f : bfrag f = true -> forall ts olds tolds,
  (forall x p, In (x, p) ts -> noslice p = true) ->
  forall w tw h rs sg G st' ok,
  Inv h ((handles w ++ handles_list olds) ++ handles_list rs ++ G) ->
  repr h w tw -> repr_list h olds tolds -> length olds = length ts -> repr_list h rs sg ->
  m_and_loop f w h rs (combine ts olds) = (st', ok) ->
  exists sg', and_loop f tw sg (combine ts tolds) = (sg', ok) /\
    Inv (mheap st') (handles_list (roots st') ++ G) /\ Sim st' sg' /\
    (forall u t, incl (handles u) G -> repr h u t -> repr (mheap st') u t).
Proof.
  intro BF. induction ts as [|[x p] ts' IH]; intros olds tolds NS w tw h rs sg G st' ok I Hw Holds Hlen Hrs E.
  - destruct olds; [|discriminate]. inversion Holds; subst. simpl in E. inversion E; subst; clear E. simpl.
    assert (I0 : Inv h ((handles w ++ handles_list rs) ++ G)) by (eapply Inv_equiv; [|exact I]; simpl; occ_tac).
    destruct (drop_val_keep h w (handles_list rs) G I0) as [S K].
    exists sg. split; auto. split; [apply S|]. split.
    + unfold Sim. simpl. apply repr_list_as_inst. apply K. rewrite handles_inst. apply incl_appl, incl_refl.
      apply repr_list_as_inst; auto.
    + intros u t Iu Hu. apply K; auto. apply incl_appr; auto.
  - destruct olds as [|old olds']; [discriminate|]. inversion Holds as [|? told ? tolds' Hold Holds']; subst.
    simpl in Hlen. assert (Hlen' : length olds' = length ts') by lia.
    assert (NS' : forall x0 p0, In (x0, p0) ts' -> noslice p0 = true) by (intros; eapply NS; right; eauto).
    assert (NSp : noslice p = true) by (eapply NS; left; eauto).
    assert (MS : map snd (combine ts' olds') = olds') by (apply map_snd_combine; auto).
    simpl combine in E. simpl combine. simpl in E. simpl.
    rewrite MS in E. rewrite handles_list_cons in I.
    (* releasing everything that is still pending *)
    assert (DROPALL : forall hh vs rr ss, Inv hh ((handles_list vs ++ handles_list rr) ++ G) -> repr_list hh rr ss ->
              (forall u t, incl (handles u) G -> repr h u t -> repr hh u t) ->
              Inv (drop_vals hh vs) (handles_list rr ++ G) /\ Sim (mkst (drop_vals hh vs) rr) ss /\
              (forall u t, incl (handles u) G -> repr h u t -> repr (drop_vals hh vs) u t)).
    { intros hh vs rr ss Ih Hh Kh. destruct (drop_vals_keep vs hh (handles_list rr) G Ih) as [S K].
      split; [apply S|]. split.
      - unfold Sim. simpl. apply repr_list_as_inst. apply K. rewrite handles_inst. apply incl_appl, incl_refl.
        apply repr_list_as_inst; auto.
      - intros u t Iu Hu. apply K. apply incl_appr; auto. apply Kh; auto. }
    destruct (nth_error rs x) as [cur|] eqn:Ex.
    2: { inversion E; subst; clear E. rewrite (repr_list_nth_none _ _ _ _ Hrs Ex).
         exists sg. split; auto.
         change (drop_vals (drop_val (drop_val h w) old) olds') with (drop_vals h (w :: old :: olds')).
         apply DROPALL; auto. rewrite !handles_list_cons. eapply Inv_equiv; [|exact I]. occ_tac. }
    destruct (repr_list_nth _ _ _ _ _ Hrs Ex) as [tcur [Htc Hcur]]. rewrite Htc.
    (* one target: the operator gets old and (a handle to) w; wl is what stays pending of w *)
    assert (STEP : forall wl h0, Inv h0 ((handles cur ++ handles old ++ handles w) ++ handles_list (set_root rs x HNull) ++ (handles_list wl ++ handles_list olds' ++ G)) ->
              (forall u t, repr h u t -> repr h0 u t) ->
              forall h1 cur' ok1, m_opassign p f h0 cur old w = (h1, cur', ok1) ->
              exists t', v_opassign_old p f told tw tcur = (t', ok1) /\
                Inv h1 (handles_list (set_root rs x cur') ++ handles_list wl ++ handles_list olds' ++ G) /\
                repr_list h1 (set_root rs x cur') (set_var sg x t') /\
                (forall u t, incl (handles u) (handles_list wl ++ handles_list olds' ++ G) -> repr h u t -> repr h1 u t)).
    { intros wl h0 I0 K0 h1 cur' ok1 EO.
      destruct (m_opassign_old_ok p f NSp BF h0 cur tcur old told w tw _ h1 cur' ok1 I0 (K0 _ _ Hcur) (K0 _ _ Hold) (K0 _ _ Hw) EO)
        as [t' [Ev [Hr' S1]]].
      exists t'. split; auto.
      assert (Hrs0 : repr_list h0 rs sg) by (apply repr_list_as_inst; apply K0; apply repr_list_as_inst; auto).
      assert (S1' : Step h0 (handles cur ++ handles old ++ handles w) (handles_list (set_root rs x HNull) ++ (handles_list wl ++ handles_list olds' ++ G)) h1 ([] ++ handles cur')) by exact S1.
      destruct (root_update_g h0 rs sg x cur h1 cur' t' _ [] _ Ex Hrs0 S1' Hr') as [I1 [Hrs1 K1]].
      split; [exact I1|]. split; [exact Hrs1|]. intros u t Iu Hu. apply K1; auto. }
    destruct ts' as [|t2 ts''].
    + (* last target: w itself is handed over *)
      destruct olds' as [|? ?]; [|discriminate]. inversion Holds'; subst. simpl in E. simpl.
      destruct (m_opassign p f h cur old w) as [[h1 cur'] ok1] eqn:EO.
      assert (I0 : Inv h ((handles cur ++ handles old ++ handles w) ++ handles_list (set_root rs x HNull) ++ (handles_list [] ++ handles_list [] ++ G))).
      { eapply Inv_equiv; [|exact I]. intro l. pose proof (roots_split x rs cur Ex l). revert H. simpl. occ_tac. }
      destruct (STEP [] h I0 (fun u t H => H) h1 cur' ok1 EO) as [t' [Ev [I1 [Hrs1 K1]]]].
      rewrite Ev. simpl in I1.
      destruct ok1; inversion E; subst; clear E; simpl.
      * exists (set_var sg x t'). split; [reflexivity|]. split; [exact I1|]. split; [exact Hrs1|].
        intros u t Iu Hu. apply K1; auto.
      * exists (set_var sg x t'). split; [reflexivity|]. split; [exact I1|]. split; [exact Hrs1|].
        intros u t Iu Hu. apply K1; auto.
    + (* not the last: the operator gets a clone *)
      destruct olds' as [|o2 olds'']; [discriminate|].
      remember (t2 :: ts'') as ts' eqn:Ets'. remember (o2 :: olds'') as olds' eqn:Eolds'.
      assert (EL : match combine ts' olds' with [] => true | _ :: _ => false end = false) by (subst; reflexivity).
      rewrite EL in E. 
      assert (ELt : exists c tl, combine ts' tolds' = c :: tl).
      { subst ts'. inversion Holds'; subst; try discriminate. simpl. eauto. }
      set (h0 := clone_val h w) in *.
      destruct (m_opassign p f h0 cur old w) as [[h1 cur'] ok1] eqn:EO.
      assert (Ia : Inv h ((handles w ++ handles old ++ handles_list olds' ++ handles_list rs) ++ G)).
      { eapply Inv_equiv; [|exact I]. occ_tac. }
      destruct (clone_val_step h (handles w ++ handles old ++ handles_list olds' ++ handles_list rs) G w Ia) as [Sc [Bc Lc]].
      { apply incl_appl, incl_appl, incl_refl. }
      fold h0 in Sc, Bc.
      assert (I0 : Inv h0 ((handles cur ++ handles old ++ handles w) ++ handles_list (set_root rs x HNull) ++ (handles_list [w] ++ handles_list olds' ++ G))).
      { eapply Inv_equiv; [|apply Sc]. intro l. pose proof (roots_split x rs cur Ex l). revert H. simpl. occ_tac. }
      assert (K0 : forall u t, repr h u t -> repr h0 u t) by (intros; eapply repr_ext; eauto).
      destruct (STEP [w] h0 I0 K0 h1 cur' ok1 EO) as [t' [Ev [I1 [Hrs1 K1]]]].
      rewrite Ev.
      assert (Hw1 : repr h1 w tw) by (apply K1; auto; simpl; apply incl_appl; rewrite app_nil_r; apply incl_refl).
      assert (Holds1 : repr_list h1 olds' tolds').
      { apply repr_list_as_inst. apply K1. rewrite handles_inst. apply incl_appr, incl_appl, incl_refl. apply repr_list_as_inst; auto. }
      destruct ok1.
      * assert (I1' : Inv h1 ((handles w ++ handles_list olds') ++ handles_list (set_root rs x cur') ++ G)).
        { eapply Inv_equiv; [|exact I1]. simpl. occ_tac. }
        destruct (IH olds' tolds' NS' w tw h1 (set_root rs x cur') (set_var sg x t') G st' ok I1' Hw1 Holds1 Hlen' Hrs1 E)
          as [sg' [Ev2 [I2 [Hs2 K2]]]].
        exists sg'. split; [exact Ev2|]. split; [exact I2|]. split; [exact Hs2|].
        intros u t Iu Hu. apply K2; auto. apply K1; auto. apply incl_appr, incl_appr; auto.
      * inversion E; subst; clear E. exists (set_var sg x t'). split; [reflexivity|].
        change (drop_vals (drop_val h1 w) (o2 :: olds'')) with (drop_vals h1 (w :: o2 :: olds'')).
        apply DROPALL; auto.
        -- eapply Inv_equiv; [|exact I1]. rewrite !handles_list_cons. simpl. occ_tac.
        -- intros u t Iu Hu. apply K1; auto. apply incl_appr, incl_appr; auto.
Qed.
Transparent alloc.

Opaque alloc.
Lemma exec_andop_g ts f e : forallb (fun t => noslice (snd t)) ts = true -> bfrag f = true -> efrag e = true ->
  forall h rs sg st' ok G,
  Inv h (handles_list rs ++ G) -> repr_list h rs sg ->
  m_exec_s (mkst h rs) (SAndOp ts f e) = (st', ok) ->
  exists sg', exec_s sg (SAndOp ts f e) = (sg', ok) /\
    Inv (mheap st') (handles_list (roots st') ++ G) /\ Sim st' sg' /\
    (forall u t, incl (handles u) G -> repr h u t -> repr (mheap st') u t).
Proof.
  intros NS BF FE h rs sg st' ok G I Hrs E. simpl in E. simpl.
  assert (NS' : forall x p, In (x, p) ts -> noslice p = true).
  { intros x p Hin. rewrite forallb_forall in NS. apply (NS (x, p) Hin). }
  destruct (m_read_all rs h ts) as [h1 [olds|]] eqn:ER.
  2: { destruct (m_read_all_ok ts rs sg h G h1 None I Hrs ER) as [[Hra S1] K1].
       inversion E; subst. rewrite Hra. eexists; split; [reflexivity|]. apply keep_roots; auto. }
  destruct (m_read_all_ok ts rs sg h G h1 (Some olds) I Hrs ER) as [[tolds [Hra [Holds [Hlen S1]]]] K1].
  rewrite Hra.
  assert (Hrs1 : repr_list h1 rs sg).
  { apply repr_list_as_inst. apply K1. rewrite handles_inst. apply incl_appl, incl_refl. apply repr_list_as_inst; auto. }
  assert (K1G : forall u t, incl (handles u) G -> repr h u t -> repr h1 u t).
  { intros u t Iu Hu. apply K1; auto. apply incl_appr; auto. }
  assert (I1 : Inv h1 (handles_list rs ++ handles_list olds ++ G)).
  { eapply Inv_equiv; [|apply S1]. occ_tac. }
  destruct (m_eval rs h1 e) as [h2 [w|]] eqn:EE.
  2: { destruct (m_eval_ok e FE rs h1 (handles_list olds ++ G) sg h2 None I1 Hrs1 EE) as [[Ev S2] K2].
       rewrite Ev. inversion E; subst; clear E.
       assert (I2 : Inv h2 ((handles_list olds ++ handles_list rs) ++ G)).
       { eapply Inv_equiv; [|apply S2]. occ_tac. }
       destruct (drop_vals_keep olds h2 (handles_list rs) G I2) as [S3 K3].
       eexists; split; [reflexivity|]. simpl. split; [apply S3|]. split.
       - unfold Sim. simpl. apply repr_list_as_inst. apply K3. rewrite handles_inst. apply incl_appl, incl_refl.
         apply K2. rewrite handles_inst. apply incl_appl, incl_refl. apply repr_list_as_inst; auto.
       - intros u t Iu Hu. apply K3. apply incl_appr; auto. apply K2. apply incl_appr, incl_appr; auto. apply K1G; auto. }
  destruct (m_eval_ok e FE rs h1 (handles_list olds ++ G) sg h2 (Some w) I1 Hrs1 EE) as [[tw [Ev [Hw S2]]] K2].
  rewrite Ev.
  assert (Hrs2 : repr_list h2 rs sg).
  { apply repr_list_as_inst. apply K2. rewrite handles_inst. apply incl_appl, incl_refl. apply repr_list_as_inst; auto. }
  assert (Holds2 : repr_list h2 olds tolds).
  { apply repr_list_as_inst. apply K2. rewrite handles_inst. apply incl_appr, incl_appl, incl_refl. apply repr_list_as_inst; auto. }
  assert (I2 : Inv h2 ((handles w ++ handles_list olds) ++ handles_list rs ++ G)).
  { eapply Inv_equiv; [|apply S2]. occ_tac. }
  destruct (m_and_loop_ok f BF ts olds tolds NS' w tw h2 rs sg G st' ok I2 Hw Holds2 Hlen Hrs2 E) as [sg' [Ev2 [I3 [Hs3 K3]]]].
  exists sg'. split; [exact Ev2|]. split; [exact I3|]. split; [exact Hs3|].
  intros u t Iu Hu. apply K3; auto. apply K2. apply incl_appr, incl_appr; auto. apply K1G; auto.
Qed.
Transparent alloc.

(* ------------------------------------------------------------------ the proved fragment and the refinement theorem *)
Definition sfrag (s : sstmt) : bool :=
  match s with
  | SAssign x p e => noslice p && efrag e
  | SOp x p f e => noslice p && bfrag f && efrag e
  | SMod dst x m => is_modlop m && match dst with Some (_, q) => noslice q | None => true end
  | SSwap x p y q => noslice p && noslice q
  | SEvery x p e => efrag e
  | SOpMod x p f wrap y m => noslice p && bfrag f && is_modlop m
  | SOpDef x p d f e => noslice p && bfrag f && efrag e
  | SEveryOp x p f e => false
  | SAndOp ts f e => forallb (fun t => noslice (snd t)) ts && bfrag f && efrag e
  end.

Lemma m_exec_s_ok s : sfrag s = true -> forall st sg st' ok,
  StInv st -> Sim st sg -> m_exec_s st s = (st', ok) ->
  exists sg', exec_s sg s = (sg', ok) /\ StInv st' /\ Sim st' sg'.
Proof.
  intros FR st sg st' ok I Hs E. destruct st as [h rs]. unfold StInv, Sim in *. simpl in I, Hs.
  destruct s; simpl in FR; try discriminate.
  - (* x[p] = e *)
    apply andb_prop in FR. destruct FR as [NS FE].
    simpl in E. simpl.
    assert (I0 : Inv h (handles_list rs ++ [])) by (rewrite app_nil_r; auto).
    destruct (m_eval rs h e) as [h1 [w|]] eqn:EE.
    + destruct (m_eval_ok e FE rs h [] sg h1 (Some w) I0 Hs EE) as [[tw [Ev [Hw S]]] K].
      rewrite Ev.
      assert (Hrs1 : repr_list h1 rs sg).
      { apply repr_list_as_inst. apply K. rewrite handles_inst. apply incl_appl, incl_refl. apply repr_list_as_inst; auto. }
      assert (I1 : Inv h1 (handles w ++ handles_list rs)).
      { pose proof (st_inv _ _ _ _ _ S) as I1. rewrite app_nil_r in I1. auto. }
      eapply m_assign_to_ok; eauto.
    + destruct (m_eval_ok e FE rs h [] sg h1 None I0 Hs EE) as [[Ev S] K].
      rewrite Ev. inversion E; subst; clear E. eexists; split; [reflexivity|]. split.
      * unfold StInv. simpl. pose proof (st_inv _ _ _ _ _ S) as I1. rewrite app_nil_r in I1. auto.
      * unfold Sim. simpl. apply repr_list_as_inst. apply K.
        rewrite handles_inst. apply incl_appl, incl_refl. apply repr_list_as_inst; auto.
  - (* every x[p] = e *)
    eapply exec_every_ok; eauto.
  - (* x[p] f= e *)
    apply andb_prop in FR. destruct FR as [FR FE]. apply andb_prop in FR. destruct FR as [NS BF].
    eapply exec_op_ok; eauto.
  - (* [y[q] =] pop / remove / consume x[p] *)
    apply andb_prop in FR. destruct FR as [HM HD].
    eapply exec_mod_ok; eauto. destruct dst as [[y q]|]; auto.
  - (* swap x[p], y[q] *)
    apply andb_prop in FR. destruct FR as [NP NQ].
    eapply exec_swap_ok; eauto.
  - (* x[p] f= [pop y[..]] *)
    apply andb_prop in FR. destruct FR as [FR HM]. apply andb_prop in FR. destruct FR as [NS BF].
    assert (I0 : Inv h (handles_list rs ++ [])) by (rewrite app_nil_r; auto).
    destruct (exec_opmod_g x p f wrap y m NS BF HM h rs sg st' ok [] I0 Hs E) as [sg' [Ev [I1 [Hs1 _]]]].
    exists sg'. split; auto. split; auto. unfold StInv. rewrite app_nil_r in I1. auto.
  - (* (x[p] = d) f= e *)
    apply andb_prop in FR. destruct FR as [FR FE]. apply andb_prop in FR. destruct FR as [NS BF].
    assert (I0 : Inv h (handles_list rs ++ [])) by (rewrite app_nil_r; auto).
    destruct (exec_opdef_g x p d f e NS BF FE h rs sg st' ok [] I0 Hs E) as [sg' [Ev [I1 [Hs1 _]]]].
    exists sg'. split; auto. split; auto. unfold StInv. rewrite app_nil_r in I1. auto.
  - (* (x[p] and y[q] ..) f= e *)
    apply andb_prop in FR. destruct FR as [FR FE]. apply andb_prop in FR. destruct FR as [NS BF].
    assert (I0 : Inv h (handles_list rs ++ [])) by (rewrite app_nil_r; auto).
    destruct (exec_andop_g ts f e NS BF FE h rs sg st' ok [] I0 Hs E) as [sg' [Ev [I1 [Hs1 _]]]].
    exists sg'. split; auto. split; auto. unfold StInv. rewrite app_nil_r in I1. auto.
Qed.

Definition frag (s : stmt) : bool := match s with Simple s => sfrag s | SFor _ _ _ => false end.

Lemma m_exec_ok s : frag s = true -> forall st sg st' ok,
  StInv st -> Sim st sg -> m_exec st s = (st', ok) ->
  exists sg', exec sg s = (sg', ok) /\ StInv st' /\ Sim st' sg'.
Proof. destruct s; simpl; intros FR; [apply m_exec_s_ok; auto | discriminate]. Qed.

(* the trace of the machine and the trace of the value semantics agree, statement by statement *)
Inductive traces_agree : list (mstate * bool) -> list (state * bool) -> Prop :=
| TA_nil : traces_agree [] []
| TA_cons st ok sg tl tl' : StInv st -> Sim st sg -> traces_agree tl tl' ->
                            traces_agree ((st, ok) :: tl) ((sg, ok) :: tl').

Lemma run_refines ops : forallb frag ops = true -> forall st sg,
  StInv st -> Sim st sg -> traces_agree (run_cow st ops) (run_value sg ops).
Proof.
  induction ops as [|s ops IH]; intros FR st sg I Hs; simpl.
  - constructor.
  - simpl in FR. apply andb_prop in FR. destruct FR as [F1 F2].
    destruct (m_exec st s) as [st1 ok] eqn:E.
    destruct (m_exec_ok s F1 st sg st1 ok I Hs E) as [sg1 [Ev [I1 Hs1]]].
    rewrite Ev. simpl. constructor; auto.
Qed.

Lemma init_ok n : StInv (init_state n) /\ Sim (init_state n) (repeat VNull n).
Proof.
  unfold StInv, Sim, init_state. simpl. split.
  - intro l. unfold cnt_of, get_cell, empty_heap, handles_heap. simpl.
    assert (handles_list (repeat HNull n) = []) by (induction n; simpl; auto).
    rewrite H. destruct l; reflexivity.
  - induction n; simpl; constructor; auto. constructor.
Qed.
