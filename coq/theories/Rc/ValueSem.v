(* C01 SPEC: copy-on-assignment ("value") semantics of Noulith's mutation statements.

   Values are pure immutable trees; a variable maps to a tree; every statement rewrites the
   addressed slot of the named variable and nothing else (there is no sharing to leak
   through, by construction).  The control flow of the failure cases (which check happens
   first, what is left behind when a statement raises half way) follows eval.rs:
     set_index (~2109), modify_existing_index (~2317), Expr::OpAssign hot path (~985-1012),
     drop_lhs (~2675), Obj::try_pop / try_remove_index / try_remove_slice (core.rs ~481),
     index / slice_seq (eval.rs ~1695-1792), Expr::Update (~670), Expr::Swap (~893),
     evaluate_for (~410), and of lib.rs Append (~554), plusplus_concatenate (~2544),
     `|.` `-.` `||` `|..` (~5084-5244).
   Definitions only.  The Rc machine that is proved to refine this is Rc/Cow.v. *)
From Coq Require Import ZArith List Bool.
Import ListNotations.
Local Open Scope Z_scope.

(* ------------------------------------------------------------------ values *)
Inductive kind := KList | KDict | KStr | KVec | KBytes.

(* dictionary keys used by the histories: integers and (ASCII) strings, the latter as bytes *)
Inductive key := KI (z : Z) | KB (bs : list Z).

(* VSeq k items dflt: every Seq kind is a labelled item list.  Lists, strings (bytes),
   vectors and bytes ignore the labels (KI 0); dict items carry their key; only dicts have a
   default.  String/vector/bytes items are VInt. *)
Inductive val :=
| VNull
| VInt (z : Z)
| VSeq (k : kind) (items : list (key * val)) (dflt : option val)
| VInst (sid : nat) (fields : list val).

Definition nokey : key := KI 0.
Definition unlabelled (vs : list val) : list (key * val) := map (fun v => (nokey, v)) vs.
Definition VList (vs : list val) : val := VSeq KList (unlabelled vs) None.
Definition VStr (bs : list Z) : val := VSeq KStr (unlabelled (map VInt bs)) None.
Definition VVec (zs : list Z) : val := VSeq KVec (unlabelled (map VInt zs)) None.
Definition VBytes (zs : list Z) : val := VSeq KBytes (unlabelled (map VInt zs)) None.
Definition VDict (kvs : list (key * val)) (d : option val) : val := VSeq KDict kvs d.

Definition kind_eqb (a b : kind) : bool :=
  match a, b with
  | KList, KList | KDict, KDict | KStr, KStr | KVec, KVec | KBytes, KBytes => true
  | _, _ => false
  end.

Fixpoint zlist_eqb (a b : list Z) : bool :=
  match a, b with
  | [], [] => true
  | x :: a', y :: b' => (x =? y) && zlist_eqb a' b'
  | _, _ => false
  end.

Definition key_eqb (a b : key) : bool :=
  match a, b with
  | KI x, KI y => x =? y
  | KB x, KB y => zlist_eqb x y
  | _, _ => false
  end.

(* ------------------------------------------------------------------ index paths *)
(* one element of an index path: x[z], x["..."], x[field], x[lo:hi] *)
Inductive pelem :=
| PI (z : Z)
| PS (bs : list Z)
| PF (sid fld : nat)
| PSl (lo hi : option Z).
Definition path := list pelem.

(* core.rs pythonic_index on small integers (the i64 edge cases are C10's business) *)
Definition norm_index (len : nat) (z : Z) : option nat :=
  if (0 <=? z) && (z <? Z.of_nat len) then Some (Z.to_nat z)
  else if (z <? 0) && (0 <=? z + Z.of_nat len) then Some (Z.to_nat (z + Z.of_nat len))
  else None.

(* core.rs clamped_pythonic_index / pythonic_slice *)
Definition clamp_index (len : nat) (z : Z) : nat :=
  if 0 <=? z then Nat.min (Z.to_nat z) len
  else let i2 := z + Z.of_nat len in if i2 <? 0 then 0%nat else Z.to_nat i2.
Definition slice_bounds (len : nat) (lo hi : option Z) : nat * nat :=
  let clo := match lo with Some l => clamp_index len l | None => 0%nat end in
  let chi := match hi with Some h => clamp_index len h | None => len end in
  (clo, Nat.max chi clo).

(* to_key on an index expression *)
Definition key_of_pelem (pe : pelem) : option key :=
  match pe with PI z => Some (KI z) | PS bs => Some (KB bs) | _ => None end.

(* ------------------------------------------------------------------ item lists *)
Section Items.
Context {A : Type}.

Fixpoint find_key (k : key) (items : list (key * A)) : option nat :=
  match items with
  | [] => None
  | (k', _) :: tl => if key_eqb k k' then Some 0%nat
                     else match find_key k tl with Some n => Some (S n) | None => None end
  end.

Fixpoint set_nth (n : nat) (a : A) (items : list (key * A)) : list (key * A) :=
  match items, n with
  | [], _ => []
  | (k, _) :: tl, O => (k, a) :: tl
  | kv :: tl, S n' => kv :: set_nth n' a tl
  end.

Fixpoint del_nth {B : Type} (n : nat) (l : list B) : list B :=
  match l, n with
  | [], _ => []
  | _ :: tl, O => tl
  | x :: tl, S n' => x :: del_nth n' tl
  end.

Definition nth_item (n : nat) (items : list (key * A)) : option A :=
  match nth_error items n with Some (_, a) => Some a | None => None end.

(* HashMap::insert: replace the value of an existing key, otherwise add the entry *)
Definition put_key (k : key) (a : A) (items : list (key * A)) : list (key * A) :=
  match find_key k items with
  | Some n => set_nth n a items
  | None => items ++ [(k, a)]
  end.

Definition del_key (k : key) (items : list (key * A)) : list (key * A) :=
  match find_key k items with
  | Some n => del_nth n items
  | None => items
  end.

(* apply g to items[skip .. skip+cnt-1] from left to right, stopping after the first failure
   (what was done before, and whatever g left in the failing slot, stays) *)
Fixpoint upd_range (g : A -> A * bool) (items : list (key * A)) (skip cnt : nat)
  : list (key * A) * bool :=
  match items with
  | [] => ([], true)
  | (k, a) :: tl =>
    match skip with
    | S s' => let (tl', ok) := upd_range g tl s' cnt in ((k, a) :: tl', ok)
    | O =>
      match cnt with
      | O => (items, true)
      | S c' =>
        let (a', ok) := g a in
        if ok then let (tl', ok2) := upd_range g tl 0%nat c' in ((k, a') :: tl', ok2)
        else ((k, a') :: tl, false)
      end
    end
  end.
End Items.

(* ------------------------------------------------------------------ reading: index / slice_seq *)
Definition sub_items {A} (items : list A) (a b : nat) : list A := firstn (b - a) (skipn a items).

Definition v_get1 (v : val) (pe : pelem) : option val :=
  match v with
  | VSeq KDict items d =>
    match key_of_pelem pe with
    | Some k => match find_key k items with
                | Some n => nth_item n items
                | None => d                       (* the default, or a key error *)
                end
    | None => None                                (* function as key / slice of a dict *)
    end
  | VSeq k items d =>
    match pe with
    | PI z => match norm_index (length items) z with
              | Some n => match nth_item n items with
                          | Some e => Some (match k with KStr => VSeq KStr [(nokey, e)] None | _ => e end)
                          | None => None
                          end
              | None => None
              end
    | PSl lo hi => let (a, b) := slice_bounds (length items) lo hi in
                   Some (VSeq k (sub_items items a b) None)
    | _ => None
    end
  | VInst sid fields =>
    match pe with
    | PF sid' f => if Nat.eqb sid sid' then nth_error fields f else None
    | _ => None
    end
  | _ => None
  end.

Fixpoint v_get (v : val) (p : path) : option val :=
  match p with
  | [] => Some v
  | pe :: rest => match v_get1 v pe with Some e => v_get e rest | None => None end
  end.

(* the read of `(x[p] = d) f= e` (eval_lvalue_as_obj, WithDefault arm): follow all but the last index; there must be a
   dictionary WITHOUT a default there and the last index must be a key: the value at the key, or d when it is missing *)
Fixpoint split_last {A : Type} (l : list A) : option (list A * A) :=
  match l with
  | [] => None
  | a :: tl => match split_last tl with
               | None => Some ([], a)
               | Some (pre, z) => Some (a :: pre, z)
               end
  end.

Definition v_get_wd (v : val) (p : path) (d : val) : option val :=
  match split_last p with
  | None => Some v
  | Some (pre, last) =>
    match v_get v pre with
    | Some (VSeq KDict items None) =>
      match key_of_pelem last with
      | Some k => match find_key k items with Some _ => v_get v p | None => Some d end
      | None => None
      end
    | _ => None
    end
  end.

(* ------------------------------------------------------------------ set_index *)
Definition set_field (f : nat) (a : val) (fields : list val) : list val :=
  map snd (set_nth f a (unlabelled fields)).

Definition is_byte (z : Z) : bool := (0 <=? z) && (z <? 256).

(* the position an index expression addresses in a string/vector/bytes of the given length *)
Definition leaf_index (pe : pelem) (len : nat) : option nat :=
  match pe with PI z => norm_index len z | _ => None end.

(* a string of exactly one byte: that byte *)
Definition str1 (w : val) : option val :=
  match w with VSeq KStr [(_, VInt b)] _ => Some (VInt b) | _ => None end.

(* eval.rs set_index(lhs, indexes, value, every) on a tree; value = None is drop_lhs.
   Returns the new tree and whether it succeeded.  A failure can leave earlier elements of an
   `every` slice already assigned. *)
Fixpoint v_set (every : bool) (p : path) (new : option val) (v : val) : val * bool :=
  match p with
  | [] => (match new with Some w => w | None => VNull end, true)
  | pe :: rest =>
    match v with
    | VSeq KList items d =>
      match pe with
      | PI z =>
        match norm_index (length items) z with
        | Some n => match nth_item n items with
                    | Some e => let (e', ok) := v_set every rest new e in
                                (VSeq KList (set_nth n e' items) d, ok)
                    | None => (v, false)
                    end
        | None => (v, false)
        end
      | PSl lo hi =>
        if every then
          let (a, b) := slice_bounds (length items) lo hi in
          let (items', ok) := upd_range (v_set every rest new) items a (b - a) in
          (VSeq KList items' d, ok)
        else (v, false)     (* todo!() in the code: never generated, see notes (F11) *)
      | _ => (v, false)
      end
    | VSeq KStr items d =>
      match pe, rest with
      | PSl _ _, _ => (v, false)
      | _, [] =>
        match new with
        | Some w =>
          match str1 w with
          | Some b => match leaf_index pe (length items) with
                      | Some n => (VSeq KStr (set_nth n b items) d, true)
                      | None => (v, false)
                      end
          | None => (v, false)
          end
        | None => (v, true)
        end
      | _, _ => (v, false)
      end
    | VSeq KDict items d =>
      match pe with
      | PSl None None =>
        match rest with
        | [] => if every
                then (VSeq KDict (map (fun kv => (fst kv, match new with Some w => w | None => VNull end)) items) d, true)
                else (v, false)
        | _ => (v, false)
        end
      | _ =>
        match key_of_pelem pe with
        | Some k =>
          match rest with
          | [] => (VSeq KDict (put_key k (match new with Some w => w | None => VNull end) items) d, true)
          | _ => match find_key k items with
                 | Some n => match nth_item n items with
                             | Some e => let (e', ok) := v_set every rest new e in
                                         (VSeq KDict (set_nth n e' items) d, ok)
                             | None => (v, false)
                             end
                 | None => (v, false)          (* no default insertion on this path *)
                 end
          end
        | None => (v, false)
        end
      end
    | VSeq KVec items d =>
      match pe, rest with
      | PSl _ _, _ => (v, false)
      | _, [] =>
        match new with
        | Some (VInt n) => match leaf_index pe (length items) with
                           | Some i => (VSeq KVec (set_nth i (VInt n) items) d, true)
                           | None => (v, false)
                           end
        | Some _ => (v, false)
        | None => (v, true)
        end
      | _, _ => (v, false)
      end
    | VSeq KBytes items d =>
      match pe, rest with
      | PSl _ _, _ => (v, false)
      | _, [] =>
        match new with
        | Some (VInt n) => match leaf_index pe (length items) with
                           | Some i => if is_byte n then (VSeq KBytes (set_nth i (VInt n) items) d, true)
                                       else (v, false)
                           | None => (v, false)
                           end
        | Some _ => (v, false)
        | None => (v, true)
        end
      | _, _ => (v, false)
      end
    | VInst sid fields =>
      match pe with
      | PF sid' f =>
        if Nat.eqb sid sid' then
          match nth_error fields f with
          | Some e => let (e', ok) := v_set every rest new e in (VInst sid (set_field f e' fields), ok)
          | None => (v, false)
          end
        else (v, false)
      | _ => (v, false)
      end
    | _ => (v, false)
    end
  end.

(* ------------------------------------------------------------------ modify_existing_index *)
(* f acts on the addressed slot: new slot content and the result (None = it raised).  A dict
   with a default gets the default inserted at a missing key on the way down, and that
   insertion stays even when f then raises. *)
Fixpoint v_modify (p : path) (f : val -> val * option val) (v : val) : val * option val :=
  match p with
  | [] => f v
  | pe :: rest =>
    match v with
    | VSeq KList items d =>
      match pe with
      | PI z =>
        match norm_index (length items) z with
        | Some n => match nth_item n items with
                    | Some e => let (e', r) := v_modify rest f e in (VSeq KList (set_nth n e' items) d, r)
                    | None => (v, None)
                    end
        | None => (v, None)
        end
      | _ => (v, None)
      end
    | VSeq KDict items d =>
      match key_of_pelem pe with
      | Some k =>
        match find_key k items with
        | Some n => match nth_item n items with
                    | Some e => let (e', r) := v_modify rest f e in (VSeq KDict (set_nth n e' items) d, r)
                    | None => (v, None)
                    end
        | None => match d with
                  | Some dv => let (e', r) := v_modify rest f dv in (VSeq KDict (items ++ [(k, e')]) d, r)
                  | None => (v, None)
                  end
        end
      | None => (v, None)
      end
    | VInst sid fields =>
      match pe with
      | PF sid' fl =>
        if Nat.eqb sid sid' then
          match nth_error fields fl with
          | Some e => let (e', r) := v_modify rest f e in (VInst sid (set_field fl e' fields), r)
          | None => (v, None)
          end
        else (v, None)
      | _ => (v, None)
      end
    | _ => (v, None)
    end
  end.

(* ------------------------------------------------------------------ modify_every_existing_index *)
(* the walk of `every x[p] f= e`: modify_existing_index plus list slices (every element of the slice, left to right,
   stopping at the first failure).  The caller works on a private copy and discards it when the result is None. *)
Fixpoint v_mevery (p : path) (f : val -> val * option val) (v : val) : val * option val :=
  match p with
  | [] => f v
  | pe :: rest =>
    match v with
    | VSeq KList items d =>
      match pe with
      | PI z =>
        match norm_index (length items) z with
        | Some n => match nth_item n items with
                    | Some e => let (e', r) := v_mevery rest f e in (VSeq KList (set_nth n e' items) d, r)
                    | None => (v, None)
                    end
        | None => (v, None)
        end
      | PSl lo hi =>
        let (a, b) := slice_bounds (length items) lo hi in
        let (items', ok) := upd_range (fun e => let (e', r) := v_mevery rest f e in
                                                (e', match r with Some _ => true | None => false end)) items a (b - a) in
        (VSeq KList items' d, if ok then Some VNull else None)
      | _ => (v, None)
      end
    | VSeq KDict items d =>
      match key_of_pelem pe with
      | Some k =>
        match find_key k items with
        | Some n => match nth_item n items with
                    | Some e => let (e', r) := v_mevery rest f e in (VSeq KDict (set_nth n e' items) d, r)
                    | None => (v, None)
                    end
        | None => match d with
                  | Some dv => let (e', r) := v_mevery rest f dv in (VSeq KDict (items ++ [(k, e')]) d, r)
                  | None => (v, None)
                  end
        end
      | None => (v, None)
      end
    | VInst sid fields =>
      match pe with
      | PF sid' fl =>
        if Nat.eqb sid sid' then
          match nth_error fields fl with
          | Some e => let (e', r) := v_mevery rest f e in (VInst sid (set_field fl e' fields), r)
          | None => (v, None)
          end
        else (v, None)
      | _ => (v, None)
      end
    | _ => (v, None)
    end
  end.

(* Obj::try_pop *)
Definition f_pop (v : val) : val * option val :=
  match v with
  | VSeq KList items d =>
    match nth_item (length items - 1) items with
    | Some e => (VSeq KList (removelast items) d, Some e)
    | None => (v, None)
    end
  | _ => (v, None)
  end.

(* Obj::try_remove_index / try_remove_slice *)
Definition f_remove (pe : pelem) (v : val) : val * option val :=
  match v with
  | VSeq KList items d =>
    match pe with
    | PI z => match norm_index (length items) z with
              | Some n => match nth_item n items with
                          | Some e => (VSeq KList (del_nth n items) d, Some e)
                          | None => (v, None)
                          end
              | None => (v, None)
              end
    | PSl lo hi => let (a, b) := slice_bounds (length items) lo hi in
                   (VSeq KList (firstn a items ++ skipn b items) d,
                    Some (VSeq KList (sub_items items a b) None))
    | _ => (v, None)
    end
  | VSeq KDict items d =>
    match pe with
    | PSl _ _ => (v, None)
    | _ => match key_of_pelem pe with
           | Some k => match find_key k items with
                       | Some n => match nth_item n items with
                                   | Some e => (VSeq KDict (del_nth n items) d, Some e)
                                   | None => (v, None)
                                   end
                       | None => (v, None)
                       end
           | None => (v, None)
           end
    end
  | _ => (v, None)
  end.

(* consume: std::mem::take *)
Definition f_consume (v : val) : val * option val := (VNull, Some v).

(* ------------------------------------------------------------------ the consuming builtins *)
Inductive bop := BAppend | BConcat | BPlus | BAddKey | BDelKey | BUnion | BUpdate.

(* to_key on a value (integers and strings only; the histories use no other keys) *)
Fixpoint bytes_of_items (items : list (key * val)) : option (list Z) :=
  match items with
  | [] => Some []
  | (_, VInt b) :: tl => match bytes_of_items tl with Some r => Some (b :: r) | None => None end
  | _ => None
  end.
Definition key_of_val (v : val) : option key :=
  match v with
  | VInt z => Some (KI z)
  | VSeq KStr items _ => match bytes_of_items items with Some bs => Some (KB bs) | None => None end
  | _ => None
  end.

(* mut_seq_into_iter on a non-dict sequence: its elements as values *)
Definition iter_vals (v : val) : option (list val) :=
  match v with
  | VSeq KDict _ _ => None                   (* hash order: not used by the histories *)
  | VSeq KStr items _ => Some (map (fun kv => VSeq KStr [(nokey, snd kv)] None) items)
  | VSeq _ items _ => Some (map snd items)
  | _ => None
  end.

Fixpoint zip_plus (a b : list (key * val)) : option (list (key * val)) :=
  match a, b with
  | [], [] => Some []
  | (_, VInt x) :: a', (_, VInt y) :: b' =>
    match zip_plus a' b' with Some r => Some ((nokey, VInt (x + y)) :: r) | None => None end
  | _, _ => None
  end.
Fixpoint map_plus (z : Z) (a : list (key * val)) : option (list (key * val)) :=
  match a with
  | [] => Some []
  | (_, VInt x) :: a' => match map_plus z a' with Some r => Some ((nokey, VInt (x + z)) :: r) | None => None end
  | _ => None
  end.

Definition bop_apply (f : bop) (a b : val) : option val :=
  match f with
  | BAppend =>
    match a with
    | VSeq KList items d => Some (VSeq KList (items ++ [(nokey, b)]) d)
    | VSeq KVec items d => match b with VInt _ => Some (VSeq KVec (items ++ [(nokey, b)]) d) | _ => None end
    | VSeq KBytes items d =>
      match b with VInt n => if is_byte n then Some (VSeq KBytes (items ++ [(nokey, b)]) d) else None | _ => None end
    | _ => None
    end
  | BConcat =>
    match a, b with
    | VSeq KList x d, VSeq KList y _ => Some (VSeq KList (x ++ y) d)
    | VSeq KVec x d, VSeq KVec y _ => Some (VSeq KVec (x ++ y) d)
    | VSeq KBytes x d, VSeq KBytes y _ => Some (VSeq KBytes (x ++ y) d)
    | _, _ => None
    end
  | BPlus =>
    match a, b with
    | VInt x, VInt y => Some (VInt (x + y))
    | VSeq KVec x d, VInt y => match map_plus y x with Some r => Some (VSeq KVec r None) | None => None end
    | VInt x, VSeq KVec y d => match map_plus x y with Some r => Some (VSeq KVec r None) | None => None end
    | VSeq KVec x _, VSeq KVec y _ => match zip_plus x y with Some r => Some (VSeq KVec r None) | None => None end
    | _, _ => None
    end
  | BAddKey =>
    match a with
    | VSeq KDict items d => match key_of_val b with Some k => Some (VSeq KDict (put_key k VNull items) d) | None => None end
    | _ => None
    end
  | BDelKey =>
    match a with
    | VSeq KDict items d => match key_of_val b with Some k => Some (VSeq KDict (del_key k items) d) | None => None end
    | _ => None
    end
  | BUnion =>
    match a, b with
    | VSeq KDict x d, VSeq KDict y _ => Some (VSeq KDict (fold_left (fun acc kv => put_key (fst kv) (snd kv) acc) y x) d)
    | _, _ => None
    end
  | BUpdate =>
    match iter_vals b with
    | Some [k; w] =>
      match a with
      | VSeq KList items d =>
        match k with
        | VInt z => match norm_index (length items) z with
                    | Some n => Some (VSeq KList (set_nth n w items) d)
                    | None => None
                    end
        | _ => None
        end
      | VSeq KDict items d => match key_of_val k with Some kk => Some (VSeq KDict (put_key kk w items) d) | None => None end
      | _ => None
      end
    | _ => None
    end
  end.

(* ------------------------------------------------------------------ one variable's worth of statement *)
(* the mutation forms, acting on one value (a variable's content, or a function's parameter) *)
Inductive lop :=
| LSet (p : path) (w : val)              (* a[p] = w *)
| LEvery (p : path) (w : val)            (* every a[p] = w *)
| LOp (p : path) (f : bop) (w : val)     (* a[p] f= w *)
| LPop (p : path)                        (* pop a[p] *)
| LRemove (p : path) (i : pelem)         (* remove a[p][i] *)
| LConsume (p : path).                   (* consume a[p] *)

(* the op-assign hot path on one value.  The old value is read FIRST (eval.rs ~987), then the right-hand side is
   evaluated, then: drop_lhs, call, assign.  v_opassign_old is the part after the right-hand side. *)
Definition v_opassign_old (p : path) (f : bop) (old w : val) (v : val) : val * bool :=
  let (v1, ok1) := v_set true p None v in
  if negb ok1 then (v1, false) else
  match bop_apply f old w with
  | None => (v1, false)                      (* the slot stays null *)
  | Some r => v_set false p (Some r) v1
  end.

Definition v_opassign (p : path) (f : bop) (w : val) (v : val) : val * bool :=
  match v_get v p with
  | None => (v, false)
  | Some old => v_opassign_old p f old w v
  end.

(* new content, result (None = raised) *)
Definition lop_apply (m : lop) (v : val) : val * option val :=
  match m with
  | LSet p w => let (v', ok) := v_set false p (Some w) v in (v', if ok then Some VNull else None)
  | LEvery p w => let (v', ok) := v_set true p (Some w) v in (v', if ok then Some VNull else None)
  | LOp p f w => let (v', ok) := v_opassign p f w v in (v', if ok then Some VNull else None)
  | LPop p => v_modify p f_pop v
  | LRemove p i => v_modify p (f_remove i) v
  | LConsume p => v_modify p f_consume v
  end.

(* ------------------------------------------------------------------ expressions (pure) *)
Inductive expr :=
| ELit (v : val)                            (* a literal *)
| ERead (x : nat) (p : path)                (* x[p] *)
| EGet (x : nat)                            (* get_x() where get_x := \-> x captured the variable *)
| EList (es : list expr)                    (* [e1, ..., en] *)
| EUpd (e : expr) (k : pelem) (e2 : expr)   (* e{k = e2} *)
| ECall (m : lop) (e : expr).               (* (\a -> (m on a; a))(e) *)

Definition state := list val.               (* variable i is the i-th entry; variable 0 is `it` *)

Fixpoint eval (st : state) (e : expr) : option val :=
  match e with
  | ELit v => Some v
  | ERead x p => match nth_error st x with Some v => v_get v p | None => None end
  | EGet x => nth_error st x
  | EList es =>
    match (fix go (l : list expr) : option (list val) :=
             match l with
             | [] => Some []
             | e1 :: tl => match eval st e1 with
                           | Some v => match go tl with Some r => Some (v :: r) | None => None end
                           | None => None
                           end
             end) es with
    | Some vs => Some (VList vs)
    | None => None
    end
  | EUpd e k e2 =>
    match eval st e with
    | Some v => match eval st e2 with
                | Some w => let (v', ok) := v_set false [k] (Some w) v in if ok then Some v' else None
                | None => None
                end
    | None => None
    end
  | ECall m e =>
    match eval st e with
    | Some v => let (v', r) := lop_apply m v in match r with Some _ => Some v' | None => None end
    | None => None
    end
  end.

(* ------------------------------------------------------------------ statements *)
Definition set_var (st : state) (x : nat) (v : val) : state :=
  map snd (set_nth x v (unlabelled st)).

(* simple statements *)
Inductive sstmt :=
| SAssign (x : nat) (p : path) (e : expr)                      (* x[p] = e *)
| SEvery (x : nat) (p : path) (e : expr)                       (* every x[p] = e *)
| SOp (x : nat) (p : path) (f : bop) (e : expr)                (* x[p] f= e *)
| SMod (dst : option (nat * path)) (x : nat) (m : lop)         (* [y[q] =] pop|remove|consume x[..]   (m is LPop/LRemove/LConsume) *)
| SSwap (x : nat) (p : path) (y : nat) (q : path)              (* swap x[p], y[q] *)
| SOpMod (x : nat) (p : path) (f : bop) (wrap : bool) (y : nat) (m : lop)
| SOpDef (x : nat) (p : path) (d : val) (f : bop) (e : expr)   (* (x[p] = d) f= e : d is used when the last key is missing *)
| SEveryOp (x : nat) (p : path) (f : bop) (e : expr)
    (* every x[p] f= e  (modify_every): e is evaluated once; every addressed element a becomes `a f e`; all or nothing:
       when the operator raises on some element the variable keeps its old value *)
| SAndOp (ts : list (nat * path)) (f : bop) (e : expr).
    (* (x1[p1] and x2[p2] and ..) f= e : all old values are read first, e is evaluated once, then every target in turn is
       dropped, combined with (a copy of) e's value and assigned; a failure stops there (earlier targets stay updated) *)
    (* x[p] f= M   or   x[p] f= [M]   where M is pop|remove|consume y[..]: a right-hand side that mutates (possibly
       the target itself: `q ++= [pop q]`).  The old value of x[p] is read before M runs. *)

Inductive stmt :=
| Simple (s : sstmt)
| SFor (x : nat) (p : path) (body : list sstmt).               (* for (it <- x[p]) (body) *)

(* state after, and whether the statement completed (false = it raised) *)
Definition assign_to (st : state) (every : bool) (x : nat) (p : path) (w : val) : state * bool :=
  match nth_error st x with
  | Some v => let (v', ok) := v_set every p (Some w) v in (set_var st x v', ok)
  | None => (st, false)
  end.

(* the element function of `every x[p] f= w` *)
Definition every_leaf (f : bop) (w : val) (a : val) : val * option val :=
  match bop_apply f a w with Some r => (r, Some VNull) | None => (VNull, None) end.

(* the old values of the targets of an and-pattern, in order *)
Fixpoint read_all (st : state) (ts : list (nat * path)) : option (list val) :=
  match ts with
  | [] => Some []
  | (x, p) :: tl =>
    match nth_error st x with
    | None => None
    | Some v => match v_get v p with
                | None => None
                | Some old => match read_all st tl with Some olds => Some (old :: olds) | None => None end
                end
    end
  end.

Fixpoint and_loop (f : bop) (w : val) (st : state) (l : list ((nat * path) * val)) : state * bool :=
  match l with
  | [] => (st, true)
  | ((x, p), old) :: tl =>
    match nth_error st x with
    | None => (st, false)
    | Some v => let (v', ok) := v_opassign_old p f old w v in
                if ok then and_loop f w (set_var st x v') tl else (set_var st x v', false)
    end
  end.

Definition exec_s (st : state) (s : sstmt) : state * bool :=
  match s with
  | SAssign x p e =>
    match eval st e with Some w => assign_to st false x p w | None => (st, false) end
  | SEvery x p e =>
    match eval st e with Some w => assign_to st true x p w | None => (st, false) end
  | SOp x p f e =>
    match nth_error st x with
    | None => (st, false)
    | Some v =>
      match v_get v p with
      | None => (st, false)
      | Some _ =>
        match eval st e with
        | None => (st, false)
        | Some w => let (v', ok) := v_opassign p f w v in (set_var st x v', ok)
        end
      end
    end
  | SMod dst x m =>
    match nth_error st x with
    | None => (st, false)
    | Some v =>
      let (v', r) := lop_apply m v in
      let st1 := set_var st x v' in
      match r with
      | None => (st1, false)
      | Some res => match dst with
                    | None => (st1, true)
                    | Some (y, q) => assign_to st1 false y q res
                    end
      end
    end
  | SSwap x p y q =>
    match eval st (ERead x p), eval st (ERead y q) with
    | Some a, Some b =>
      let (st1, ok1) := assign_to st false x p b in
      if ok1 then assign_to st1 false y q a else (st1, false)
    | _, _ => (st, false)
    end
  | SOpMod x p f wrap y m =>
    match nth_error st x with
    | None => (st, false)
    | Some v =>
      match v_get v p with
      | None => (st, false)
      | Some old =>
        match nth_error st y with
        | None => (st, false)
        | Some vy =>
          let (vy', r) := lop_apply m vy in
          let st1 := set_var st y vy' in
          match r with
          | None => (st1, false)
          | Some res =>
            let w := if wrap then VList [res] else res in
            match nth_error st1 x with
            | None => (st1, false)
            | Some v1 => let (v', ok) := v_opassign_old p f old w v1 in (set_var st1 x v', ok)
            end
          end
        end
      end
    end
  | SOpDef x p d f e =>
    match nth_error st x with
    | None => (st, false)
    | Some v =>
      match v_get_wd v p d with
      | None => (st, false)
      | Some old =>
        match eval st e with
        | None => (st, false)
        | Some w => let (v', ok) := v_opassign_old p f old w v in (set_var st x v', ok)
        end
      end
    end
  | SEveryOp x p f e =>
    match eval st e with
    | None => (st, false)
    | Some w =>
      match nth_error st x with
      | None => (st, false)
      | Some v =>
        let (v', r) := v_mevery p (every_leaf f w) v in
        match r with Some _ => (set_var st x v', true) | None => (st, false) end
      end
    end
  | SAndOp ts f e =>
    match read_all st ts with
    | None => (st, false)
    | Some olds =>
      match eval st e with
      | None => (st, false)
      | Some w => and_loop f w st (combine ts olds)
      end
    end
  end.

Fixpoint exec_list (st : state) (l : list sstmt) : state * bool :=
  match l with
  | [] => (st, true)
  | s :: tl => let (st1, ok) := exec_s st s in if ok then exec_list st1 tl else (st1, false)
  end.

(* the loop binds `it` (variable 0) afresh for every element of the value x[p] had when the
   loop started, and the outer `it` is visible again afterwards *)
Fixpoint exec_for (st : state) (elems : list val) (body : list sstmt) : state * bool :=
  match elems with
  | [] => (st, true)
  | e :: tl => let (st1, ok) := exec_list (set_var st 0 e) body in
               if ok then exec_for st1 tl body else (st1, false)
  end.

Definition exec (st : state) (s : stmt) : state * bool :=
  match s with
  | Simple s => exec_s st s
  | SFor x p body =>
    match eval st (ERead x p) with
    | None => (st, false)
    | Some src =>
      match iter_vals src, nth_error st 0 with
      | Some elems, Some saved => let (st1, ok) := exec_for st elems body in (set_var st1 0 saved, ok)
      | _, _ => (st, false)
      end
    end
  end.

(* run a history; the trace lists, after every statement, the state and the completion flag *)
Fixpoint run_value (st : state) (ops : list stmt) : list (state * bool) :=
  match ops with
  | [] => []
  | s :: tl => let r := exec st s in r :: run_value (fst r) tl
  end.

Definition final_value (st : state) (ops : list stmt) : state :=
  fold_left (fun s o => fst (exec s o)) ops st.

(* the README's example: matrix = [[0] ** 3] ** 2 built by aliasing one row; matrix[1][2] = 3 *)
Example readme_matrix :
  let row := VList [VInt 0; VInt 0; VInt 0] in
  final_value [VNull; VNull; VNull]
    [Simple (SAssign 1 [] (ELit row));
     Simple (SAssign 2 [] (EList [ERead 1 []; ERead 1 []]));
     Simple (SAssign 2 [PI 1; PI 2] (ELit (VInt 3)))]
  = [VNull; row; VList [row; VList [VInt 0; VInt 0; VInt 3]]].
Proof. reflexivity. Qed.
